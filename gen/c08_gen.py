"""C08 — seeded generators: well-formed macro programs with adversarial spelling (among them macro locals that are bound
only through the arguments of nested invocations), programs outside the hypotheses of the hygiene theorem (one defect
each), recursive macro tables, designed call patterns (around disjunctions; the two_hops family)."""
import copy

from . import dl

POOL = ["x", "y", "z", "a", "b", "t"]
INPUT_RELS = [["e0", 2, "rel"], ["e1", 2, "rel"], ["u0", 1, "rel"], ["u1", 1, "rel"]]
DERIVED_RELS = [["d0", 2, "rel"], ["d1", 1, "rel"], ["d2", 2, "rel"]]
RELS = INPUT_RELS + DERIVED_RELS
DOM = list(range(6))


def cid(name):
    return ["id", name, None]


def lid(name, k):
    return ["id", name, k]


def par(p):
    return ["par", p]


def tv(v):
    return ["v", v]


class BodyMacroGen:
    """one body-position macro; sig = list of parameter modes:
       'io'  ident, used as a clause argument (binds or tests), afterwards usable in expressions; an enclosing macro may
             pass a local of its own that nothing else binds (the nested invocation is then its only binder)
       'in'  ident, bound at the call site, usable in expressions from the start
       'new' ident, bound by a let / if let / for of the macro body; the call site passes an unused name
       'e'   expr, used as a whole clause / negation argument"""

    def __init__(self, rng, k, lower):
        self.rng, self.k, self.lower = rng, k, lower
        n = rng.randint(1, 3)
        self.sig = [rng.choice(["io", "io", "io", "in", "new", "e"]) for _ in range(n)]
        if not any(m in ("io", "in") for m in self.sig):
            self.sig[0] = "io"
        self.local_names = rng.sample(POOL, rng.randint(1, 3))
        self.bound = [par(i) for i, m in enumerate(self.sig) if m == "in"]
        self.unbound_io = [par(i) for i, m in enumerate(self.sig) if m == "io"]
        self.pending_new = [par(i) for i, m in enumerate(self.sig) if m == "new"]
        self.eparams = [par(i) for i, m in enumerate(self.sig) if m == "e"]
        self.unused_locals = [lid(n_, k) for n_ in self.local_names]
        self.items = []
        self.feats = set()
        self.used = set()
        # locals of THIS macro that are bound only through the arguments of nested invocations (no direct item of the
        # body has them in a binding position): the renaming pass finds them only because it runs on the fully
        # expanded items.  keep_nested_only: never put such a local into a direct binding position afterwards.
        self.nested_only = []
        self.keep_nested_only = rng.random() < 0.8
        self.nested_first = rng.random() < 0.45

    # ---- pieces
    def pick(self, avail):
        v = self.rng.choice(avail)
        self.used.add(str(v))
        return v

    def expr(self, avail):
        if self.rng.random() < 0.5:
            # a nested expression (gen/c08_args.py): the variables at top level / inside delimiter groups, any depth
            from . import c08_args
            self.feats.add("nested_expression_in_macro_body")
            t = c08_args.rand_xterm(self.rng, avail)
            for v in t[2]:
                self.used.add(str(v))
            return t
        f = self.rng.choice(sorted(dl.FUNS))
        if f == "asi32":
            f = "incs"
        return ["f", f, [self.pick(avail) for _ in range(dl.FUNS[f][1])]]

    def cond_if(self, avail):
        p = self.rng.choice(sorted(dl.PREDS))
        return ["if", p, [self.pick(avail) for _ in range(dl.PREDS[p][1])]]

    def clause(self, force=(), rels=RELS, private=None):
        """a clause whose first arguments bind the variables in `force`; new locals go to `private` if given"""
        rng = self.rng
        cands = [r for r in rels if r[1] >= max(1, len(force))]
        name, arity, _ = rng.choice(cands)
        args, newly = [tv(v) for v in force], list(force)
        while len(args) < arity:
            avail = [v for v in self.bound + newly + (private or []) if not (self.keep_nested_only and v in self.nested_only)]
            opts = [("const", 1.0)]
            if self.unbound_io and not force and private is None:
                opts.append(("io", 3.0))
            if self.unused_locals:
                opts.append(("local", 2.0))
            if avail:
                opts.append(("bound", 3.0))
            if self.eparams:
                opts.append(("e", 1.5))
            if self.bound:
                opts.append(("expr", 0.8))
            tot = sum(w for _, w in opts)
            u, pick = rng.random() * tot, None
            for name_, w in opts:
                if u < w:
                    pick = name_
                    break
                u -= w
            pick = pick or "const"
            if pick == "io":
                v = self.unbound_io.pop(0)
                args.append(tv(v))
                newly.append(v)
            elif pick == "local":
                v = self.unused_locals.pop(0)
                args.append(tv(v))
                (private if private is not None else newly).append(v)
            elif pick == "bound":
                v = rng.choice(avail)
                args.append(tv(v))
                self.used.add(str(v))
            elif pick == "e":
                v = rng.choice(self.eparams)
                args.append(tv(v))
                self.used.add(str(v))
                self.feats.add("expr_param")
            elif pick == "expr":
                args.append(self.expr(self.bound))
            else:
                args.append(["c", rng.choice(DOM)])
        rng.shuffle(args) if not force else None
        for v in newly:
            if v in self.unbound_io:
                self.unbound_io.remove(v)
            if v not in self.bound and (private is None or v in force):
                self.bound.append(v)
        conds = []
        if private is None and self.bound and rng.random() < 0.22:
            conds.append(self.cond_if(self.bound))
            self.feats.add("attached_condition_in_macro_body")
        return ["clause", name, args, conds]

    def binder(self):
        """let / if let / for binding a pending 'new' parameter or an unused local"""
        rng = self.rng
        if self.pending_new:
            x = self.pending_new.pop(0)
        elif self.unused_locals:
            x = self.unused_locals.pop(0)
        else:
            return None
        u = rng.random()
        if u < 0.5:
            f = rng.choice(["incs", "addm", "mod3", "decs", "max2"])
            it = ["cond", ["let", x, f, [self.pick(self.bound) for _ in range(dl.FUNS[f][1])]]]
        elif u < 0.75:
            f = rng.choice(sorted(dl.PARTIALS))
            it = ["cond", ["iflet", x, f, [self.pick(self.bound) for _ in range(dl.PARTIALS[f][1])]]]
        else:
            g = rng.choice(sorted(dl.GENS))
            it = ["gen", x, g, [self.pick(self.bound) for _ in range(dl.GENS[g][1])]]
        self.bound.append(x)
        return it

    def neg(self):
        rng = self.rng
        name, arity, _ = rng.choice(INPUT_RELS)
        args = []
        for _ in range(arity):
            u = rng.random()
            if u < 0.7:
                args.append(tv(self.pick(self.bound)))
            elif u < 0.8 and self.eparams:
                args.append(tv(self.pick(self.eparams)))
            else:
                args.append(["c", rng.choice(DOM)])
        self.feats.add("neg_in_macro")
        return ["neg", name, args]

    def disj(self):
        rng = self.rng
        force = []
        if self.unbound_io and rng.random() < 0.6:
            force = self.unbound_io[:rng.randint(1, min(2, len(self.unbound_io)))]
        alts = []
        for _ in range(2):
            private = []
            alt = [self.clause(force=force, private=private)]
            if rng.random() < 0.5:
                # an alternative must not END with an expression (`if c | next` would parse `|` as an operator):
                # a condition goes between two clauses
                avail = self.bound + private
                if avail and rng.random() < 0.5:
                    alt.append(["cond", self.cond_if(avail)])
                alt.append(self.clause(private=private, force=()))
            alts.append(alt)
        for v in force:
            if v in self.unbound_io:
                self.unbound_io.remove(v)
        self.feats.add("disj_in_macro")
        return ["disj", alts]

    def actual_e(self):
        rng = self.rng
        u = rng.random()
        if u < 0.3 and self.eparams:
            return tv(self.pick(self.eparams))
        if u < 0.6 and self.bound:
            return tv(self.pick(self.bound))
        if u < 0.8 and self.bound:
            return self.expr(self.bound)
        return ["c", rng.choice(DOM)]

    def inv(self):
        rng = self.rng
        cands = [j for j, s in self.lower.items() if s["kind"] == "body"]
        rng.shuffle(cands)
        if self.unused_locals or self.nested_only:
            # prefer an inner macro that can bind / re-use a local of this macro through its arguments
            cands.sort(key=lambda j: 0 if any(m in ("io", "new") for m in self.lower[j]["sig"]) else 1)
        for j in cands:
            sig = self.lower[j]["sig"]
            acts, ok, binds = [], True, []
            avail_new = list(self.pending_new) + list(self.unused_locals)
            for m in sig:
                if m == "io":
                    pool = self.bound + [v for v in self.unbound_io if v not in binds]
                    fresh = [v for v in self.unused_locals if v not in binds]
                    again = [v for v in self.nested_only if v in self.bound]
                    if fresh and (not pool or rng.random() < 0.5):
                        # a local of this macro that nothing has bound yet: the nested invocation binds it
                        v = fresh[0]
                        binds.append(v)
                        if v in avail_new:
                            avail_new.remove(v)
                    elif again and rng.random() < 0.5:
                        v = rng.choice(again)                 # a local bound by an earlier nested invocation (a join through it)
                    elif pool:
                        v = rng.choice(pool)
                        if v in self.unbound_io:
                            binds.append(v)
                    else:
                        ok = False
                        break
                    self.used.add(str(v))
                    acts.append(tv(v))
                elif m == "in":
                    if not self.bound:
                        ok = False
                        break
                    acts.append(tv(self.pick(self.bound)))
                elif m == "new":
                    avail_new = [v for v in avail_new if v not in binds]
                    if not avail_new:
                        ok = False
                        break
                    v = avail_new.pop(0)
                    binds.append(v)
                    acts.append(tv(v))
                else:
                    acts.append(self.actual_e())
            if not ok:
                continue
            for v in binds:
                if v in self.unbound_io:
                    self.unbound_io.remove(v)
                if v in self.pending_new:
                    self.pending_new.remove(v)
                if v in self.unused_locals:
                    self.unused_locals.remove(v)
                    self.nested_only.append(v)
                self.bound.append(v)
            self.feats.add("nested")
            return ["inv", j, acts]
        return None

    def build(self):
        rng = self.rng
        has_lower = any(s_["kind"] == "body" for s_ in self.lower.values())
        first = self.inv() if (has_lower and self.nested_first) else None
        self.items.append(first if first is not None else self.clause(force=()))
        if not self.bound:
            # the first clause bound nothing usable (constants only): bind a local
            v = self.unused_locals.pop(0) if self.unused_locals else None
            if v is None:
                v = lid(rng.choice(POOL), self.k)
            self.items.append(["clause", "u0", [tv(v)], []])
            self.bound.append(v)
        p_inv = 0.6 if (self.nested_first or self.nested_only) else 0.35
        for _ in range(rng.randint(1 if self.nested_only else 0, 3)):
            u = rng.random()
            it = None
            if has_lower and u < p_inv:
                it = self.inv()
            elif u < 0.55:
                it = self.clause()
            elif u < 0.65:
                it = ["cond", self.cond_if(self.bound)]
            elif u < 0.78:
                it = self.binder()
            elif u < 0.86:
                it = self.neg()
            else:
                it = self.disj()
            if it is not None:
                self.items.append(it)
        while self.unbound_io:
            self.items.append(self.clause(force=self.unbound_io[:2]))
        while self.pending_new:
            self.items.append(self.binder())
        for i, m in enumerate(self.sig):          # every parameter is used at least once
            if str(par(i)) in self.used:
                continue
            if m == "in":
                self.items.append(["cond", ["if", rng.choice(["le", "ne", "lt"]), [par(i), rng.choice(self.bound)]]])
            elif m == "e":
                self.items.append(["clause", rng.choice(["u0", "u1", "d1"]), [tv(par(i))], []])
                self.feats.add("expr_param")
        nonly = nested_only_locals(self.items)
        if nonly:
            self.feats.add("macro_local_bound_only_through_nested_invocation")
        return dict(name=self.k, params=[[i, m != "e"] for i, m in enumerate(self.sig)], body=self.items), \
            dict(kind="body", sig=self.sig, locals=sorted({v[1] for v in _idents_items(self.items)}), nested_only=nonly,
                 disj_only=disj_only_locals(self.items), feats=self.feats)


def head_macro(rng, k, lower):
    n = rng.randint(1, 3)
    sig = [rng.choice(["in", "in", "e"]) for _ in range(n)]
    if "in" not in sig:
        sig[0] = "in"
    ins = [par(i) for i, m in enumerate(sig) if m == "in"]
    es = [par(i) for i, m in enumerate(sig) if m == "e"]
    items, feats = [], set()
    for _ in range(rng.randint(1, 2)):
        name, arity, _ = rng.choice(DERIVED_RELS)
        args = []
        for _ in range(arity):
            u = rng.random()
            if u < 0.55:
                args.append(tv(rng.choice(ins)))
            elif u < 0.75 and es:
                args.append(tv(rng.choice(es)))
            elif u < 0.82:
                f = rng.choice(["incs", "addm", "mod3", "decs", "max2"])
                args.append(["f", f, [rng.choice(ins) for _ in range(dl.FUNS[f][1])]])
            elif u < 0.88:
                from . import c08_args
                args.append(c08_args.rand_xterm(rng, ins))
            else:
                args.append(["c", rng.choice(DOM)])
        items.append(["clause", name, args, []])
    cands = [j for j, s in lower.items() if s["kind"] == "head"]
    if cands and rng.random() < 0.5:
        j = rng.choice(cands)
        acts = []
        for m in lower[j]["sig"]:
            if m == "in":
                acts.append(tv(rng.choice(ins)))
            else:
                acts.append(tv(rng.choice(es)) if es and rng.random() < 0.5 else ["c", rng.choice(DOM)])
        items.insert(rng.randint(0, len(items)), ["inv", j, acts])
        feats.add("nested_head")
    return dict(name=k, params=[[i, m != "e"] for i, m in enumerate(sig)], body=items), dict(kind="head", sig=sig, locals=[], feats=feats)


def _idents_var(v):
    return [v] if v[0] == "id" else []


def _idents_term(t):
    if t[0] == "v":
        return _idents_var(t[1])
    if t[0] in ("f", "x"):
        return [x for v in t[2] for x in _idents_var(v)]
    return []


def _idents_cnd(c):
    if c[0] == "if":
        return [x for v in c[2] for x in _idents_var(v)]
    return _idents_var(c[1]) + [x for v in c[3] for x in _idents_var(v)]


def _idents_items(items):
    out = []
    for it in items:
        k = it[0]
        if k == "clause":
            out += [x for t in it[2] for x in _idents_term(t)] + [x for c in it[3] for x in _idents_cnd(c)]
        elif k == "cond":
            out += _idents_cnd(it[1])
        elif k == "gen":
            out += _idents_var(it[1]) + [x for v in it[3] for x in _idents_var(v)]
        elif k in ("neg", "inv"):
            out += [x for t in it[2] for x in _idents_term(t)]
        elif k == "disj":
            for alt in it[1]:
                out += _idents_items(alt)
    return out


def _bound_direct(items):
    """identifiers in a binding position of the items themselves, at any disjunction depth (python counterpart of
    MacroModel.bv_items / body_item_get_bound_vars: nothing for negations and for invocations)"""
    out = []
    for it in items:
        k = it[0]
        if k == "clause":
            out += [x for t in it[2] if t[0] == "v" for x in _idents_var(t[1])]
            out += [x for c in it[3] if c[0] in ("let", "iflet") for x in _idents_var(c[1])]
        elif k == "cond" and it[1][0] in ("let", "iflet"):
            out += _idents_var(it[1][1])
        elif k == "gen":
            out += _idents_var(it[1])
        elif k == "disj":
            for alt in it[1]:
                out += _bound_direct(alt)
    return out


def nested_only_locals(items):
    """spellings of the identifiers of a macro body that stand as an argument of a nested invocation and that no direct
    item of the body binds"""
    direct = {v[1] for v in _bound_direct(items)}
    passed = {t[1][1] for it in _walk(items) if it[0] == "inv" for t in it[2] if t[0] == "v" and t[1][0] == "id"}
    return sorted(passed - direct)


def disj_only_locals(items):
    """spellings of the identifiers of a macro body whose binding occurrences all lie inside disjunctions of the body: after
    the instantiation they sit in the list of bound variables of ONE item (the disjunction) together with whatever the call
    site passes for the parameters used there"""
    inside = {v[1] for it in items if it[0] == "disj" for v in _bound_direct([it])}
    outside = {v[1] for it in items if it[0] != "disj" for v in _bound_direct([it])}
    return sorted(inside - outside)


class RuleGen:
    def __init__(self, rng, sigs):
        self.rng, self.sigs = rng, sigs
        self.bound = []
        self.used = set()
        self.feats = set()
        self.invoked = []

    def prefer(self):
        """names of the locals of the macros invoked so far / available: the adversarial spelling"""
        names = []
        for j, s in self.sigs.items():
            names += s["locals"] + 3 * s.get("nested_only", []) + 3 * s.get("disj_only", [])
        return names or POOL

    def new_name(self, unused=False):
        rng = self.rng
        cands = [n for n in (self.prefer() if rng.random() < 0.7 else POOL) if cid(n) not in self.bound and (not unused or n not in self.used)]
        if not cands:
            cands = [n for n in POOL + ["w", "v", "s", "c"] if cid(n) not in self.bound and n not in self.used]
        return rng.choice(cands)

    def expr(self):
        if self.rng.random() < 0.5:
            from . import c08_args
            return c08_args.rand_xterm(self.rng, self.bound)
        f = self.rng.choice(["incs", "addm", "mod3", "decs", "max2"])
        return ["f", f, [self.rng.choice(self.bound) for _ in range(dl.FUNS[f][1])]]

    def clause(self, allow_new=True):
        rng = self.rng
        name, arity, _ = rng.choice(RELS)
        args, newly = [], []
        for _ in range(arity):
            u = rng.random()
            if allow_new and (u < 0.5 or not self.bound):
                n = self.new_name()
                v = cid(n)
                args.append(tv(v))
                newly.append(v)
                self.used.add(n)
            elif u < 0.85 and self.bound:
                args.append(tv(rng.choice(self.bound)))
            else:
                args.append(["c", rng.choice(DOM)])
        for v in newly:
            if v not in self.bound:
                self.bound.append(v)
        return ["clause", name, args, []]

    def inv(self, in_disj=False):
        rng = self.rng
        cands = [j for j, s in self.sigs.items() if s["kind"] == "body"]
        rng.shuffle(cands)
        # prefer a macro that was already invoked in this rule (same macro twice)
        cands.sort(key=lambda j: 0 if (j in self.invoked and rng.random() < 0.6) else 1)
        # ... and a macro with a local that is bound only through nested invocations (directly or in a macro it invokes)
        cands.sort(key=lambda j: 0 if (self.sigs[j].get("nested_only") and rng.random() < 0.5) else 1)
        for j in cands:
            sig = self.sigs[j]["sig"]
            if in_disj and "new" in sig:
                continue
            acts, newly, ok = [], [], True
            for m in sig:
                if m == "io":
                    if self.bound and (in_disj or rng.random() < 0.5):
                        acts.append(tv(rng.choice(self.bound)))
                    elif in_disj:
                        ok = False
                        break
                    else:
                        n = self.new_name()
                        self.used.add(n)
                        v = cid(n)
                        acts.append(tv(v))
                        if v not in newly:
                            newly.append(v)
                elif m == "in":
                    if not self.bound:
                        ok = False
                        break
                    acts.append(tv(rng.choice(self.bound)))
                elif m == "new":
                    n = self.new_name(unused=True)
                    self.used.add(n)
                    v = cid(n)
                    acts.append(tv(v))
                    newly.append(v)
                else:
                    u = rng.random()
                    if u < 0.4 and self.bound:
                        acts.append(tv(rng.choice(self.bound)))
                    elif u < 0.7 and self.bound:
                        like = [v for v in self.bound if v[1] in self.sigs[j]["locals"]]
                        if like and rng.random() < 0.6:
                            # an expression over a call-site variable spelled like a local of the invoked macro
                            from . import c08_args
                            acts.append(c08_args.rand_xterm(rng, like))
                            self.feats.add("expression_actual_over_variable_spelled_like_macro_local")
                        else:
                            acts.append(self.expr())
                    else:
                        acts.append(["c", rng.choice(DOM)])
            if not ok:
                continue
            if j in self.invoked:
                self.feats.add("same_macro_twice_in_rule")
            self.invoked.append(j)
            for a in acts:
                if a[0] == "v" and a[1][1] in self.sigs[j]["locals"]:
                    self.feats.add("actual_spelled_like_macro_local")
            for v in newly:
                if v not in self.bound:
                    self.bound.append(v)
            self.feats |= self.sigs[j]["feats"]
            return ["inv", j, acts]
        return None

    def body(self):
        rng = self.rng
        items = [self.clause()]
        ninv = 0
        for _ in range(rng.randint(1, 3)):
            u = rng.random()
            it = None
            if u < 0.55 or ninv == 0:
                it = self.inv()
                ninv += 1 if it else 0
            elif u < 0.70:
                it = self.clause()
            elif u < 0.78 and self.bound:
                p = rng.choice(sorted(dl.PREDS))
                it = ["cond", ["if", p, [rng.choice(self.bound) for _ in range(dl.PREDS[p][1])]]]
            elif u < 0.84 and self.bound:
                name, arity, _ = rng.choice(INPUT_RELS)
                it = ["neg", name, [tv(rng.choice(self.bound)) for _ in range(arity)]]
            else:
                alts = []
                for _ in range(2):
                    a = self.inv(in_disj=True) if rng.random() < 0.7 else None
                    if a is None:
                        a = self.clause(allow_new=False)
                    else:
                        self.feats.add("invocation_inside_disjunction")
                    alts.append([a])
                it = ["disj", alts]
                if any(a_[0][0] == "inv" for a_ in alts) and rng.random() < 0.8:
                    items.append(it)
                    it = self.inv()
                    if it is not None:
                        self.feats.add("invocation_after_disjunction_with_invocation")
            if it is not None:
                items.append(it)
        return items

    def heads(self):
        rng = self.rng
        hs = []
        hm = [j for j, s in self.sigs.items() if s["kind"] == "head"]
        for _ in range(rng.randint(1, 2)):
            if hm and rng.random() < 0.45:
                j = rng.choice(hm)
                acts = []
                for m in self.sigs[j]["sig"]:
                    if m == "in":
                        acts.append(tv(rng.choice(self.bound)))
                    else:
                        u = rng.random()
                        acts.append(tv(rng.choice(self.bound)) if u < 0.4 else self.expr() if u < 0.75 else ["c", rng.choice(DOM)])
                hs.append(["hinv", j, acts])
                self.feats.add("macro_in_head")
                self.feats |= self.sigs[j]["feats"]
            else:
                name, arity, _ = rng.choice(DERIVED_RELS)
                args = []
                for _ in range(arity):
                    u = rng.random()
                    args.append(tv(rng.choice(self.bound)) if u < 0.7 else self.expr() if u < 0.85 else ["c", rng.choice(DOM)])
                hs.append(["h", name, args])
        return hs


def spelled_like_local(p):
    """a call-site identifier of a rule is spelled like a local of a macro invoked (transitively) by that rule"""
    defs = {d["name"]: d for d in p["macros"]}

    def locals_of(m, seen):
        if m in seen or m not in defs:
            return set()
        seen.add(m)
        out = {v[1] for v in _idents_items(defs[m]["body"])}
        for it in _walk(defs[m]["body"]):
            if it[0] == "inv":
                out |= locals_of(it[1], seen)
        return out
    n = 0
    for r in p["rules"]:
        ms = [it[1] for it in _walk(r["body"]) if it[0] == "inv"] + [h[1] for h in r["heads"] if h[0] == "hinv"]
        loc = set()
        for m in ms:
            loc |= locals_of(m, set())
        names = {v[1] for v in _idents_items(r["body"])} | {v[1] for h in r["heads"] for t in h[2] for v in _idents_term(t)}
        if names & loc:
            n += 1
    return n


def nested_only_feats(p):
    """features of a program around macro locals that are bound only through nested invocations: such a macro is
    instantiated at least twice in the expansion of one rule / a call-site identifier of the rule is spelled like the local"""
    defs = {}
    for d in p["macros"]:
        defs[d["name"]] = d
    nonly = {m: nested_only_locals(d["body"]) for m, d in defs.items() if m not in p.get("head_macros", [])}
    nonly = {m: v for m, v in nonly.items() if v}
    feats = set()

    def count(items, depth=0):
        c = {}
        if depth > 60:
            return c
        for it in _walk(items):
            if it[0] == "inv" and it[1] in defs:
                c[it[1]] = c.get(it[1], 0) + 1
                for m, n in count(defs[it[1]]["body"], depth + 1).items():
                    c[m] = c.get(m, 0) + n
        return c
    for r in p["rules"]:
        c = count(r["body"])
        hit = [m for m in c if m in nonly]
        if not hit:
            continue
        feats.add("macro_local_bound_only_through_nested_invocation")
        if any(c[m] >= 2 for m in hit):
            feats.add("nested_only_local:macro_instantiated_twice_in_rule")
        names = {v[1] for v in _idents_items(r["body"])} | {v[1] for h in r["heads"] for t in h[2] for v in _idents_term(t)}
        if any(set(nonly[m]) & names for m in hit):
            feats.add("nested_only_local:spelled_like_call_site_variable")
    return feats


def _walk(items):
    for it in items:
        yield it
        if it[0] == "disj":
            for alt in it[1]:
                yield from _walk(alt)


def variants(items, defs, depth=0):
    """number of disjunction-free variants of a body after expansion (the macro turns each into a rule)"""
    n = 1
    for it in items:
        if it[0] == "disj":
            n *= sum(variants(a, defs, depth) for a in it[1])
        elif it[0] == "inv" and it[1] in defs and depth < 50:
            n *= variants(defs[it[1]]["body"], defs, depth + 1)
    return n


def gen_program(rng):
    while True:
        p, feats = gen_program_once(rng)
        defs = {d["name"]: d for d in p["macros"]}
        if max(variants(r["body"], defs) for r in p["rules"]) <= 12:
            return p, feats


def gen_program_once(rng):
    nm = rng.randint(1, 5)
    macros, sigs = [], {}
    for k in range(nm):
        if rng.random() < 0.3:
            d, s = head_macro(rng, k, sigs)
        else:
            d, s = BodyMacroGen(rng, k, sigs).build()
        macros.append(d)
        sigs[k] = s
    if not any(s["kind"] == "body" for s in sigs.values()):
        d, s = BodyMacroGen(rng, nm, sigs).build()
        macros.append(d)
        sigs[nm] = s
    rules, feats = [], set()
    for _ in range(rng.randint(1, 3)):
        g = RuleGen(rng, sigs)
        body = g.body()
        heads = g.heads()
        rules.append(dict(heads=heads, body=body))
        feats |= g.feats
    p = dict(rels=copy.deepcopy(RELS), macros=macros, rules=rules, head_macros=[k for k, s in sigs.items() if s["kind"] == "head"])
    if spelled_like_local(p):
        feats.add("call_site_variable_spelled_like_macro_local")
    feats.discard("macro_local_bound_only_through_nested_invocation")
    feats |= nested_only_feats(p)
    return p, sorted(feats)


def gen_input(rng):
    inp = {}
    for name, arity, _ in RELS:
        derived = name.startswith("d")
        n = rng.choice([0, 0, 1, 2]) if derived else rng.choice([2, 4, 6, 9])
        ts = set()
        for _ in range(n):
            ts.add(tuple(rng.choice(DOM) for _ in range(arity)))
        inp[name] = sorted(ts)
    return inp


# ------------------------------------------------------------------ programs outside the hypotheses (one defect each)

def defect_attached(rng):
    """a condition attached to a clause of a macro body mentions a macro-local variable (inside the hypotheses since 931a20f)"""
    y, w = rng.sample(POOL, 2)
    pr = rng.choice(["lt", "le", "ne"])
    body = [["clause", "e0", [tv(par(0)), tv(lid(y, 0))], [["if", pr, [lid(y, 0), par(0)] if rng.random() < 0.5 else [par(0), lid(y, 0)]]]]]
    if rng.random() < 0.5:
        body.append(["clause", "u0", [tv(lid(y, 0))], []])
    m = dict(name=0, params=[[0, True]], body=body)
    a = rng.choice([n for n in POOL if n != y])
    capt = rng.random() < 0.7          # the call site binds a variable spelled like the local: captured
    rb = [["clause", "u1", [tv(cid(y))], []]] if capt else []
    rb += [["clause", "u0", [tv(cid(a))], []], ["inv", 0, [tv(cid(a))]]]
    heads = [["h", "d0", [tv(cid(a)), tv(cid(y)) if capt else tv(cid(a))]]]
    return dict(rels=copy.deepcopy(RELS), macros=[m], rules=[dict(heads=heads, body=rb)], head_macros=[])


def defect_gensym(rng):
    """a call-site variable spelled like a generated name"""
    y = rng.choice(POOL)
    a = rng.choice([n for n in POOL if n != y])
    m = dict(name=0, params=[[0, True]], body=[["clause", "e0", [tv(par(0)), tv(lid(y, 0))], []], ["clause", "u0", [tv(lid(y, 0))], []]])
    second = rng.random() < 0.4
    g = "__%s_%s" % (y, "1" if second else "")
    rb = [["clause", "u1", [tv(cid(g))], []], ["inv", 0, [tv(cid(a))]]]
    if second:
        rb.append(["inv", 0, [tv(cid(a))]])
    return dict(rels=copy.deepcopy(RELS), macros=[m], rules=[dict(heads=[["h", "d0", [tv(cid(a)), tv(cid(g))]]], body=rb)], head_macros=[])


def defect_unbound(rng):
    """an identifier of a macro body that the body does not bind: head-position macro / condition"""
    y = rng.choice(POOL)
    a = rng.choice([n for n in POOL if n != y])
    capt = rng.random() < 0.7
    if rng.random() < 0.5:
        m = dict(name=0, params=[[0, True]], body=[["clause", "d0", [tv(par(0)), tv(lid(y, 0))], []]])
        rb = [["clause", "e0", [tv(cid(a)), tv(cid(y if capt else "w"))], []]]
        return dict(rels=copy.deepcopy(RELS), macros=[m], rules=[dict(heads=[["hinv", 0, [tv(cid(a))]]], body=rb)], head_macros=[0])
    w = rng.choice([n for n in POOL if n not in (y, a)])
    m = dict(name=0, params=[[0, True]], body=[["clause", "e0", [tv(par(0)), tv(lid(w, 0))], []], ["cond", ["if", rng.choice(["lt", "le", "ne"]), [lid(w, 0), lid(y, 0)]]]])
    rb = ([["clause", "u1", [tv(cid(y))], []]] if capt else []) + [["inv", 0, [tv(cid(a))]]]
    return dict(rels=copy.deepcopy(RELS), macros=[m], rules=[dict(heads=[["h", "d0", [tv(cid(a)), tv(cid(y)) if capt else tv(cid(a))]]], body=rb)], head_macros=[])


DEFECTS = [("attached", defect_attached), ("gensym", defect_gensym), ("unbound", defect_unbound)]
INSIDE = {"attached"}      # templates that satisfy the hypotheses of the theorem (attached conditions: fixed by 931a20f)


# ------------------------------------------------------------------ recursive macro tables (must be rejected)

def gen_recursive(rng, i):
    kinds = ["self_body", "mutual2", "mutual3", "self_head", "through_disjunction", "reached_from_outer", "mutual_head", "self_after_items"]
    kind = kinds[i % len(kinds)]
    y, z = rng.sample(POOL, 2)
    a = rng.choice([n for n in POOL if n not in (y, z)])
    hm = []
    heads = [["h", "d1", [tv(cid(a))]]]
    rb = [["clause", "u0", [tv(cid(a))], []]]
    if kind == "self_body":
        ms = [dict(name=0, params=[[0, True]], body=[["clause", "e0", [tv(par(0)), tv(lid(y, 0))], []], ["inv", 0, [tv(lid(y, 0))]]])]
        rb.append(["inv", 0, [tv(cid(a))]])
    elif kind == "self_after_items":
        ms = [dict(name=0, params=[[0, True], [1, False]], body=[["inv", 0, [tv(par(0)), ["c", rng.choice(DOM)]]], ["clause", "e0", [tv(par(0)), tv(par(1))], []]])]
        rb.append(["inv", 0, [tv(cid(a)), ["c", 1]]])
    elif kind == "mutual2":
        ms = [dict(name=0, params=[[0, True]], body=[["clause", "e0", [tv(par(0)), tv(lid(y, 0))], []], ["inv", 1, [tv(lid(y, 0))]]]),
              dict(name=1, params=[[0, True]], body=[["clause", "e1", [tv(par(0)), tv(lid(z, 1))], []], ["inv", 0, [tv(lid(z, 1))]]])]
        rb.append(["inv", rng.choice([0, 1]), [tv(cid(a))]])
    elif kind == "mutual3":
        ms = [dict(name=k, params=[[0, True]], body=[["clause", "e0", [tv(par(0)), tv(lid(y, k))], []], ["inv", (k + 1) % 3, [tv(lid(y, k))]]]) for k in range(3)]
        rb.append(["inv", rng.choice([0, 1, 2]), [tv(cid(a))]])
    elif kind == "self_head":
        ms = [dict(name=0, params=[[0, True]], body=[["clause", "d1", [tv(par(0))], []], ["inv", 0, [tv(par(0))]]])]
        heads = [["hinv", 0, [tv(cid(a))]]]
        hm = [0]
    elif kind == "mutual_head":
        ms = [dict(name=0, params=[[0, True]], body=[["clause", "d1", [tv(par(0))], []], ["inv", 1, [tv(par(0))]]]),
              dict(name=1, params=[[0, True]], body=[["inv", 0, [tv(par(0))]], ["clause", "d0", [tv(par(0)), tv(par(0))], []]])]
        heads = [["hinv", 1, [tv(cid(a))]]]
        hm = [0, 1]
    elif kind == "through_disjunction":
        ms = [dict(name=0, params=[[0, True]], body=[["disj", [[["clause", "e0", [tv(par(0)), tv(lid(y, 0))], []]], [["inv", 0, [tv(par(0))]]]]]])]
        rb.append(["inv", 0, [tv(cid(a))]])
    else:
        ms = [dict(name=0, params=[[0, True]], body=[["clause", "e0", [tv(par(0)), tv(lid(y, 0))], []], ["inv", 0, [tv(lid(y, 0))]]]),
              dict(name=1, params=[[0, True]], body=[["clause", "u1", [tv(par(0))], []], ["inv", 0, [tv(par(0))]]])]
        rb.append(["inv", 1, [tv(cid(a))]])
    return kind, dict(rels=copy.deepcopy(RELS), macros=ms, rules=[dict(heads=heads, body=rb)], head_macros=hm)


def chain(n, disj=False):
    """n macros, each invoking the previous one (inside a one-alternative disjunction if disj): not recursive"""
    ms = [dict(name=0, params=[[0, True]], body=[["clause", "e0", [tv(par(0)), tv(lid("y", 0))], []]])]
    for k in range(1, n):
        inv = ["inv", k - 1, [tv(par(0))]]
        ms.append(dict(name=k, params=[[0, True]], body=[["disj", [[inv]]] if disj else inv]))
    r = dict(heads=[["h", "d1", [tv(cid("a"))]]], body=[["inv", n - 1, [tv(cid("a"))]]])
    return dict(rels=copy.deepcopy(RELS), macros=ms, rules=[r], head_macros=[])


# ------------------------------------------------------------------ call patterns around disjunctions (every run)
# The per-rule name supply must be threaded THROUGH a disjunction: names drawn for an invocation inside `( .. | .. )`
# have to be seen by the invocations that follow it (and names drawn before it by the ones inside).  Each pattern comes
# with a designed input on which identifying the locals of two invocations changes the result.

PATTERNS = ["disj_then_inv", "inv_then_disj", "inv_in_two_disjuncts_then_inv", "nested_disj_then_inv", "disj_in_macro_body_then_inv",
            "disj_then_other_macro_same_local", "disj_then_two_invs", "inv_disj_inv", "nested_disj_both_levels", "disj_with_nested_macro_then_inv"]


def gen_pattern(rng, i):
    kind = PATTERNS[i % len(PATTERNS)]
    A, Ao = rng.choice([("e0", "e1"), ("e1", "e0")])          # A: the macro's join relation; Ao: the alternative's
    B, K = rng.choice([("u0", "u1"), ("u1", "u0")])           # B: filter on the local; K: binds the rule's variables
    v = rng.choice(POOL)
    a, b = rng.sample([n for n in POOL if n != v] if rng.random() < 0.5 else POOL, 2)     # sometimes spelled like the local
    if a == b:
        b = [n for n in POOL if n != a][0]
    extra = rng.random() < 0.4

    def body(m, first=par(0)):
        its = [["clause", A, [tv(first), tv(lid(v, m))], []], ["clause", B, [tv(lid(v, m))], [["if", "ne", [lid(v, m), first]]] if extra else []]]
        return its
    macros = [dict(name=0, params=[[0, True]], body=body(0))]
    inv = lambda x, m=0: ["inv", m, [tv(cid(x))]]            # noqa: E731
    alt = lambda x: ["clause", Ao, [tv(cid(x)), tv(cid(x))], []]      # noqa: E731  holds for one value only
    pre = [["clause", K, [tv(cid(a))], []], ["clause", K, [tv(cid(b))], []]]
    if kind == "disj_then_inv":
        rb = pre + [["disj", [[inv(a)], [alt(a)]]], inv(b)]
    elif kind == "inv_then_disj":
        rb = pre + [inv(a), ["disj", [[inv(b)], [alt(b)]]]]
    elif kind == "inv_in_two_disjuncts_then_inv":
        rb = pre + [["disj", [[inv(a)], [alt(a), inv(a)]]], inv(b)]
    elif kind == "nested_disj_then_inv":
        rb = pre + [["disj", [[["disj", [[inv(a)], [alt(a)]]]], [alt(a)]]], inv(b)]
    elif kind == "disj_in_macro_body_then_inv":
        macros.append(dict(name=1, params=[[0, True], [1, True]], body=[["disj", [[["inv", 0, [tv(par(0))]]], [["clause", Ao, [tv(par(0)), tv(par(0))], []]]]], ["inv", 0, [tv(par(1))]]]))
        rb = pre + [["inv", 1, [tv(cid(a)), tv(cid(b))]]]
    elif kind == "disj_then_other_macro_same_local":
        macros.append(dict(name=1, params=[[0, True]], body=body(1)))
        rb = pre + [["disj", [[inv(a, 0)], [alt(a)]]], inv(b, 1)]
    elif kind == "disj_then_two_invs":
        rb = pre + [["disj", [[alt(a)], [inv(a)]]], inv(b), inv(b)]
    elif kind == "inv_disj_inv":
        rb = pre + [inv(a), ["disj", [[inv(a)], [alt(b)]]], inv(b)]
    elif kind == "nested_disj_both_levels":
        rb = pre + [["disj", [[inv(a), ["disj", [[inv(a)], [alt(a)]]]], [alt(a)]]], inv(b)]
    else:
        macros = [dict(name=0, params=[[0, True]], body=body(0)), dict(name=1, params=[[0, True]], body=[["inv", 0, [tv(par(0))]]])]
        rb = pre + [["disj", [[inv(a, 1)], [alt(a)]]], inv(b, 1)]
    heads = [["h", "d0", [tv(cid(a)), tv(cid(b))]]]
    p = dict(rels=copy.deepcopy(RELS), macros=macros, rules=[dict(heads=heads, body=rb)], head_macros=[])
    # designed input: every key 1, 3, 5 has a witness of its own for the local; the alternative holds for 5 only
    designed = {A: [(1, 2), (3, 4), (5, 0)], B: [(0,), (2,), (4,)], K: [(1,), (3,), (5,)], Ao: [(5, 5)], "d0": [], "d1": [], "d2": []}
    return kind, p, designed


# ------------------------------------------------------------------ macro locals bound ONLY through nested invocations (every run)
# The renaming of the variables a macro body introduces finds them among the bound variables of the items it is given;
# an invocation binds nothing while it is unexpanded, so a local that occurs only in the arguments of nested invocations
# (`mid` in `macro two($x, $z) { hop!($x, mid), hop!(mid, $z) }`) is renamed only because the nested invocations are
# expanded FIRST.  Each pattern has such a local, a rule in which identifying the locals of two invocations / the local
# and a call-site variable of the same spelling changes the result, and a designed input (a chain) on which it does.
# `leak` = the (macro, spelling) pairs of those locals: the tie also runs the hand expansion in which they keep their
# spelling and checks that the designed input tells it apart from the hygienic one (the input is sensitive).

NPATTERNS = ["two_hops", "new_parameter_of_inner_macro", "two_levels", "nested_in_disjunction", "mixed_with_direct_local",
             "local_as_expr_actual", "inner_local_same_spelling", "used_in_condition_and_negation", "bound_by_second_invocation",
             "three_hops_two_locals"]
NSHAPES = ["twice", "call_site_variable_before", "call_site_variable_after", "actual_spelled_like_local", "twice_and_call_site_variable",
           "twice_inside_disjunction"]


def gen_nested_pattern(rng, i):
    kind = NPATTERNS[i % len(NPATTERNS)]
    shape = NSHAPES[(i // len(NPATTERNS) + i) % len(NSHAPES)]
    A, Ao = rng.choice([("e0", "e1"), ("e1", "e0")])          # A: the chain; Ao: shortcuts (alternative of a disjunction)
    B, K = rng.choice([("u0", "u1"), ("u1", "u0")])           # B: a filter on values; K: binds call-site variables
    v = rng.choice(POOL)                                      # the spelling of the local
    others = [n for n in POOL if n != v]
    a, b, c, w = rng.sample(others, 4)
    P0, P1 = par(0), par(1)
    II = [[0, True], [1, True]]
    macros = [dict(name=0, params=II, body=[["clause", A, [tv(P0), tv(P1)], []]])]        # hop: one step of the chain

    def add(body, params=II):
        """next macro of the table (a macro invokes only macros defined before it); returns its index"""
        macros.append(dict(name=len(macros), params=params, body=body))
        return len(macros) - 1
    if kind == "two_hops":
        top = add([["inv", 0, [tv(P0), tv(lid(v, 1))]], ["inv", 0, [tv(lid(v, 1)), tv(P1)]]])
        leak = [[top, v]]
    elif kind == "new_parameter_of_inner_macro":
        # the inner macro binds its second parameter with a let: the outer local is a `let` pattern after expansion
        mk = add([["clause", B, [tv(P0)], []], ["cond", ["let", P1, "incs", [P0]]]])
        top = add([["inv", mk, [tv(P0), tv(lid(v, 2))]], ["inv", 0, [tv(lid(v, 2)), tv(P1)]]])
        leak = [[top, v]]
    elif kind == "two_levels":
        v2 = v if rng.random() < 0.5 else rng.choice(others)
        two = add([["inv", 0, [tv(P0), tv(lid(v, 1))]], ["inv", 0, [tv(lid(v, 1)), tv(P1)]]])
        top = add([["inv", two, [tv(P0), tv(lid(v2, 2))]], ["inv", 0, [tv(lid(v2, 2)), tv(P1)]]])
        leak = [[two, v], [top, v2]]
    elif kind == "nested_in_disjunction":
        alt = add([["clause", Ao, [tv(P0), tv(P1)], []]])
        top = add([["disj", [[["inv", 0, [tv(P0), tv(lid(v, 2))]]], [["inv", alt, [tv(P0), tv(lid(v, 2))]]]]], ["inv", 0, [tv(lid(v, 2)), tv(P1)]]])
        leak = [[top, v]]
    elif kind == "mixed_with_direct_local":
        L, W = lid(v, 1), lid(w, 1)
        top = add([["inv", 0, [tv(P0), tv(L)]], ["cond", ["if", "ne", [L, P0]]], ["clause", A, [tv(W), tv(P1)], []], ["inv", 0, [tv(L), tv(W)]]])
        leak = [[top, v]]
    elif kind == "local_as_expr_actual":
        macros[0] = dict(name=0, params=[[0, True], [1, False]], body=[["clause", A, [tv(P0), tv(P1)], []]])
        top = add([["inv", 0, [tv(P0), tv(lid(v, 1))]], ["inv", 0, [tv(lid(v, 1)), tv(P1)]]])
        leak = [[top, v]]
    elif kind == "inner_local_same_spelling":
        # the inner macro has a local of its own with the same spelling (bound directly: renamed at the inner level)
        macros[0] = dict(name=0, params=II, body=[["clause", A, [tv(P0), tv(lid(v, 0))], []], ["clause", A, [tv(P0), tv(P1)], [["if", "le", [P1, lid(v, 0)]]]]])
        top = add([["inv", 0, [tv(P0), tv(lid(v, 1))]], ["inv", 0, [tv(lid(v, 1)), tv(P1)]]])
        leak = [[top, v]]
    elif kind == "used_in_condition_and_negation":
        L = lid(v, 1)
        top = add([["inv", 0, [tv(P0), tv(L)]], ["neg", B, [tv(L)]], ["cond", ["if", "lt", [P0, L]]], ["inv", 0, [tv(L), tv(P1)]]])
        leak = [[top, v]]
    elif kind == "bound_by_second_invocation":
        # the parameters are bound by direct items, the local only through the nested invocations
        L = lid(v, 1)
        top = add([["clause", K, [tv(P0)], []], ["inv", 0, [tv(P0), tv(L)]], ["inv", 0, [tv(L), tv(P1)]], ["clause", K, [tv(P1)], []]])
        leak = [[top, v]]
    else:
        L, W = lid(v, 1), lid(w, 1)
        top = add([["inv", 0, [tv(P0), tv(L)]], ["inv", 0, [tv(L), tv(W)]], ["inv", 0, [tv(W), tv(P1)]]])
        leak = [[top, v], [top, w]]
    inv = lambda x, z: ["inv", top, [tv(cid(x)), tv(cid(z))]]            # noqa: E731
    if shape == "twice":
        heads = [["h", "d0", [tv(cid(a)), tv(cid(c))]]]
        rb = [inv(a, b), inv(b, c)]
    elif shape == "call_site_variable_before":
        heads = [["h", "d0", [tv(cid(a)), tv(cid(b))]], ["h", "d1", [tv(cid(v))]]]
        rb = [["clause", B, [tv(cid(v))], []], inv(a, b)]
    elif shape == "call_site_variable_after":
        heads = [["h", "d0", [tv(cid(a)), tv(cid(b))]], ["h", "d1", [tv(cid(v))]]]
        rb = [inv(a, b), ["clause", B, [tv(cid(v))], []]]
    elif shape == "actual_spelled_like_local":
        heads = [["h", "d0", [tv(cid(a)), tv(cid(v))]]]
        rb = [inv(a, v)]
    elif shape == "twice_and_call_site_variable":
        heads = [["h", "d0", [tv(cid(a)), tv(cid(v))]]]
        rb = [inv(a, b), inv(b, v)]
    else:
        heads = [["h", "d0", [tv(cid(a)), tv(cid(c))]]]
        rb = [["clause", K, [tv(cid(a))], []], ["clause", K, [tv(cid(c))], []], ["disj", [[inv(a, b), inv(b, c)], [["clause", Ao, [tv(cid(a)), tv(cid(c))], []]]]]]
    p = dict(rels=copy.deepcopy(RELS), macros=macros, rules=[dict(heads=heads, body=rb)], head_macros=[])
    # designed input: the chain 0 -> 1 -> .. -> 9 (no cycle: a variable cannot be its own successor), two shortcuts,
    # B holds for the even values, K for every value
    designed = {A: [(k, k + 1) for k in range(9)], Ao: [(0, 3), (2, 5)], B: [(0,), (2,), (4,), (6,)], K: [(k,) for k in range(10)], "d0": [], "d1": [], "d2": []}
    return kind, shape, p, designed, leak
