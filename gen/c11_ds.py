"""C11, DS half: operation histories on the real trrel provider types (harness/ds_trrel) vs the Coq model
(Byods/TrRelModel.v) vs the provider laws P1-P5 evaluated against an explicit python transitive closure.

history  = dict(suite='bin'|'ter'|'tern', keys=K, dom=N, ops=[op], src=...)
op       = ['i', x, y] | ['i', k, x, y] | ['m'] | ['r']
A step observation is a flat list of integers (harness/ds_trrel/src/*.rs, TrRelModel.observe_*):
  insertion : [contains(total), contains(delta), result of insert_if_not_present or 2 when the head update skipped it]
  merge / r : observations of delta then of total; per version, per view, (bit mask of the tuples served,
              number of tuples served) for index_get over every key of the domain and for iter_all, + is_empty.
Families: exhaustive small sequences, random histories (2-3 keys, 3-5 node values; pause / resume, SCC boundaries),
and "heavy" (heavy_history: 4-32 keys sharing 1-3 edges over 2-3 node values; masks are 128 bits wide, fingerprints
Byods/TrRelFpWide.v).  Law `is_empty is definite`: a view that answers is_empty() = true has nothing to serve
according to the explicit closure (generated code skips whole rules on that answer)."""
import concurrent.futures as cf
import itertools
import os
import subprocess

from . import lib

M63 = (1 << 63) - 1
PRELUDE = ("From Coq Require Import List ZArith.\nFrom AV Require Import Byods.TrRelModel.\nFrom AV Require Import Byods.TrRelFp.\n"
           "From AV Require Import Byods.TrRelFpWide.\nImport ListNotations.\nOpen Scope Z_scope.\n")

# view layout of one version: (name, [readings], has is_empty slot)
BIN_VIEWS = [("full", ["contains", "get", "iter"]), ("none", ["get", "iter"]), ("i0", ["get", "iter"]), ("i1", ["get", "iter"])]
TER_FWD = [("full", ["contains", "get", "iter"]), ("none", ["get", "iter"]), ("i0", ["get", "iter"]),
           ("i01", ["get", "iter"]), ("i02", ["get", "iter"])]
TER_REV = [("i1", ["get", "iter"]), ("i2", ["get", "iter"]), ("i12", ["get", "iter"])]


def views_of(suite):
    if suite == "bin":
        return BIN_VIEWS
    if suite == "ter":
        return TER_FWD + TER_REV
    return TER_FWD


def view_groups(suite):
    """the views come in groups, each followed by the len_estimate panic flags of its views"""
    if suite == "bin":
        return [BIN_VIEWS]
    if suite == "ter":
        return [TER_FWD, TER_REV]
    return [TER_FWD]


def version_len(suite):
    return sum(2 * len(r) + 2 for _, r in views_of(suite))


# ------------------------------------------------------------------ harness

def harness_build():
    """build harness/ds_trrel against lib.REPO (lib.harness_build redirects the path dependencies for VERIF_REPO)"""
    return lib.harness_build("ds_trrel")


def case_line(c):
    return "%d %d %s" % (c["keys"], c["dom"], " ".join(":".join(str(t) for t in o) for o in c["ops"]))


def run_impl(binary, cases, timeout=900):
    """per case: list of steps, a step = list of ints or ('panic', i)"""
    res = [None] * len(cases)
    for suite in ("bin", "ter", "tern"):
        idx = [i for i, c in enumerate(cases) if c["suite"] == suite]
        if not idx:
            continue
        lines = [case_line(cases[i]) for i in idx]
        nsh = max(1, min(lib.NCPU, len(lines) // 100 + 1))
        per = (len(lines) + nsh - 1) // nsh
        chunks = [lines[i:i + per] for i in range(0, len(lines), per)]

        def run(ch):
            p = subprocess.run([binary, suite], input="\n".join(ch) + "\n", stdout=subprocess.PIPE,
                               stderr=subprocess.PIPE, text=True, timeout=timeout)
            # the library prints "iterating TrRelIndNone. .." to stdout from index_get: result lines are marked
            outl = [l[3:] for l in p.stdout.splitlines() if l.startswith("@@ ")]
            if len(outl) != len(ch):
                raise lib.Infra("ds_trrel %s: %d cases, %d results (rc=%s) stderr=%s" % (suite, len(ch), len(outl), p.returncode, p.stderr[-500:]))
            return outl
        with cf.ThreadPoolExecutor(lib.NCPU) as ex:
            outs = [l for r in ex.map(run, chunks) for l in r]
        for i, l in zip(idx, outs):
            steps = []
            for s in l.split(" # "):
                s = s.strip()
                if not s:
                    continue
                if s.startswith("panic@"):
                    steps.append(("panic", int(s[6:])))
                else:
                    steps.append([int(t) for t in s.split()])
            res[i] = steps
    return res


# ------------------------------------------------------------------ Coq side

def coq_ops(c):
    out = []
    for o in c["ops"]:
        if o[0] == "i":
            out.append(("BIns %d %d" % (o[1], o[2])) if c["suite"] == "bin" else ("TIns %d %d %d" % (o[1], o[2], o[3])))
        elif o[0] == "m":
            out.append("BMerge" if c["suite"] == "bin" else "TMerge")
        else:
            out.append("BRestart" if c["suite"] == "bin" else "TRestart")
    return "[" + "; ".join(out) + "]"


def coq_batch(suite, keys, dom, cases, mode):
    wrap = {"hist": "fpw_hist ", "steps": "fpw_steps ", "full": ""}[mode]
    hs = "[" + "; ".join(coq_ops(c) for c in cases) + "]"
    if suite == "bin":
        return "map (fun h => %s(run_bin %d%%nat h)) %s" % (wrap, dom, hs)
    return "map (fun h => %s(run_ter %s %d%%nat %d%%nat h)) %s" % (wrap, "true" if suite == "ter" else "false", keys, dom, hs)


_FP_BUILT = [False]


def ensure_fp_built():
    """Byods/TrRelFpWide.v (fingerprints, tie only; imports TrRelFp.v) is not in the closure of Props/C11.v: build it before evaluating cases"""
    if _FP_BUILT[0]:
        return
    with lib.Lock("coq"):
        lib.coq_makefile()
        rc, out = lib.sh(["timeout", "900", "make", "Byods/TrRelFpWide.vo"], cwd=lib.COQ, timeout=960)
    if rc:
        raise lib.Infra("Byods/TrRelFpWide.v does not build:\n" + out[-2000:])
    _FP_BUILT[0] = True


def run_model(cases, mode="hist", tag="c11ds"):
    ensure_fp_built()
    tag = "%s_%d" % (tag, os.getpid())      # concurrent checks must not share case files
    """per case ('ok'|'err', steps, err step)"""
    groups = {}
    for i, c in enumerate(cases):
        groups.setdefault((c["suite"], c["keys"], c["dom"]), []).append(i)
    exprs, owners = [], []
    for (suite, keys, dom), idx in sorted(groups.items()):
        bs = 60
        for j in range(0, len(idx), bs):
            chunk = idx[j:j + bs]
            exprs.append(coq_batch(suite, keys, dom, [cases[i] for i in chunk], mode))
            owners.append(chunk)
    vals = lib.coq_eval(tag, PRELUDE, exprs, per_shard=max(1, (len(exprs) + lib.NCPU - 1) // lib.NCPU), timeout=1500)
    res = [None] * len(cases)
    for chunk, v in zip(owners, vals):
        assert len(v) == len(chunk), (len(v), len(chunk))
        for i, t in zip(chunk, v):
            if t[0] == "TOk":
                res[i] = ("ok", [list(s) for s in t[1]], None)
            else:
                res[i] = ("err", [list(s) for s in t[1]], t[2])
    return res


def fp(nums):
    """TrRelFpWide.fpw: a number >= 2^63 (bit mask over more than 63 cells) is folded as its three 63-bit limbs"""
    h = 7
    for v in nums:
        if v <= M63:
            h = (h * 131105 + v + 1) & M63
        else:
            for limb in (v & M63, (v >> 63) & M63, v >> 126):
                h = (h * 131105 + limb + 1) & M63
    return h


def impl_hist_fp(steps):
    fps, panic_at = [], None
    for s in steps:
        if isinstance(s, tuple):
            panic_at = s[1]
            break
        fps.append(fp(s))
    return fps, panic_at


def agree(isteps, m):
    fps, panic_at = impl_hist_fp(isteps)
    st, ms, err = m
    if (panic_at is None) != (st == "ok"):
        return False
    if panic_at is not None and err != panic_at:
        return False
    return ms == [[fp(fps)]]


def locate_diff(isteps, msteps):
    fps, panic_at = impl_hist_fp(isteps)
    st, ms, err = msteps
    n = max(len(fps), len(ms))
    for i in range(n + 1):
        ip = panic_at == i
        mp = st == "err" and err == i
        if ip or mp:
            if ip and mp:
                return None
            return i, "implementation %s at step %d, model %s" % ("panicked" if ip else "ran on", i, "panics / out of fuel" if mp else "ran on")
        if i >= len(fps) or i >= len(ms):
            if len(fps) != len(ms):
                return i, "traces end differently at step %d" % i
            return None
        if [fps[i]] != ms[i]:
            return i, "observation after step %d differs" % i
    return None


# ------------------------------------------------------------------ decoding + specification oracle

def popcount(m):
    return bin(m).count("1")


def decode_version(suite, nums):
    """-> {view: {reading: (mask, count)}, view+'_empty': flag}"""
    out, p = {}, 0
    for group in view_groups(suite):
        for name, readings in group:
            d = {}
            for r in readings:
                d[r] = (nums[p], nums[p + 1])
                p += 2
            d["is_empty"] = nums[p]
            p += 1
            out[name] = d
        for name, _ in group:
            out[name]["len_estimate_panics"] = nums[p]
            p += 1
    assert p == len(nums), (p, len(nums))
    return out


def decode_obs(suite, nums):
    L = version_len(suite)
    assert len(nums) == 2 * L, (len(nums), L)
    return dict(delta=decode_version(suite, nums[:L]), total=decode_version(suite, nums[L:]))


def cell_of(c, t):
    if c["suite"] == "bin":
        return t[0] * c["dom"] + t[1]
    return (t[0] * c["dom"] + t[1]) * c["dom"] + t[2]


def tuples_of(c, mask):
    out, n = [], c["dom"]
    i = 0
    while mask:
        if mask & 1:
            if c["suite"] == "bin":
                out.append((i // n, i % n))
            else:
                out.append((i // (n * n), (i // n) % n, i % n))
        mask >>= 1
        i += 1
    return out


def tc_pairs(pairs):
    """explicit transitive closure, naive"""
    rel = set(pairs)
    changed = True
    while changed:
        changed = False
        for (a, b) in list(rel):
            for (c_, d) in list(rel):
                if b == c_ and (a, d) not in rel:
                    rel.add((a, d))
                    changed = True
    return rel


def closure(c, ins):
    """closure (per key) of the inserted tuples as a set of tuples"""
    if c["suite"] == "bin":
        return tc_pairs(ins)
    out = set()
    for k in {t[0] for t in ins}:
        out |= {(k, a, b) for (a, b) in tc_pairs([(t[1], t[2]) for t in ins if t[0] == k])}
    return out


F3 = "trrel_cycle_reflexive_missing"
F4 = "trrel_ternary_delta_reverse_views"
F11 = "trrel_ternary_ind12_len_estimate_div_zero"


def spec_check(c, steps):
    """provider laws against the explicit closure.  Returns list of failures
    dict(step, law, version, view, reading, missing, extra, klass) (klass: None | F3 | F4)"""
    fails = []
    ins_all, ins_round = [], []     # everything inserted so far / in the current round (since the last merge)
    new_round = set()               # what `new` holds
    tread, dread = set(), set()     # last observation
    last = None

    def mask(ts):
        m = 0
        for t in ts:
            m |= 1 << cell_of(c, t)
        return m

    def refl_not_inserted(t):
        return t[-1] == t[-2] and tuple(t) not in set(ins_all)

    for i, (op, s) in enumerate(zip(c["ops"], steps)):
        if isinstance(s, tuple):
            fails.append(dict(step=i, law="no panic", version="-", view="-", reading="-", missing=[], extra=[], klass=None,
                              what="step %d %s panicked" % (i, op)))
            return fails
        if op[0] == "i":
            t = tuple(op[1:])
            ct, cd, ret = s
            want_ct, want_cd = int(t in tread), int(t in dread)
            if (ct, cd) != (want_ct, want_cd):
                fails.append(dict(step=i, law="P5 contains_key", version="-", view="full", reading="contains", missing=[], extra=[], klass=None,
                                  what="step %d insert%s: contains(total), contains(delta) = %s, the views served %s" % (i, t, (ct, cd), (want_ct, want_cd))))
            want_ret = 2 if (ct or cd) else int(t not in new_round)
            if ret != want_ret:
                fails.append(dict(step=i, law="P1 insert_if_not_present", version="new", view="full", reading="insert", missing=[], extra=[], klass=None,
                                  what="step %d insert%s returned %d, expected %d" % (i, t, ret, want_ret)))
            ins_all.append(t)
            ins_round.append(t)
            if not (ct or cd):
                new_round.add(t)
            continue
        o = decode_obs(c["suite"], s)
        C = closure(c, ins_all)
        if op[0] == "m":
            prev_union = tread | dread
        else:
            prev_union = set()       # restart: total is empty again, delta serves the stored relation
        # what total serves: every view must serve the same set
        T = set(tuples_of(c, o["total"]["full"]["iter"][0]))
        D = set(tuples_of(c, o["delta"]["full"]["iter"][0]))

        def add(law, version, view, reading, missing, extra):
            missing, extra = sorted(missing), sorted(extra)
            klass = None
            # F3: the tuple is (x,x), was not inserted, and is served by NO view (absent from total and delta)
            lost = [t for t in missing if refl_not_inserted(t) and t not in T and t not in D]
            rest = [t for t in missing if t not in lost]
            if not extra and missing and not rest:
                klass = F3
            elif (not extra and rest and version == "delta" and view in ("i1", "i2", "i12") and c["suite"] == "ter"):
                raw1 = {(t[0], t[1]) for t in new_round}      # (key, column-1 value) pairs that entered `new` this round
                raw2 = {(t[0], t[2]) for t in new_round}

                def unreachable(t):
                    a = (t[0], t[1]) not in raw1
                    b = (t[0], t[2]) not in raw2
                    return a if view == "i1" else b if view == "i2" else (a or b)
                # F4: the tuple IS in delta (its full view serves it) but its column value did not enter `new` in the last round
                if all(t in D and unreachable(t) for t in rest):
                    klass = F4
            fails.append(dict(step=i, law=law, version=version, view=view, reading=reading, missing=missing, extra=extra, klass=klass,
                              what="after step %d (%s) %s: %s view %s.%s: missing %s, not allowed %s" % (
                                  i, "merge" if op[0] == "m" else "SCC restart", law, version, view, reading, missing[:6], extra[:6])))
        # P3: nothing is readable from total that was not served one round earlier
        if op[0] == "m" and not T <= prev_union:
            add("P3 total only grows by the previous delta", "total", "full", "iter", [], T - prev_union)
        # P3b: and nothing that was served one round earlier is lost from total (restart: total is empty, delta = the stored relation)
        if op[0] == "m" and not prev_union <= T:
            add("P3b total keeps what total and delta served one round earlier", "total", "full", "iter", prev_union - T, [])
        if op[0] == "r" and (T or D != tread):
            add("P3b SCC boundary: total is empty, delta serves the stored relation", "delta", "full", "iter", tread - D, (D - tread) | T)
        # P2: total + delta = closure of everything inserted
        if (T | D) != C:
            add("P2 total+delta = closure(inserted)", "total+delta", "full", "iter", C - (T | D), (T | D) - C)
        for version, content in (("total", T), ("delta", D)):
            for view, readings in views_of(c["suite"]):
                for r in readings:
                    m, cnt = o[version][view][r]
                    if cnt != popcount(m):
                        fails.append(dict(step=i, law="no duplicates", version=version, view=view, reading=r, missing=[], extra=[], klass=None,
                                          what="after step %d: %s view %s.%s served %d tuples, %d distinct" % (i, version, view, r, cnt, popcount(m))))
                    V = set(tuples_of(c, m))
                    if version == "total":
                        if V != T:
                            add("P4/P5 every total view serves the total", version, view, r, T - V, V - T)
                    else:
                        lo, hi = C - T, C
                        if not (lo <= V and V <= hi):
                            add("P4 delta view serves at least the added part, at most the closure", version, view, r, lo - V, V - hi)
                        if view == "full" and r == "contains" and V != D:
                            add("P5 contains_key(delta)", version, view, r, D - V, V - D)
                if o[version][view]["len_estimate_panics"]:
                    empty_map = not content
                    fails.append(dict(step=i, law="len_estimate does not panic", version=version, view=view, reading="len_estimate", missing=[], extra=[],
                                      klass=F11 if (view == "i12" and empty_map) else None,
                                      what="after step %d: len_estimate() of %s view %s panics (%s version)" % (i, version, view, "empty" if empty_map else "non-empty")))
                # RelIndexRead::is_empty = "is the relation DEFINITELY empty": generated code skips a whole rule when any
                # body relation answers true (compile_mir_rule: any_rel_empty).  So: is_empty() => the view has nothing
                # to serve.  What it has to serve is given by the explicit closure: a total view the total (= what was
                # served one round earlier, P3/P3b), a delta view at least closure(inserted) - total (P4).
                if o[version][view]["is_empty"]:
                    required = content if version == "total" else (C - T)
                    served = set()
                    for r in readings:
                        served |= set(tuples_of(c, o[version][view][r][0]))
                    nserved = sum(o[version][view][r][1] for r in readings)
                    if required or served or nserved:
                        fails.append(dict(step=i, law="is_empty is definite", version=version, view=view, reading="is_empty",
                                          missing=sorted(required), extra=[], klass=None,
                                          what="after step %d: %s view %s answers is_empty() = true, but the explicit closure requires it to serve %d tuples %s (it serves %d: %s)" % (
                                              i, version, view, len(required), sorted(required)[:4], len(served), sorted(served)[:4])))
        tread, dread = T, D
        ins_round, new_round = [], set()
        last = o
    return fails


def history_stats(c):
    """features of the inserted graph(s) for the distribution / non-triviality count"""
    ins = [tuple(o[1:]) for o in c["ops"] if o[0] == "i"]
    C = closure(c, ins)
    cyc = any(t[-1] == t[-2] for t in C)
    selfl = any(t[-1] == t[-2] for t in ins)
    rounds = 0
    pending = False
    for o in c["ops"]:
        if o[0] == "i":
            pending = True
        elif pending:
            rounds += 1
            pending = False
    derived = len(C - set(ins))
    return dict(cyclic=cyc, self_loop=selfl, rounds=rounds, derived=derived, keys=len({t[0] for t in ins}) if c["suite"] != "bin" else 1,
                restart=any(o[0] == "r" for o in c["ops"]))


# ------------------------------------------------------------------ generators

def rand_graph_edges(rng, dom, shape, nedges):
    vs = list(range(dom))
    edges = []
    for _ in range(nedges):
        if shape == "acyclic":
            a, b = sorted(rng.sample(vs, 2))
        elif shape == "chain":
            a = rng.randrange(dom - 1)
            b = a + 1
        elif shape == "cycle":
            a = rng.randrange(dom)
            b = (a + 1) % dom
        elif shape == "self":
            a = rng.randrange(dom)
            b = a if rng.random() < 0.4 else rng.randrange(dom)
        else:
            a, b = rng.randrange(dom), rng.randrange(dom)
        edges.append((a, b))
    return edges


def rand_history(rng, suite, keys, dom):
    shape = rng.choice(["acyclic", "chain", "cycle", "self", "random", "random"])
    nrounds = rng.randint(1, 5)
    ops = []
    active = list(range(keys))
    for r in range(nrounds):
        if suite != "bin" and rng.random() < 0.4:
            active = rng.sample(range(keys), rng.randint(1, keys))      # keys pause and resume
        for (a, b) in rand_graph_edges(rng, dom, shape, rng.randint(0, 3)):
            if rng.random() < 0.15 and ops:
                prev = [o for o in ops if o[0] == "i"]
                if prev:
                    ops.append(list(rng.choice(prev)))        # re-insertion of an earlier tuple
                    continue
            ops.append(["i", a, b] if suite == "bin" else ["i", rng.choice(active), a, b])
        ops.append(["m"])
        if rng.random() < 0.25:
            ops.append(["m"])
        if rng.random() < 0.12:
            if ops[-2:] != [["m"], ["m"]]:
                ops.append(["m"])
            ops.append(["r"])
    ops += [["m"], ["m"]]
    return dict(suite=suite, keys=keys if suite != "bin" else 1, dom=dom, ops=ops, src="random/" + shape)


def heavy_history(rng, suite):
    """family "heavy": MANY keys sharing FEW node values.  Every key draws its edges from one small pattern (1-3 edges
    over 2 or 3 node values), so the per-key map is large while the reverse maps column value -> keys have 1-3
    entries: the regime where size heuristics over the keyed views (len_estimate of the ternary [1,2] view =
    |column-1 values| * |column-2 values| / floor(sqrt(|keys|)), rounded) are furthest from the truth.  Numbers of keys
    sit on both sides of the squares 4, 9, 16, 25.  The harness folds served tuples into 128-bit masks:
    keys * dom^2 <= 128."""
    dom = rng.choice([2, 2, 2, 3])
    keys = rng.choice([4, 5, 9, 10, 16, 17, 24, 25, 26, 30, 32]) if dom == 2 else rng.choice([4, 5, 9, 10, 14])
    vs = list(range(dom))
    shape = rng.choice(["edge", "two_cycle", "pattern", "pattern", "self"])
    if shape == "edge":
        a, b = rng.sample(vs, 2)
        pat = [(a, b)]
    elif shape == "two_cycle":
        a, b = rng.sample(vs, 2)
        pat = [(a, b), (b, a)]
    elif shape == "self":
        a = rng.choice(vs)
        pat = [(a, a)] + ([(a, rng.choice(vs))] if rng.random() < 0.5 else [])
    else:
        pat = sorted({(rng.choice(vs), rng.choice(vs)) for _ in range(rng.randint(1, 3))})
    nrounds = rng.randint(1, 3)
    ops = []
    for r in range(nrounds):
        u = rng.random()
        ks = list(range(keys)) if u < 0.5 else rng.sample(range(keys), rng.randint(1, keys))
        rng.shuffle(ks)
        # one edge of the pattern per round (the pattern arrives over several iterations), or the whole pattern at once
        es = pat if (nrounds == 1 or rng.random() < 0.4) else [pat[r % len(pat)]]
        for k in ks:
            for (a, b) in es:
                if rng.random() < 0.9:
                    ops.append(["i", k, a, b])
        ops.append(["m"])
        if rng.random() < 0.3:
            ops.append(["m"])
        if rng.random() < 0.15:
            if ops[-2:] != [["m"], ["m"]]:
                ops.append(["m"])
            ops.append(["r"])
    ops += [["m"], ["m"]]
    return dict(suite=suite, keys=keys, dom=dom, ops=ops, src="heavy/" + shape)


def protocol_ok(c):
    """an SCC ends only after a merge with empty `new`: every 'r' directly follows two merges (or starts the history)"""
    ops = c["ops"]
    for j, o in enumerate(ops):
        if o[0] == "r" and j > 0 and not (ops[j - 1][0] == "m" and (j == 1 or ops[j - 2][0] in ("m", "r"))):
            return False
    return True


def shrink_batch(c, fails_batch):
    """delta debugging with batched evaluation: fails_batch(candidates) -> [bool]; chunks of operations are removed
    (halves, quarters, ..., single operations) while the failure persists; candidates that leave the head-update /
    SCC protocol are not considered"""
    ops = list(c["ops"])
    n = 2
    while len(ops) > 1:
        size = max(1, len(ops) // n)
        cands = []
        for j in range(0, len(ops), size):
            cand = dict(c, ops=ops[:j] + ops[j + size:])
            if cand["ops"] and protocol_ok(cand):
                cands.append(cand)
        res = fails_batch(cands) if cands else []
        hit = next((cd for cd, f in zip(cands, res) if f), None)
        if hit is not None:
            ops = hit["ops"]
            n = max(n - 1, 2)
        elif size == 1:
            break
        else:
            n = min(n * 2, len(ops))
    return dict(c, ops=ops)


def exhaustive_bin(dom, nedges):
    """every sequence of nedges edges over dom, with every placement of merges between them"""
    cells = [(a, b) for a in range(dom) for b in range(dom)]
    for es in itertools.product(cells, repeat=nedges):
        for cuts in itertools.product([0, 1], repeat=nedges - 1):
            ops = []
            for j, e in enumerate(es):
                ops.append(["i", e[0], e[1]])
                if j < nedges - 1 and cuts[j]:
                    ops.append(["m"])
            ops += [["m"], ["m"]]
            yield dict(suite="bin", keys=1, dom=dom, ops=ops, src="exhaustive%d" % nedges)


def exhaustive_ter(suite, nedges):
    """two keys, two elements... every sequence of nedges triples over 2 keys x 2x2, every merge placement"""
    cells = [(k, a, b) for k in range(2) for a in range(2) for b in range(2)]
    for es in itertools.product(cells, repeat=nedges):
        for cuts in itertools.product([0, 1], repeat=nedges - 1):
            ops = []
            for j, e in enumerate(es):
                ops.append(["i"] + list(e))
                if j < nedges - 1 and cuts[j]:
                    ops.append(["m"])
            ops += [["m"], ["m"]]
            yield dict(suite=suite, keys=2, dom=2, ops=ops, src="exhaustive%d" % nedges)


def gen_cases(tier, seed, prop="C11"):
    rng = lib.rng_for(seed, prop, "ds")
    quick = tier == "quick"
    cases = []
    cases += list(exhaustive_bin(3, 2))                                 # 81 * 2 = 162
    if quick:
        ex3 = list(exhaustive_bin(3, 3))                                # 729 * 4 = 2916
        cases += rng.sample(ex3, 500)
        ext = list(exhaustive_ter("ter", 3))
        cases += rng.sample(ext, 400)
        nb, nt, nm = 700, 900, 338
    else:
        cases += list(exhaustive_bin(3, 3))
        cases += list(exhaustive_ter("ter", 3))                         # 512 * 4 = 2048
        cases += rng.sample(list(exhaustive_ter("tern", 3)), 800)
        ex4 = list(exhaustive_bin(2, 4))                                # 256 * 8
        cases += ex4
        nb, nt, nm = 20000, 26000, 6026
    for _ in range(nb):
        cases.append(rand_history(rng, "bin", 1, rng.choice([3, 4, 5])))
    for _ in range(nt):
        cases.append(rand_history(rng, "ter", rng.choice([2, 3]), rng.choice([3, 4])))
    for _ in range(nm):
        cases.append(rand_history(rng, "tern", rng.choice([2, 3]), rng.choice([3, 4])))
    rh = lib.rng_for(seed, prop, "ds-heavy")
    for j in range(300 if quick else 3000):
        cases.append(heavy_history(rh, "tern" if j % 5 == 4 else "ter"))
    return cases


def shrink(c, still_fails):
    """greedy removal of operations while the failure persists"""
    ops = list(c["ops"])
    changed = True
    while changed and len(ops) > 1:
        changed = False
        for j in range(len(ops)):
            cand = dict(c, ops=ops[:j] + ops[j + 1:])
            if still_fails(cand):
                ops = cand["ops"]
                changed = True
                break
    return dict(c, ops=ops)
