"""C07 — the family `negfam`: negation (and the aggregates next to it) read through EVERY kind of index.

What the general generator of gen/c07_gen.py never did:
  * a negation whose arguments are ALL wildcards (an emptiness test: the only way to read the key-less `[]` index through a
    negation) was a 4 % accident, a relation without columns (`!r()`) was never declared;
  * every program went through the serial `ascent!` macro over the default relations, so the only index types a sugared form
    was ever compiled against were the serial hash indices: never `ascent_par!` (CRelIndex / CRelFullIndex / CRelNoIndex),
    never a relation backed by a BYODS provider (`#[ds(ascent_byods_rels::eqrel | trrel | trrel_uf)]`);
  * no input was built around the negated relation: whether it was completely EMPTY or not when the rule ran was left to chance.

This module adds
  * `spec_program`: the specification of a program with provider-tagged relations = the same program over plain relations plus
    the provider's explicit closure rules (C10 / C11 / C12's specification); the identity on programs without tags;
  * `gen_neg_program`: level-0 relations (plain, column-less, provider-tagged fed by one copy rule from a plain input relation)
    and derived levels whose rules are those of the general generator PLUS designed negations: the wildcard mask runs through every
    subset of the argument positions (all-wildcard and no-wildcard included, biased to ALL), in every body position (also first,
    also as the whole body, also inside disjunctions), over plain / column-less / tagged / derived relations;
  * `neg_inputs`: per program one input with every input relation non-empty, one per negated relation with exactly that
    relation's support emptied, one with all of them emptied;
  * `MACROS`: half of the family (and a slice of the general programs, see gen/props/c07.py) is compiled under `ascent_par!`.
Sugared text, hand expansion (both keep the provider tag and the macro) and the Coq / python denotation of `spec_program` are
compared by gen/props/c07.py exactly like every other C07 case.
"""
from collections import Counter

from . import c07_gen as G
from . import c07_oracle as O
from . import gen_dl

DOM = gen_dl.DOM

PROVIDERS = {
    # name: (path, arities, arities available under ascent_par!, closure)
    "eqrel": ("ascent_byods_rels::eqrel", (2, 3), (2,), ("refl", "sym", "trans")),
    "trrel": ("ascent_byods_rels::trrel", (2, 3), (), ("trans",)),
    "trrel_uf": ("ascent_byods_rels::trrel_uf", (2, 3), (), ("refl", "trans")),
}
PATH_TO_PROVIDER = {v[0]: k for k, v in PROVIDERS.items()}


def is_ds(kind):
    return isinstance(kind, (tuple, list)) and kind[0] == "ds"


def V(x):
    return ("v", x)


def closure_rules(name, arity, provider):
    """the explicit rules a provider-tagged relation stands for (per key for the ternary forms)"""
    k = [V("ck")] if arity == 3 else []
    cl = lambda a, b: ("clause", name, k + [V(a), V(b)], [])       # noqa: E731
    hd = lambda a, b: (name, k + [V(a), V(b)])                     # noqa: E731
    kinds = PROVIDERS[provider][3]
    out = []
    first = []
    if "refl" in kinds:
        first += [hd("cx", "cx"), hd("cy", "cy")]
    if "sym" in kinds:
        first.append(hd("cy", "cx"))
    if first:
        out.append(dict(heads=first, body=[cl("cx", "cy")]))
    out.append(dict(heads=[hd("cx", "cz")], body=[cl("cx", "cy"), cl("cy", "cz")]))
    return out


def spec_program(p):
    """the program whose documented meaning p has: tags dropped, closure rules appended (identity without tags)"""
    if not any(is_ds(k) for _, _, k in p["rels"]):
        return p
    rules = list(p["rules"])
    for name, arity, kind in p["rels"]:
        if is_ds(kind):
            rules += closure_rules(name, arity, PATH_TO_PROVIDER[kind[1]])
    out = dict(p)
    out["rels"] = [(n, a, "rel" if is_ds(k) else k) for n, a, k in p["rels"]]
    out["rules"] = rules
    return out


def observed_rels(p):
    """a tagged relation's own field is a FakeVec (always empty): it is observed through the rules reading it"""
    return [r for r in p["rels"] if not is_ds(r[2])]


def norm_rels(rels):
    """JSON round trip: kinds ('ds', path) come back as lists"""
    return [(n, a, tuple(k) if isinstance(k, list) else k) for n, a, k in rels]


# ------------------------------------------------------------------ negations / aggregates of a program

def walk_items(items):
    for it in items:
        yield it
        if it[0] == "disj":
            for alt in it[1]:
                for x in walk_items(alt):
                    yield x


def negations(p):
    return [it for r in p["rules"] for it in walk_items(r["body"]) if it[0] == "neg"]


def read_through_agg(p):
    """relations read by a negation or an aggregate"""
    out = []
    for r in p["rules"]:
        for it in walk_items(r["body"]):
            if it[0] == "neg" and it[1] not in out:
                out.append(it[1])
            elif it[0] == "agg" and it[4] not in out:
                out.append(it[4])
    return out


def mask_kind(args):
    n, w = len(args), sum(1 for a in args if a[0] == "w")
    if n == 0:
        return "no_columns"
    if w == n:
        return "all_wild"
    if w == 0:
        return "no_wild"
    return "some_wild"


def neg_features(p, macro):
    """occurrence counts: negation x (wildcard mask kind) x (kind of the negated relation) x macro"""
    kind = {n: (PATH_TO_PROVIDER[k[1]] if is_ds(k) else "plain") for n, _, k in p["rels"]}
    derived = {h[0] for r in p["rules"] for h in r["heads"]}
    f = Counter()
    for r in p["rules"]:
        for pos, it in enumerate(r["body"]):
            if it[0] == "neg" and pos == 0:
                f["neg_first_item"] += 1
                if len(r["body"]) == 1:
                    f["neg_whole_body"] += 1
        for it in walk_items(r["body"]):
            if it[0] != "neg":
                continue
            mk = mask_kind(it[2])
            rk = kind[it[1]] if kind[it[1]] != "plain" else ("derived" if it[1] in derived else "input")
            f["neg:%s" % mk] += 1
            f["neg:%s:%s:%s" % (mk, rk, macro)] += 1
            if len(it[2]) >= 2:
                f["neg_mask:%d:%s" % (len(it[2]), "".join("_" if a[0] == "w" else "k" for a in it[2]))] += 1
    return f


# ------------------------------------------------------------------ generator

class NegGen(G.SGen):
    """SGen whose negations are designed: the wildcard mask cycles through every subset of the positions"""

    def __init__(self, rng, upto, lower, opts=None, tick=0):
        G.SGen.__init__(self, rng, upto, lower, opts)
        self.tick = tick

    def designed_neg(self, scope, rel=None):
        rng = self.rng
        name, arity, _ = rel or rng.choice(self.lower)
        self.tick += 1
        if arity == 0:
            return ("neg", name, [])
        u = rng.random()
        if u < 0.4 or not scope and u < 0.8:
            mask = (1 << arity) - 1                        # ALL wildcards: the emptiness test
        else:
            mask = self.tick % (1 << arity)                # every subset in turn
        args = []
        for k in range(arity):
            if (mask >> k) & 1:
                args.append(("w",))
            elif scope:
                v = rng.random()
                args.append(("v", rng.choice(scope)) if v < 0.7 else ("c", rng.choice(DOM)) if v < 0.85 else self.expr(scope))
            else:
                args.append(("c", rng.choice(DOM)))
        return ("neg", name, args)

    def simple(self, scope):
        rng = self.rng
        u = rng.random()
        if self.lower and u < 0.45:
            return self.designed_neg(scope), []
        if self.lower and u < 0.6:
            wide = [r for r in self.lower if r[1] >= 1]
            if wide:
                self.bound = list(scope)
                for _ in range(6):
                    it = gen_dl.gen_agg_item(rng, self, wide)
                    if it[0] == "agg" and it[2] != "count":
                        return it, [it[1]]
        save, self.lower = self.lower, []                  # the remaining simple items of the general generator
        try:
            return G.SGen.simple(self, scope)
        finally:
            self.lower = save


def gen_rule_neg(rng, upto, lower, here, tick, opts=None):
    """a rule of the general generator with one designed negation at a chosen body position (0 = first item)"""
    opts = dict(opts or {})
    g = NegGen(rng, upto, lower, opts, tick)
    for _attempt in range(20):
        g.nv = 0
        scope, body = [], []
        nbody = rng.choice([0, 1, 1, 2, 2, 2, 3])
        u = rng.random()
        npos = 0 if u < 0.25 else nbody if u < 0.6 else rng.randrange(nbody + 1)
        for k in range(nbody + 1):
            if k == npos:
                body.append(g.designed_neg(scope))
            if k < nbody:
                it, new = g.item(scope, 0)
                body.append(it)
                scope += new
        if G.count_expansions(body) <= opts.get("max_expansions", 8):
            break
    heads = []
    for _ in range(rng.choice([1, 1, 1, 1, 2])):
        name, arity, _ = rng.choice(here)
        args = []
        for _ in range(arity):
            u = rng.random()
            if scope and u < 0.75:
                args.append(("v", rng.choice(scope)))
            elif scope and u < 0.86:
                args.append(g.expr(scope))
            else:
                args.append(("c", rng.choice(DOM)))
        heads.append((name, args))
    return dict(heads=heads, body=body), g.tick


def gen_neg_program(rng, k, par):
    """-> program dict(rels, rules, level, settable=[input relation names])"""
    rels, level, rules, settable = [], {}, [], []

    def add(arity, kind, L):
        r = ("r%d" % len(rels), arity, kind)
        rels.append(r)
        level[r[0]] = L
        return r
    # ---- level 0: input relations, one of them often column-less, often one or two provider-tagged ones
    for _ in range(rng.choice([1, 2, 2, 3])):
        settable.append(add(rng.choice([1, 2, 2, 2, 3]), "rel", 0)[0])
    if rng.random() < 0.45:
        settable.append(add(0, "rel", 0)[0])
    provs = [n for n, v in PROVIDERS.items() if (v[2] if par else v[1])]
    nds = rng.choice([1, 1, 1, 2]) if not par else rng.choice([0, 1, 1])     # (ascent_par! without a tag: CRelNoIndex behind `[]`)
    for j in range(nds):
        pv = provs[(k // 2 + j) % len(provs)]
        ar = rng.choice(PROVIDERS[pv][2] if par else PROVIDERS[pv][1])
        feeder = add(ar, "rel", 0)
        settable.append(feeder[0])
        d = add(ar, ("ds", PROVIDERS[pv][0]), 0)
        vs = ["x%d" % (i + 1) for i in range(ar)]
        rules.append(dict(heads=[(d[0], [V(x) for x in vs])], body=[("clause", feeder[0], [V(x) for x in vs], [])]))
    # ---- derived levels
    nlev = rng.choice([1, 1, 2])
    tick = k
    for L in range(1, nlev + 1):
        for _ in range(rng.choice([1, 2, 2])):
            add(rng.choice([0, 1, 1, 2, 2, 3]), "rel", L)
        here = [r for r in rels if level[r[0]] == L]
        upto = [r for r in rels if level[r[0]] <= L]
        lower = [r for r in rels if level[r[0]] < L]
        # negate the tagged and the column-less relations more often than their share
        lower_w = lower + [r for r in lower if is_ds(r[2]) or r[1] == 0] * 2
        for _ in range(rng.choice([2, 2, 3])):
            r, tick = gen_rule_neg(rng, upto, lower_w, here, tick)
            rules.append(r)
    feed = rules[:len([r for r in rels if is_ds(r[2])])]
    rest = rules[len(feed):]
    rng.shuffle(rest)
    pos = rng.randrange(len(rest) + 1)
    return dict(rels=rels, rules=rest[:pos] + feed + rest[pos:], level=level, settable=settable)


def support(p):
    """relation -> the input relation its contents come from (itself; the feeder of a tagged relation; None if derived)"""
    out = {}
    sett = set(p.get("settable", []))
    for name, _, kind in p["rels"]:
        if name in sett:
            out[name] = name
    for r in p["rules"]:
        if len(r["heads"]) == 1 and len(r["body"]) == 1 and r["body"][0][0] == "clause" and r["body"][0][1] in sett:
            h = r["heads"][0][0]
            if is_ds(dict((n, k) for n, _, k in p["rels"])[h]):
                out[h] = r["body"][0][1]
    return out


def rand_rows(rng, arity, n, style):
    if arity == 0:
        return [()] if n else []
    if arity == 2 and style == "chain":
        s = rng.choice([0, 1])
        return [(i, i + 1) for i in range(s, s + n)]
    if arity >= 2 and style == "classes":
        # few elements, many pairs: classes of an equivalence / cycles of a transitive relation
        els = rng.sample(DOM, 3)
        ts = [tuple([rng.choice([0, 1])] * (arity - 2) + [rng.choice(els), rng.choice(els)]) for _ in range(n)]
        return list(dict.fromkeys(ts))
    ts = [tuple(rng.choice(DOM) for _ in range(arity)) for _ in range(n)]
    return list(dict.fromkeys(ts))


def neg_inputs(rng, p):
    """inputs over the settable relations: all non-empty; per negated relation its support emptied; all of them emptied"""
    sup = support(p)
    sett = [(n, a) for n, a, _ in p["rels"] if n in set(p["settable"])]
    targets = [sup[r] for r in read_through_agg(p) if sup.get(r)]
    targets = list(dict.fromkeys(targets))

    def full():
        return {n: rand_rows(rng, a, rng.choice([1, 2, 3, 5, 8]), rng.choice(["rand", "rand", "chain", "classes"])) for n, a in sett}
    out = [full()]
    rng.shuffle(targets)
    for t in targets[:2]:
        inp = full()
        inp[t] = []
        out.append(inp)
    if len(targets) != 1:
        inp = full()
        for t in targets:
            inp[t] = []
        out.append(inp)
    # the unsettable relations are present as empty lists (a script sets every relation it names)
    return out


# ------------------------------------------------------------------ probe: what the real indices answer for a key without rows
# (the two kinds of answer of Syntax/NegIndexModel.v index_get: None from a hash index, Some(empty) from a key-less index)

PROBE_PACKAGINGS = [
    # (id, macro, kind of relation `a`, model kind of the index on NO column)
    ("default_ser", "ascent", "rel", "IxHash"),          # HashMap<(), Vec<usize>>: the bucket is created by the first insert
    ("default_par", "ascent_par", "rel", "IxKeyless"),   # CRelNoIndex
    ("eqrel_ser", "ascent", ("ds", PROVIDERS["eqrel"][0]), "IxKeyless"),
    ("eqrel_par", "ascent_par", ("ds", PROVIDERS["eqrel"][0]), "IxKeyless"),
    ("trrel_ser", "ascent", ("ds", PROVIDERS["trrel"][0]), "IxKeyless"),
    ("trrel_uf_ser", "ascent", ("ds", PROVIDERS["trrel_uf"][0]), "IxKeyless"),
]
PROBE_ROWS = [[], [(1, 2)], [(7, 7), (3, 4)]]
PROBE_KEY = 7

PROBE_RAW = """{ use ascent::internal::{RelIndexRead, ToRelIndex};
        let k0 = p.a_indices_none.to_rel_index(&p.__a_ind_common).index_get(&()).is_some();
        let k1 = p.a_indices_0.to_rel_index(&p.__a_ind_common).index_get(&(%d,)).is_some();
        snaps.push(format!("{{\\"keyless\\":[[\\"{}\\"]],\\"keyed\\":[[\\"{}\\"]]}}", k0 as i32, k1 as i32)); }""" % PROBE_KEY


def probes():
    """-> list of dict(id, job, exprs, what): after run(), `index_get(..).is_some()` of the `[]` index and of the `[0]` index of a
    relation, against Syntax/NegIndexModel.v index_get on the rows the specification gives the relation"""
    out = []
    for pid, macro, kind, mk in PROBE_PACKAGINGS:
        rels = [("f", 2, "rel"), ("a", 2, kind), ("o", 1, "rel")]
        p = dict(rels=rels, rules=[
            dict(heads=[("a", [V("x"), V("y")])], body=[("clause", "f", [V("x"), V("y")], [])]),
            dict(heads=[("o", [("c", 1)])], body=[("neg", "a", [("w",), ("w",)])]),
            dict(heads=[("o", [("c", 2)])], body=[("clause", "f", [V("x"), ("w",)], []), ("neg", "a", [V("x"), ("w",)])])])
        scripts = [[("set", dict(f=rows)), ("run",), ("raw", PROBE_RAW)] for rows in PROBE_ROWS]
        job = dict(id="c07_probe_" + pid, text=G.program_text(p), macro=macro, rels=rels, scripts=scripts)
        exprs = []
        for rows in PROBE_ROWS:
            spec_rows = O.evaluate(spec_program(p), dict(f=rows))["a"]
            rl = "[" + "; ".join("[" + "; ".join("%d" % v for v in t) + "]" for t in spec_rows) + "]"
            exprs.append("(match index_get %s [] %s with Some _ => 1 | None => 0 end, match index_get IxHash [(0%%nat, %d)] %s with Some _ => 1 | None => 0 end)"
                         % (mk, rl, PROBE_KEY, rl))
        out.append(dict(id=job["id"], job=job, exprs=exprs, packaging=pid, macro=macro, model_kind=mk, program=job["text"]))
    return out
