"""C04, family `param`: agg clauses whose AGGREGATOR EXPRESSION mentions variables of the rule bound by earlier body items
(parameterised aggregators: `agg v = (percentile(p.clone() as f64))(x) in rd(k, x)` with p bound by a clause / generator / let /
an earlier aggregate; user-defined parameterised aggregators written in the generated crate).

The value of such a clause for one binding of the items before it is, by the stratified model, the aggregator OF THAT BINDING
applied to the distinct rows of the (completed) aggregated relation that agree with the key OF THAT BINDING; the rule continues
once per value returned.  Two bindings that share the key but differ in the parameter are two different aggregations.

Programs (own small AST, rendered to ascent text here; compiled by rustc against the working tree through gen/prog.py; serial
`ascent!` and `ascent_par!`):
  level 0  input relations raw(k, x), raw3(k, x, z), u(x), want(k, p), par(p), keys(k), lim(v), step(x, y)
  level 1  the aggregated relation: an input relation itself, a copy / join of it written by a rule of an earlier stratum, or a
           relation closed under `step` by a RECURSIVE stratum; the parameter relation: `want` itself, a copy, a shifted copy
           (`let`), a union of two rules
  level 2  2-4 rules per program, each: a PREFIX binding key and parameter(s) (one clause binding both; a cross product of two
           clauses; clause + generator; generator only; clause + let; a simple join of two clauses, both orders; parameter clause
           only; two parameters from two clauses; a parameter that is the RESULT of an earlier aggregate of the same rule), then
           the agg clause: aggregator x relation template (binary key-first / key-second, ternary with a wildcard column =>
           repeated values in the aggregated column, ternary with a constant column, unary without key, wildcard key = whole
           relation) x key form (variable, constant, expression over a variable, none) x parameter term (variable, variable +
           constant, constant = control, the key variable itself = control), then optionally a clause joining on the result, a
           condition on it, or a SECOND parameterised aggregate whose parameter is the first one's result;
           plus a recursive shape: the rule with the parameterised aggregate sits in a looping stratum and its result feeds the
           parameter of the next iteration
  level 3  consumers of the result relations: count per key, negation, another parameterised aggregate over the result relation
Aggregators: library percentile(p); user-defined nth(n) (0 / 1 values), cnt_above(t) (always one value), at_least(t), top(n),
between(lo, hi) (multi-valued: the rule fires once per value), scaled_cnt(m) (no aggregated column), sum_where(z0) (two aggregated
columns); library sum / min / max (no parameter) in the same positions as controls.
Oracle: python stratified evaluation (levels; naive fixed point per level; an aggregate ranges over the distinct matching tuples of
the whole relation of a lower level); independent of the Coq model and of the code.
"""
import json
import os

from . import lib, prog

PRE = """use ascent::aggregators::*;
fn nth<'a, I: Iterator<Item = (&'a i32,)>>(n: i32) -> impl Fn(I) -> std::option::IntoIter<i32> {
   move |inp| { let mut v: Vec<i32> = inp.map(|t| *t.0).collect(); v.sort();
                (if n >= 0 && (n as usize) < v.len() { Some(v[n as usize]) } else { None }).into_iter() }
}
fn cnt_above<'a, I: Iterator<Item = (&'a i32,)>>(t: i32) -> impl Fn(I) -> std::iter::Once<i32> {
   move |inp| std::iter::once(inp.filter(|r| *r.0 > t).count() as i32)
}
fn at_least<'a, I: Iterator<Item = (&'a i32,)>>(t: i32) -> impl Fn(I) -> Vec<i32> {
   move |inp| { let mut v: Vec<i32> = inp.map(|r| *r.0).filter(|x| *x >= t).collect(); v.sort(); v }
}
fn top<'a, I: Iterator<Item = (&'a i32,)>>(n: i32) -> impl Fn(I) -> std::vec::IntoIter<i32> {
   move |inp| { let mut v: Vec<i32> = inp.map(|r| *r.0).collect(); v.sort(); v.reverse(); v.truncate(if n > 0 { n as usize } else { 0 }); v.into_iter() }
}
fn between<'a, I: Iterator<Item = (&'a i32,)>>(lo: i32, hi: i32) -> impl Fn(I) -> std::vec::IntoIter<i32> {
   move |inp| { let mut v: Vec<i32> = inp.map(|r| *r.0).filter(|x| lo <= *x && *x <= hi).collect(); v.sort(); v.into_iter() }
}
fn scaled_cnt<I: Iterator<Item = ()>>(m: i32) -> impl Fn(I) -> std::iter::Once<i32> {
   move |inp| std::iter::once(m * (inp.count() as i32))
}
fn sum_where<'a, I: Iterator<Item = (&'a i32, &'a i32)>>(z0: i32) -> impl Fn(I) -> std::iter::Once<i32> {
   move |inp| std::iter::once(inp.filter(|r| *r.1 == z0).map(|r| *r.0).sum::<i32>())
}
"""

# name -> (number of parameters, number of aggregated columns, result in a finite set given the column values)
AGGS = {
    "pct": (1, 1), "nth": (1, 1), "cnt_above": (1, 1), "at_least": (1, 1), "top": (1, 1), "between": (2, 1),
    "scaled_cnt": (1, 0), "sum_where": (1, 2),
    "sum": (0, 1), "min": (0, 1), "max": (0, 1), "count": (0, 0),
}
PARAM_AGGS = [a for a, (np_, _) in AGGS.items() if np_ > 0]
MULTI = ("at_least", "top", "between")
PARAM_POOL = [0, 1, 2, 3, 4, 6, 10, 25, 50, 75, 100, -1]
IN_RELS = [("raw", 2), ("raw3", 3), ("u", 1), ("want", 2), ("par", 1), ("keys", 1), ("lim", 1), ("step", 2)]
INPUT_NAMES = {n for n, _ in IN_RELS}


# ------------------------------------------------------------------ the aggregators' definitions (python)

def agg_apply(name, params, rows):
    """rows: list of tuples of the aggregated columns (one per distinct matching tuple of the relation)"""
    xs = [r[0] for r in rows] if rows and len(rows[0]) >= 1 else []
    if name == "pct":
        if not xs:
            return []
        p = params[0]
        k = (len(xs) * p) // 100 if p >= 0 else 0       # ((len as f64 * p / 100.0) as usize): exact for these magnitudes; negative saturates to 0
        return [sorted(xs)[min(k, len(xs) - 1)]]
    if name == "nth":
        n = params[0]
        return [sorted(xs)[n]] if 0 <= n < len(xs) else []
    if name == "cnt_above":
        return [sum(1 for x in xs if x > params[0])]
    if name == "at_least":
        return sorted(x for x in xs if x >= params[0])
    if name == "top":
        return sorted(xs, reverse=True)[:max(params[0], 0)]
    if name == "between":
        return sorted(x for x in xs if params[0] <= x <= params[1])
    if name == "scaled_cnt":
        return [params[0] * len(rows)]
    if name == "sum_where":
        return [sum(r[0] for r in rows if r[1] == params[0])]
    if name == "sum":
        return [sum(xs)]
    if name == "min":
        return [min(xs)] if xs else []
    if name == "max":
        return [max(xs)] if xs else []
    if name == "count":
        return [len(rows)]
    raise ValueError(name)


# ------------------------------------------------------------------ rendering

def r_owned(t):
    """a term as an owned i32 expression (inside let / if / aggregator expressions clause-bound variables are references)"""
    if t[0] == "v":
        return "%s.clone()" % t[1]
    if t[0] == "c":
        return "%di32" % t[1] if t[1] >= 0 else "(%di32)" % t[1]
    if t[0] == "e":
        return "(%s.clone() + %d)" % (t[1], t[2]) if t[2] >= 0 else "(%s.clone() - %d)" % (t[1], -t[2])
    raise ValueError(t)


def r_arg(t):
    """argument of a body clause / aggregated relation / head"""
    if t[0] == "v":
        return t[1]
    if t[0] == "b":
        return t[1]
    if t[0] == "c":
        return "%d" % t[1]
    if t[0] == "e":
        return "%s + %d" % (t[1], t[2]) if t[2] >= 0 else "%s - %d" % (t[1], -t[2])
    if t[0] == "as":
        return "(%s as i32)" % t[1]
    if t[0] == "_":
        return "_"
    raise ValueError(t)


def r_aggregator(name, params):
    if name == "pct":
        return "(percentile(%s as f64))" % r_owned(params[0])
    if AGGS[name][0] == 0:
        return name
    return "(%s(%s))" % (name, ", ".join(r_owned(p) for p in params))


def r_item(it):
    k = it[0]
    if k == "cl":
        return "%s(%s)" % (it[1], ", ".join(r_arg(a) for a in it[2]))
    if k == "neg":
        return "!%s(%s)" % (it[1], ", ".join(r_arg(a) for a in it[2]))
    if k == "for":
        return "for %s in [%s]" % (it[1], ", ".join(("%di32" % v) for v in it[2]))
    if k == "let":
        return "let %s = %s" % (it[1], r_owned(it[2]))
    if k == "if":
        return "if %s %s %s" % (r_owned(it[2]), it[1], r_owned(it[3]))
    if k == "agg":
        _, out, name, params, bound, rel, args = it
        return "agg %s = %s(%s) in %s(%s)" % (out, r_aggregator(name, params), ", ".join(bound), rel, ", ".join(r_arg(a) for a in args))
    raise ValueError(it)


def r_rule(rule):
    return "%s <-- %s;" % (", ".join("%s(%s)" % (h, ", ".join(r_arg(t) for t in ts)) for h, ts in rule["heads"]),
                          ", ".join(r_item(it) for it in rule["body"]))


def program_text(p):
    lines = ["relation %s(%s);" % (n, ", ".join(["i32"] * ar)) for n, ar in p["rels"]]
    return "\n".join(lines + [r_rule(r) for r in p["rules"]])


# ------------------------------------------------------------------ oracle: stratified evaluation

class NotStratified(Exception):
    pass


def levels(p):
    lev = {n: 0 for n, _ in p["rels"]}
    for _ in range(len(lev) + 2):
        changed = False
        for r in p["rules"]:
            need = 0
            for it in r["body"]:
                if it[0] == "cl":
                    need = max(need, lev[it[1]])
                elif it[0] == "neg":
                    need = max(need, lev[it[1]] + 1)
                elif it[0] == "agg":
                    need = max(need, lev[it[5]] + 1)
            for h, _ in r["heads"]:
                if lev[h] < need:
                    lev[h] = need
                    changed = True
            top_ = max(lev[h] for h, _ in r["heads"])
            for h, _ in r["heads"]:
                if lev[h] < top_:
                    lev[h] = top_
                    changed = True
        if not changed:
            return lev
    raise NotStratified()


def t_val(t, env):
    if t[0] in ("v", "as"):
        return env[t[1]]
    if t[0] == "c":
        return t[1]
    if t[0] == "e":
        return env[t[1]] + t[2]
    raise ValueError(t)


def match_clause(args, tup, env):
    e2 = env
    for a, v in zip(args, tup):
        if a[0] == "_":
            continue
        if a[0] == "v" and a[1] not in e2:
            if e2 is env:
                e2 = dict(env)
            e2[a[1]] = v
        elif t_val(a, e2) != v:
            return None
    return e2 if e2 is not env else dict(env)


def agg_group(args, bound, rows, env):
    """the aggregated columns of the distinct rows that agree with the key (rows is a set: each tuple once)"""
    pat = [None if a[0] in ("_", "b") else t_val(a, env) for a in args]
    cols = [[i for i, a in enumerate(args) if a[0] == "b" and a[1] == b][0] for b in bound]
    m = [t for t in rows if all(q is None or q == v for q, v in zip(pat, t))]
    return tuple(q for q in pat if q is not None), [tuple(t[c] for c in cols) for t in sorted(m)]


def eval_rule(rule, db, obs=None, ri=0):
    envs = [{}]
    for ii, it in enumerate(rule["body"]):
        k = it[0]
        nxt = []
        if k == "cl":
            rows = db[it[1]]
            for env in envs:
                for t in rows:
                    e2 = match_clause(it[2], t, env)
                    if e2 is not None:
                        nxt.append(e2)
        elif k == "neg":
            rows = db[it[1]]
            for env in envs:
                if not any(match_clause(it[2], t, env) is not None for t in rows):
                    nxt.append(env)
        elif k == "for":
            for env in envs:
                for v in it[2]:
                    e2 = dict(env)
                    e2[it[1]] = v
                    nxt.append(e2)
        elif k == "let":
            for env in envs:
                e2 = dict(env)
                e2[it[1]] = t_val(it[2], env)
                nxt.append(e2)
        elif k == "if":
            op = it[1]
            for env in envs:
                a, b = t_val(it[2], env), t_val(it[3], env)
                if (op == "<" and a < b) or (op == "<=" and a <= b) or (op == "!=" and a != b):
                    nxt.append(env)
        elif k == "agg":
            _, out, name, params, bound, rel, args = it
            rows = db[rel]
            for env in envs:
                key, grp = agg_group(args, bound, rows, env)
                pv = [t_val(t, env) for t in params]
                vals = agg_apply(name, pv, grp)
                if obs is not None:
                    obs.setdefault((ri, ii), {}).setdefault(key, {})[tuple(pv)] = tuple(vals)
                for v in vals:
                    e2 = dict(env)
                    e2[out] = v
                    nxt.append(e2)
        else:
            raise ValueError(it)
        envs = nxt
    out = []
    for env in envs:
        for h, ts in rule["heads"]:
            out.append((h, tuple(t_val(t, env) for t in ts)))
    return out


def oracle(p, inp, obs=None):
    """{rel: sorted tuples} of the stratified model, or None when a value leaves the small range the tie uses (i32 far away)"""
    lev = levels(p)
    db = {n: set(map(tuple, inp.get(n, []))) for n, _ in p["rels"]}
    for L in range(max(lev.values()) + 1):
        rules = [(i, r) for i, r in enumerate(p["rules"]) if lev[r["heads"][0][0]] == L]
        for _round in range(200):
            new = []
            for i, r in rules:
                for h, t in eval_rule(r, db, obs, i):
                    if t not in db[h]:
                        new.append((h, t))
            if not new:
                break
            for h, t in new:
                if any(abs(v) > 100000 for v in t):
                    return None
                db[h].add(t)
            if sum(len(v) for v in db.values()) > 6000:
                return None
        else:
            return None
    return {n: sorted(db[n]) for n, _ in p["rels"]}


def discriminating(obs):
    """number of agg clauses that were evaluated for two bindings sharing the key, differing in the parameter, with different results"""
    n = 0
    for _, bykey in obs.items():
        if any(len(set(byp.values())) > 1 for byp in bykey.values() if len(byp) > 1):
            n += 1
    return n


# ------------------------------------------------------------------ generation

def _fresh(used, base):
    i = 0
    while "%s%d" % (base, i) in used:
        i += 1
    used.add("%s%d" % (base, i))
    return "%s%d" % (base, i)


def gen_prefix(rng, W):
    """(items, key variable or None, parameter variables) — items before the agg clause"""
    lits = sorted(rng.sample(PARAM_POOL, rng.choice([2, 3, 4])))
    kind = rng.choice(["both", "both", "cross", "cl_for", "for", "cl_let", "join", "join_rev", "par", "two", "from_agg", "cond"])
    if kind == "both":
        return kind, [["cl", W, [["v", "k"], ["v", "p"]]]], "k", ["p"]
    if kind == "cross":
        return kind, [["cl", "keys", [["v", "k"]]], ["cl", "par", [["v", "p"]]]], "k", ["p"]
    if kind == "cl_for":
        return kind, [["cl", "keys", [["v", "k"]]], ["for", "p", lits]], "k", ["p"]
    if kind == "for":
        return kind, [["for", "p", lits]], None, ["p"]
    if kind == "cl_let":
        return kind, [["cl", W, [["v", "k"], ["v", "q"]]], ["let", "p", ["e", "q", rng.choice([1, -1, 2])]]], "k", ["p", "q"]
    if kind == "join":
        return kind, [["cl", "keys", [["v", "k"]]], ["cl", W, [["v", "k"], ["v", "p"]]]], "k", ["p"]
    if kind == "join_rev":
        return kind, [["cl", W, [["v", "k"], ["v", "p"]]], ["cl", "keys", [["v", "k"]]]], "k", ["p"]
    if kind == "par":
        return kind, [["cl", "par", [["v", "p"]]]], None, ["p"]
    if kind == "two":
        return kind, [["cl", W, [["v", "k"], ["v", "p"]]], ["cl", "par", [["v", "q"]]]], "k", ["p", "q"]
    if kind == "cond":
        return kind, [["cl", W, [["v", "k"], ["v", "p"]]], ["if", rng.choice(["<", "!=", "<="]), ["v", "p"], ["c", rng.choice([3, 10, 50])]]], "k", ["p"]
    # from_agg: the parameter is the result of an earlier (plain) aggregate of the same rule
    return kind, [["cl", "keys", [["v", "k"]]], ["agg", "m", rng.choice(["max", "min", "sum"]), [], ["x0"], "A2", [["v", "k"], ["b", "x0"]]]], "k", ["m"]


def key_arg(rng, kv):
    if kv is None:
        return rng.choice([["c", rng.choice([0, 1, 2])], ["_"]])
    r = rng.random()
    if r < 0.7:
        return ["v", kv]
    if r < 0.8:
        return ["e", kv, rng.choice([1, -1])]
    if r < 0.9:
        return ["c", rng.choice([0, 1, 2])]
    return ["_"]


def gen_agg(rng, name, kv, pvars, rels, out, bsuffix=""):
    """the agg clause: relation template x key form x parameter terms"""
    np_, nc = AGGS[name]
    A1, A2, A3 = rels
    K = key_arg(rng, kv)
    x, z = "x" + bsuffix, "z" + bsuffix
    if nc == 1:
        tmpl = rng.choice([(A2, [K, ["b", x]]), (A2, [K, ["b", x]]), (A2, [["b", x], K]), (A3, [K, ["b", x], ["_"]]), (A3, [["_"], ["b", x], K]),
                           (A3, [K, ["b", x], ["c", rng.choice([0, 1])]]), (A1, [["b", x]]), (A2, [["_"], ["b", x]])])
        bound = [x]
    elif nc == 0:
        tmpl = rng.choice([(A2, [K, ["_"]]), (A3, [K, ["_"], ["_"]]), (A1, [["_"]]), (A2, [K, ["c", rng.choice([1, 2, 5])]])])
        bound = []
    else:
        tmpl = rng.choice([(A3, [K, ["b", x], ["b", z]]), (A3, [["_"], ["b", x], ["b", z]]), (A3, [K, ["b", x], ["b", z]])])
        bound = [x, z]
    params = []
    for j in range(np_):
        pv = pvars[j % len(pvars)]
        r = rng.random()
        if j > 0 and len(pvars) == 1:
            params.append(["e", pv, rng.choice([2, 3, 50])])        # between(p, p + c)
        elif r < 0.72:
            params.append(["v", pv])
        elif r < 0.87:
            params.append(["e", pv, rng.choice([1, -1, 2])])
        elif r < 0.94 or kv is None:
            params.append(["c", rng.choice(PARAM_POOL)])           # control: a constant parameter
        else:
            params.append(["v", kv])                                # control: the parameter is the key
    return ["agg", out, name, params, bound, tmpl[0], tmpl[1]]


def fix_A(items, rels):
    A1, A2, A3 = rels
    for it in items:
        if it[0] == "agg" and it[5] == "A2":
            it[5] = A2
    return items


def gen_param_rule(rng, head, W, rels, force_agg=None):
    pk, items, kv, pvars = gen_prefix(rng, W)
    items = fix_A(items, rels)
    name = force_agg or rng.choice(PARAM_AGGS + ["pct", "nth", "at_least", "top"])
    agg = gen_agg(rng, name, kv, pvars, rels, "v")
    body = items + [agg]
    hvars = ([kv] if kv else []) + pvars
    res = [["v", "v"]]
    tail = rng.choice(["none", "none", "none", "clause", "cond", "second", "second"])
    if tail == "clause":
        body.append(["cl", "lim", [["v", "v"]]])
    elif tail == "cond":
        body.append(["if", "!=", ["v", "v"], ["v", pvars[0]]])
    elif tail == "second":
        # a second parameterised aggregate whose parameter is the first one's result (and, half of the time, the rule's parameter too)
        name2 = rng.choice(["cnt_above", "at_least", "nth", "between", "top", "pct"])
        agg2 = gen_agg(rng, name2, kv, ["v"] + (pvars if rng.random() < 0.5 else []), rels, "w", bsuffix="2")
        body.append(agg2)
        res.append(["v", "w"])
    heads = [[head, [["v", h] for h in hvars] + res]]
    return dict(heads=heads, body=body), dict(prefix=pk, agg=name, tail=tail, key=("none" if kv is None else "var"))


def gen_program(rng, ident):
    rels = list(IN_RELS)
    rules, shapes = [], []
    # level 1: where the aggregated relations come from
    src2 = rng.choice(["input", "copy", "copy", "join", "closure"])
    A2 = "raw"
    if src2 != "input":
        A2 = "rd"
        rels.append(("rd", 2))
        if src2 == "join":
            rules.append(dict(heads=[["rd", [["v", "k"], ["v", "x"]]]], body=[["cl", "raw", [["v", "k"], ["v", "x"]]], ["cl", "keys", [["v", "k"]]]]))
        else:
            rules.append(dict(heads=[["rd", [["v", "k"], ["v", "x"]]]], body=[["cl", "raw", [["v", "k"], ["v", "x"]]]]))
        if src2 == "closure":
            rules.append(dict(heads=[["rd", [["v", "k"], ["v", "y"]]]], body=[["cl", "rd", [["v", "k"], ["v", "x"]]], ["cl", "step", [["v", "x"], ["v", "y"]]]]))
    A3 = "raw3"
    if rng.random() < 0.5:
        A3 = "rd3"
        rels.append(("rd3", 3))
        rules.append(dict(heads=[["rd3", [["v", "k"], ["v", "x"], ["v", "z"]]]], body=[["cl", "raw3", [["v", "k"], ["v", "x"], ["v", "z"]]]]))
    A1 = "u"
    if rng.random() < 0.4:
        A1 = "ru"
        rels.append(("ru", 1))
        rules.append(dict(heads=[["ru", [["v", "x"]]]], body=[["cl", "u", [["v", "x"]]]]))
    srcw = rng.choice(["input", "input", "copy", "shift", "union"])
    W = "want"
    if srcw != "input":
        W = "wd"
        rels.append(("wd", 2))
        if srcw == "shift":
            rules.append(dict(heads=[["wd", [["v", "k"], ["v", "q"]]]], body=[["cl", "want", [["v", "k"], ["v", "p"]]], ["let", "q", ["e", "p", 1]]]))
        else:
            rules.append(dict(heads=[["wd", [["v", "k"], ["v", "p"]]]], body=[["cl", "want", [["v", "k"], ["v", "p"]]]]))
        if srcw == "union":
            rules.append(dict(heads=[["wd", [["v", "k"], ["v", "p"]]]], body=[["cl", "keys", [["v", "k"]]], ["cl", "par", [["v", "p"]]]]))
    arels = (A1, A2, A3)
    # level 2: the rules with parameterised aggregates
    outs = []
    n2 = rng.choice([2, 3, 3, 4])
    for j in range(n2):
        h = "o%d" % j
        force = PARAM_AGGS[(ident + j) % len(PARAM_AGGS)] if j == 0 else None
        r, sh = gen_param_rule(rng, h, W, arels, force)
        rels.append((h, len(r["heads"][0][1])))
        rules.append(r)
        shapes.append(sh)
        outs.append((h, len(r["heads"][0][1]), sh["key"] == "var"))
    # the recursive shape: the result of the parameterised aggregate is the parameter of the next iteration
    if rng.random() < 0.45:
        name = rng.choice(["nth", "pct", "at_least", "top", "cnt_above", "between"])
        rels.append(("acc", 2))
        rules.append(dict(heads=[["acc", [["v", "k"], ["v", "p"]]]], body=[["cl", W, [["v", "k"], ["v", "p"]]]]))
        np_ = AGGS[name][0]
        params = [["v", "p"]] + ([["e", "p", rng.choice([2, 4])]] if np_ == 2 else [])
        rules.append(dict(heads=[["acc", [["v", "k"], ["v", "v"]]]],
                          body=[["cl", "acc", [["v", "k"], ["v", "p"]]], ["agg", "v", name, params, ["x"], A2, [["v", "k"], ["b", "x"]]]]))
        shapes.append(dict(prefix="recursive", agg=name, tail="none", key="var"))
        outs.append(("acc", 2, True))
    # level 3: consumers of the results
    for j, (h, ar, keyed) in enumerate(outs):
        r = rng.random()
        if r < 0.3 and keyed and ar >= 2:
            c = "c%d" % j
            rels.append((c, 2))
            rules.append(dict(heads=[[c, [["v", "k"], ["as", "n"]]]],
                              body=[["cl", "keys", [["v", "k"]]], ["agg", "n", "count", [], [], h, [["v", "k"]] + [["_"]] * (ar - 1)]]))
        elif r < 0.5:
            c = "m%d" % j
            rels.append((c, 1))
            rules.append(dict(heads=[[c, [["v", "v"]]]], body=[["cl", "lim", [["v", "v"]]], ["neg", h, [["_"]] * (ar - 1) + [["v", "v"]]]]))
        elif r < 0.7:
            c = "t%d" % j
            rels.append((c, 2))
            name = rng.choice(["nth", "pct", "cnt_above", "top"])
            rules.append(dict(heads=[[c, [["v", "p"], ["v", "v"]]]],
                              body=[["cl", "par", [["v", "p"]]], ["agg", "v", name, [["v", "p"]], ["y"], h, [["_"]] * (ar - 1) + [["b", "y"]]]]))
            shapes.append(dict(prefix="par", agg=name, tail="none", key="none", level=3))
    p = dict(id="c04pm_%d" % ident, rels=rels, rules=rules, shapes=shapes, sources=dict(A1=A1, A2=A2 + ":" + src2, A3=A3, W=W + ":" + srcw))
    levels(p)
    return p


def gen_input(rng, style):
    keys = [0, 1, 2, 3]
    pool = rng.choice([[-2, 0, 1, 3, 4, 7, 9], [1, 2, 3, 4, 5, 6, 7, 8], [0, 5], [2, 2, 3, 8, 10, 25, 50]])
    d = {}
    d["keys"] = [(k,) for k in keys if rng.random() < 0.8]
    nraw = rng.choice([4, 8, 14, 20])
    d["raw"] = sorted(set((rng.choice(keys + [1, 1]), rng.choice(pool)) for _ in range(nraw)))
    d["raw3"] = sorted(set((rng.choice(keys + [1]), rng.choice(pool), rng.choice([0, 1, 2])) for _ in range(rng.choice([5, 10, 18]))))
    d["u"] = sorted(set((rng.choice(pool),) for _ in range(rng.choice([2, 5, 8]))))
    d["par"] = sorted(set((rng.choice(PARAM_POOL),) for _ in range(rng.choice([2, 3, 5]))))
    d["lim"] = sorted(set((rng.choice(pool + [0, 1, 2, 3]),) for _ in range(6)))
    d["step"] = sorted(set((rng.choice(pool), rng.choice(pool)) for _ in range(rng.choice([0, 2, 4]))))
    if style == "spread":
        d["want"] = [(k, rng.choice(PARAM_POOL)) for k in keys]                    # control: one parameter per key
    elif style == "shared":
        ks = rng.sample(keys, 2)
        d["want"] = sorted(set((k, p) for k in ks for p in rng.sample(PARAM_POOL, rng.choice([3, 4, 6]))))
    else:
        d["want"] = sorted(set((rng.choice(keys), rng.choice(PARAM_POOL)) for _ in range(rng.choice([3, 6, 9]))))
    if style == "single_group":
        d["raw"] = sorted(set((1, x) for x in pool + [11, 12, 13]))
        d["raw3"] = sorted(set((1, x, z) for x in pool[:4] for z in (0, 1, 2) if rng.random() < 0.8))
        d["want"] = sorted(set(d["want"]) | {(1, p) for p in rng.sample(PARAM_POOL, 4)})
        d["keys"] = sorted(set(d["keys"]) | {(1,)})
    if style == "agg_empty":
        for r in rng.sample(["raw", "raw3", "u"], rng.choice([1, 2, 3])):
            d[r] = []
    if style == "foreign":
        d["raw"] = sorted(set((7, x) for _, x in d["raw"]))
        d["raw3"] = sorted(set((7, x, z) for _, x, z in d["raw3"]))
    if style == "no_params":
        d["want"], d["par"] = [], []
    return d


STYLES = ["shared", "shared", "single_group", "random", "spread", "agg_empty", "foreign", "no_params", "random", "shared"]


def gen_cases(tier, seed):
    rng = lib.rng_for(seed, "C04", "param")
    n = 28 if tier == "quick" else 240
    ninp = 6 if tier == "quick" else 10
    cases = []
    for i in range(n):
        p = gen_program(rng, i)
        inputs, expected, styles, nd = [], [], [], []
        for j in range(ninp + 4):
            if len(inputs) >= ninp:
                break
            st = STYLES[(3 * i + j) % len(STYLES)]
            inp = gen_input(rng, st)
            obs = {}
            e = oracle(p, inp, obs)
            if e is None:
                continue
            inputs.append(inp)
            expected.append(e)
            styles.append(st)
            nd.append(discriminating(obs))
        if inputs:
            cases.append(dict(p, inputs=inputs, expected=expected, styles=styles, discriminating=nd))
    return cases


# ------------------------------------------------------------------ corpus / replay helpers

def _lists(x):
    return json.loads(json.dumps(x))


def prog_from_json(o):
    return dict(id=o.get("id", "c04pm_json"), rels=[(r[0], r[1]) for r in o["rels"]], rules=_lists(o["rules"]), shapes=o.get("shapes", []), sources=o.get("sources", {}))


def input_from_json(inp):
    return {r: [tuple(t) for t in ts] for r, ts in inp.items()}


def corpus_cases(path):
    """entries of corpus/C04.jsonl with family == 'param': dict(name, note, family, prog, inputs)"""
    out = []
    if not os.path.exists(path):
        return out
    for k, line in enumerate(open(path)):
        line = line.strip()
        if not line or line.startswith("#"):
            continue
        o = json.loads(line)
        if o.get("family") != "param":
            continue
        p = prog_from_json(o["prog"])
        p["id"] = "c04pmcorpus_%d" % k
        inputs = [input_from_json(i) for i in o["inputs"]]
        obs = [dict() for _ in inputs]
        exp = [oracle(p, i, ob) for i, ob in zip(inputs, obs)]
        out.append(dict(p, inputs=inputs, expected=exp, styles=["corpus"] * len(inputs), discriminating=[discriminating(ob) for ob in obs], note=o.get("note")))
    return out


# ------------------------------------------------------------------ the Coq model column (Engine/AggParamModel.v p_strat_fix over Engine/AggParamVocab.v)

COQ_PRELUDE = ("From Coq Require Import List ZArith Bool.\nFrom AV Require Import Engine.Core.\nFrom AV Require Import Engine.AggParamModel.\n"
               "From AV Require Import Engine.AggParamVocab.\nImport ListNotations.\nOpen Scope Z_scope.\n")
AGG_SYM = {"pct": 0, "nth": 1, "cnt_above": 2, "at_least": 3, "top": 4, "between": 5, "scaled_cnt": 6, "sum_where": 7}
STD_AGG = {"count": 0, "sum": 1, "min": 2, "max": 3}
PINT = {"<": 0, "!=": 1, "<=": 3}


def _nat(n):
    return "%d%%nat" % n


def _nats(ns):
    return "[" + "; ".join(_nat(n) for n in ns) + "]"


class _RuleCtx:
    def __init__(self, relidx, lits):
        self.vars, self.n, self.relidx, self.lits = {}, 0, relidx, lits

    def var(self, name):
        if name not in self.vars:
            self.vars[name] = self.n
            self.n += 1
        return self.vars[name]

    def fresh(self):
        self.n += 1
        return self.n - 1

    def term(self, t):
        if t[0] in ("v", "as"):
            return "TVar %s" % _nat(self.var(t[1]))
        if t[0] == "c":
            return "TConst %s" % lib.zz(t[1])
        if t[0] == "e":
            return "TFun %s [%s]" % (_nat(500 + t[2]), _nat(self.var(t[1])))
        raise ValueError(t)

    def as_var(self, t, pre):
        """a variable holding the value of term t; non-variables are bound first (let tmp = ..)"""
        if t[0] == "v":
            return self.var(t[1])
        x = self.fresh()
        if t[0] == "c":
            pre.append("PB (BCond (CBind %s %s []))" % (_nat(x), _nat(2500 + t[1])))
        else:
            pre.append("PB (BCond (CBind %s %s [%s]))" % (_nat(x), _nat(500 + t[2]), _nat(self.var(t[1]))))
        return x

    def aargs(self, args):
        out = []
        for a in args:
            if a[0] == "_":
                out.append("AWild")
            elif a[0] == "b":
                out.append("ABound %s" % _nat(self.var(a[1])))
            else:
                out.append("AKey (%s)" % self.term(a))
        return "[" + "; ".join(out) + "]"

    def item(self, it):
        k, pre = it[0], []
        if k == "cl":
            args = ["TVar %s" % _nat(self.fresh()) if a[0] == "_" else self.term(a) for a in it[2]]
            return ["PB (BClause %s [%s] [])" % (_nat(self.relidx[it[1]]), "; ".join(args))]
        if k == "neg":
            return ["PB (BAgg None 4%%nat [] %s %s)" % (_nat(self.relidx[it[1]]), self.aargs(it[2]))]
        if k == "for":
            self.lits.append(it[2])
            return ["PB (BGen %s %s [])" % (_nat(self.var(it[1])), _nat(len(self.lits) - 1))]
        if k == "let":
            t = it[2]
            if t[0] == "c":
                return ["PB (BCond (CBind %s %s []))" % (_nat(self.var(it[1])), _nat(2500 + t[1]))]
            src = self.var(t[1])
            return ["PB (BCond (CBind %s %s [%s]))" % (_nat(self.var(it[1])), _nat(500 + (t[2] if t[0] == "e" else 0)), _nat(src))]
        if k == "if":
            a, b = self.as_var(it[2], pre), self.as_var(it[3], pre)
            return pre + ["PB (BCond (CIf %s %s))" % (_nat(PINT[it[1]]), _nats([a, b]))]
        if k == "agg":
            _, out, name, params, bound, rel, args = it
            if name in STD_AGG:
                aa = self.aargs(args)
                return ["PB (BAgg (Some %s) %s %s %s %s)" % (_nat(self.var(out)), _nat(STD_AGG[name]), _nats([self.var(b) for b in bound]), _nat(self.relidx[rel]), aa)]
            ps = [self.as_var(t, pre) for t in params]
            aa = self.aargs(args)
            return pre + ["PBAggP %s %s %s %s %s %s" % (_nat(self.var(out)), _nat(AGG_SYM[name]), _nats(ps), _nats([self.var(b) for b in bound]), _nat(self.relidx[rel]), aa)]
        raise ValueError(it)


def coq_expr(p, inp, fuel=40):
    """p_strat_fix (pv_interp <literal lists>) fuel <strata> <input facts>"""
    relidx = {n: i for i, (n, _) in enumerate(p["rels"])}
    lev = levels(p)
    lits, strata = [], []
    for L in range(max(lev.values()) + 1):
        rs = []
        for r in p["rules"]:
            if lev[r["heads"][0][0]] != L:
                continue
            cx = _RuleCtx(relidx, lits)
            body = [s_ for it in r["body"] for s_ in cx.item(it)]
            heads = ["(%s, [%s])" % (_nat(relidx[h]), "; ".join(cx.term(t) for t in ts)) for h, ts in r["heads"]]
            rs.append("{| pheads := [%s]; pbody := [%s] |}" % ("; ".join(heads), "; ".join(body)))
        if rs:
            strata.append("[" + "; ".join(rs) + "]")
    facts = ["(%s, %s)" % (_nat(relidx[n]), lib.zlist(t)) for n, _ in p["rels"] for t in sorted(set(map(tuple, inp.get(n, []))))]
    return "p_strat_fix (pv_interp [%s]) %s [%s] [%s]" % ("; ".join(lib.zlist(l) for l in lits), _nat(fuel), "; ".join(strata), "; ".join(facts))


def model_eval(cases_inputs, tag="c04pm"):
    """[(case, input index)] -> per pair {rel: sorted tuples} of the Coq model | None (no fixed point within the fuel)"""
    exprs = [coq_expr(c, c["inputs"][k]) for c, k in cases_inputs]
    vals = lib.coq_eval(tag, COQ_PRELUDE, exprs, per_shard=max(1, (len(exprs) + lib.NCPU - 1) // lib.NCPU))
    out = []
    for (c, k), v in zip(cases_inputs, vals):
        if not (isinstance(v, (tuple, list)) and len(v) == 2 and v[0] == "Some"):
            out.append(None)
            continue
        names = [n for n, _ in c["rels"]]
        d = {n: set() for n in names}
        for r, t in v[1]:
            d[names[r]].add(tuple(t))
        out.append({n: sorted(ts) for n, ts in d.items()})
    return out


# ------------------------------------------------------------------ running

def job_of(c, macro, pool=None):
    rels = [(n, ar, "rel") for n, ar in c["rels"]]
    return dict(id="%s_%s" % (c["id"], "par%d" % pool if pool else "ser"), text=program_text(c), macro=macro, rels=rels, pre=PRE, threads=pool,
                scripts=[[("set", {r: inp.get(r, []) for r, _ in c["rels"] if r in INPUT_NAMES}), ("run",), ("snap",)] for inp in c["inputs"]])


def compare(c, k, iv, macro, pool):
    """one run vs the stratified model: sets AND row counts (each tuple once)"""
    inp = c["inputs"][k]
    cs = dict(family="param", id=c["id"], macro=macro, pool_threads=pool, program=program_text(c),
              ast=dict(rels=[list(r) for r in c["rels"]], rules=c["rules"]), input={r: [list(t) for t in ts] for r, ts in inp.items()})
    exp = c["expected"][k]
    if iv is None or "snaps" not in iv:
        return dict(case=cs, impl=iv, model=None, spec=exp, kind="impl_violates_spec", known=None,
                    what="%s: program with a parameterised aggregate did not produce a result (compile error / panic / timeout): %s" % (macro, json.dumps(iv)[:400]))
    snap = prog.canon_snap(iv["snaps"][-1])
    for name, _ in c["rels"]:
        ilen, iset = snap[name]
        want = [tuple(t) for t in exp[name]]
        got = sorted(tuple(t) for t in iset)
        if got != want or ilen != len(want):
            rule = [r_rule(r) for r in c["rules"] if any(h == name for h, _ in r["heads"])]
            return dict(case=cs, impl={name: dict(len=ilen, tuples=got)}, model=None, spec={name: want}, kind="impl_violates_spec", known=None,
                        what="%s%s: relation %s (`%s`) after run() holds %d rows; not in the stratified model: %s; missing: %s — the stratified model evaluates the aggregator OF EACH BINDING (its expression may use rule variables) over the distinct rows matching that binding's key and continues once per value returned" % (
                            macro, " (pool of %d)" % pool if pool else "", name, " ".join(rule), ilen,
                            [t for t in got if t not in want][:5], [t for t in want if t not in got][:5]))
    return None


def run_cases(cases, tier, seed, tag="c04pm", model=True):
    rng = lib.rng_for(seed, "C04", "param_par")
    jobs, meta = [], []
    for i, c in enumerate(cases):
        jobs.append(job_of(c, "ascent"))
        meta.append((c, "ascent!", None, jobs[-1]["id"]))
        if i % 2 == 0 or c["id"].startswith("c04pmcorpus") or c["id"] == "c04pm_replay":
            pool = rng.choice([1, 2, 4])
            jobs.append(job_of(c, "ascent_par", pool))
            meta.append((c, "ascent_par!", pool, jobs[-1]["id"]))
    impl = prog.build_and_run(tag, jobs, nbins=min(lib.NCPU, max(1, (len(jobs) + 2) // 3))) if jobs else {}
    # model column: Engine/AggParamModel.v p_strat_fix (the specification semantics the theorem c04_param_agg_stratified_model is about)
    pairs = [(c, k) for c in cases for k in range(len(c["inputs"]))]
    mvals = model_eval(pairs, tag=tag) if model else [None] * len(pairs)
    model_of = {(c["id"], k): v for (c, k), v in zip(pairs, mvals)}
    mism, distinct = [], set()
    dist = dict(programs=len(cases), runs_by_macro={}, prefixes={}, aggregators={}, tails={}, key_forms={}, input_styles={}, sources={},
                runs_with_two_bindings_sharing_the_key_differing_in_parameter_and_result=0, agg_clauses_so_discriminated=0)
    for c in cases:
        for sh in c.get("shapes", []):
            for f, key in (("prefixes", "prefix"), ("aggregators", "agg"), ("tails", "tail"), ("key_forms", "key")):
                dist[f][sh[key]] = dist[f].get(sh[key], 0) + 1
        for k_, v in c.get("sources", {}).items():
            dist["sources"][k_ + "=" + v] = dist["sources"].get(k_ + "=" + v, 0) + 1
    for c, macro, pool, jid in meta:
        res = impl.get(jid)
        for k in range(len(c["inputs"])):
            dist["runs_by_macro"][macro] = dist["runs_by_macro"].get(macro, 0) + 1
            if macro == "ascent!":
                dist["input_styles"][c["styles"][k]] = dist["input_styles"].get(c["styles"][k], 0) + 1
            if c["discriminating"][k]:
                distinct.add((c["id"], macro, k))
                dist["runs_with_two_bindings_sharing_the_key_differing_in_parameter_and_result"] += 1
                dist["agg_clauses_so_discriminated"] += c["discriminating"][k]
            m = compare(c, k, res[k] if res else None, macro, pool)
            mv = model_of.get((c["id"], k))
            if m:
                m["model"] = mv
                mism.append(m)
            elif model and macro == "ascent!":
                dist["model_evaluations"] = dist.get("model_evaluations", 0) + 1
                exp = {n: [tuple(t) for t in v] for n, v in c["expected"][k].items()}
                if mv != exp:       # the implementation agrees with the oracle here, so the Coq model differs from the implementation
                    bad = None if mv is None else {n: dict(model=mv[n], impl=exp[n]) for n in exp if mv[n] != exp[n]}
                    mism.append(dict(case=dict(family="param", id=c["id"], macro=macro, program=program_text(c), ast=dict(rels=[list(r) for r in c["rels"]], rules=c["rules"]),
                                               input={r: [list(t) for t in ts] for r, ts in c["inputs"][k].items()}),
                                     impl=exp, model=mv, spec=exp, kind="model_differs", known=None,
                                     what="correspondence Engine/AggParamModel.v p_strat_fix (over Engine/AggParamVocab.v) vs the compiled program: %s" % (json.dumps(bad, default=str)[:600] if bad is not None else "the model reached no fixed point within its fuel")))
    samples = []
    for c in cases[:2]:
        samples.append(dict(program=program_text(c), input=c["inputs"][0], stratified_model={n: c["expected"][0][n] for n, _ in c["rels"] if n[0] in "oactm"}))
    return dict(mismatches=mism, evaluations=sum(dist["runs_by_macro"].values()), distinct=len(distinct), distribution=dist, samples=samples)


def run(tier, seed, corpus_path=None, tag="c04pm"):
    cases = (corpus_cases(corpus_path) if corpus_path else []) + gen_cases(tier, seed)
    return run_cases(cases, tier, seed, tag)


def replay(cs):
    """one stored (program, input): serial and ascent_par! again"""
    p = prog_from_json(cs["ast"])
    p["id"] = "c04pm_replay"
    inp = input_from_json(cs["input"])
    obs = {}
    e = oracle(p, inp, obs)
    c = dict(p, inputs=[inp], expected=[e], styles=["replay"], discriminating=[discriminating(obs)])
    r = run_cases([c], "quick", 0, tag="c04pmreplay")
    return dict(evaluations=r["evaluations"], distinct_nontrivial=r["distinct"], rule="replay of one stored (program with a parameterised aggregate, input), serial and ascent_par!",
                samples=[dict(program=program_text(p), input=cs["input"])], distribution=r["distribution"], mismatches=r["mismatches"])
