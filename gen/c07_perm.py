"""C07 — family `permjoin`: a variable REPEATED ACROSS the first two clauses of a rule ("a repeated variable is an
equality test against the column"), where the repeat is served by an INDEX of the first clause.

    mutual(x, y) <-- link(x, y), link(y, x);            r(x, y), s(y, x);            d(x, y, z), e(z, x, y)

Class of shapes (none of them exercised by the general generator / add_join_repeat):
  * the first two body items are plain clauses over pairwise distinct variables (a "simple join": the only place where the
    FIRST clause of a rule is read through an index, chosen from the variables of the second clause);
  * EVERY column of the first clause is repeated in the second one, in EVERY order (arity 2: both; arity 3: all six;
    identity = same-order control), the second clause as wide as the first or wider (extra columns = new variables);
    partial joins (a proper subset of the columns, ascending and not) as further controls;
  * the first clause's relation is DERIVED: copy rule, copy rule with permuted head, recursive rule, facts (body-less
    rules, also as one of several heads), the joining rule itself writing back into it — and, per input, also LOADED by
    the caller or not; a relation that is only loaded as control; the second relation the same one (self join), another
    derived one, or a loaded one;
  * inputs with matching rows planted (a row of the second relation for a row that only a rule / a fact puts into the
    first), relative sizes both ways (the join order is chosen at run time from the sizes).

Oracle: unchanged — the python HAND EXPANSION through the real macro (here every cross-clause repeat is written out:
`link(x, y), link(zc1, zc2) if zc1 == y if zc2 == x`: no shared variable, hence no join index at all), the Coq direct
denotation of the sugared program and the python oracle.
"""
import itertools
from collections import Counter

from . import c07_gen as G
from . import gen_dl

DOM = gen_dl.DOM
SRC1 = ["copy", "facts", "rec", "copy+facts", "copyperm", "copy", "facts", "rec+facts"]
SRC2 = ["loaded", "copy", "loaded", "facts", "loaded", "copy"]


def V(x):
    return ("v", x)


def nonid(a):
    return [p for p in itertools.permutations(range(a)) if list(p) != list(range(a))]


# ------------------------------------------------------------------ the hand expansion with cross-clause repeats written out

def expand_body_cross(body, feats=None):
    """G.expand_body, then every plain variable argument of a clause that an EARLIER body item binds becomes a fresh
    variable zcN plus the equality test `if zcN == x` attached to the clause (before the clause's own conditions)"""
    feats = feats if feats is not None else Counter()
    items = G.expand_body(body, feats)
    out, bound, n = [], set(), 0
    for it in items:
        if it[0] == "clause":
            args, eqs = [], []
            for t in it[2]:
                if t[0] == "v" and t[1] in bound:
                    n += 1
                    v = "zc%d" % n
                    args.append(("v", v))
                    eqs.append(("ifeq", v, t))
                    feats["cross_clause_repeated_var"] += 1
                else:
                    args.append(t)
            out.append(("clause", it[1], args, eqs + list(it[3])))
            bound |= {t[1] for t in it[2] if t[0] == "v"}
            for c in it[3]:
                bound |= set(G.cond_binds(c))
        else:
            out.append(it)
            if it[0] == "cond":
                bound |= set(G.cond_binds(it[1]))
            elif it[0] == "gen":
                bound.add(it[1])
            elif it[0] == "agg" and it[1]:
                bound.add(it[1])
    return out


def expand_program_cross(p, feats=None):
    rules = []
    for r in p["rules"]:
        for conj in G.disj_product(r["body"]):
            body = expand_body_cross(conj, feats)
            for h in r["heads"]:
                rules.append(dict(heads=[h], body=body))
    return dict(rels=p["rels"], rules=rules)


def cross_features(p):
    f = Counter()
    expand_program_cross(p, f)
    return f["cross_clause_repeated_var"]


# ------------------------------------------------------------------ shapes

def shape_of(rng, k):
    """the schedule: 12 slots, the non-identity orders of arity 3 taken in turn"""
    slot, cyc = k % 12, k // 12
    n3 = nonid(3)
    sh = dict(a1=2, a2=2, self=False, kind="full_permuted", tail=None, back=False, src1=SRC1[(k + cyc) % len(SRC1)], src2=SRC2[(k + 2 * cyc) % len(SRC2)])

    def p3(j):
        return list(n3[(cyc + j) % len(n3)])
    if slot == 0:
        sh.update(perm=[1, 0], self=True)
    elif slot == 1:
        sh.update(perm=[1, 0])
    elif slot == 2:
        sh.update(a1=3, a2=3, perm=p3(0))
    elif slot == 3:
        sh.update(a1=3, a2=3, perm=p3(1), self=True)
    elif slot == 4:
        sh.update(a2=3, perm=[1, 0])
    elif slot == 5:
        a = 2 + cyc % 2
        sh.update(a1=a, a2=a + (cyc // 2) % 2 if a == 2 else a, perm=list(range(a)), kind="full_same_order", self=cyc % 3 == 1)
    elif slot == 6:
        if cyc % 3 == 2:
            sh.update(a1=2, a2=rng.choice([1, 2]), perm=[rng.choice([0, 1])], kind="partial")
        else:
            two = rng.sample(range(3), 2)
            if cyc % 3 == 0:
                two = sorted(two, reverse=True)      # the two shared columns in descending order
            sh.update(a1=3, a2=rng.choice([2, 3]), perm=two, kind="partial")
    elif slot == 7:
        sh.update(a1=3, a2=3, perm=p3(2))
    elif slot == 8:
        sh.update(perm=[1, 0], tail=rng.choice(["clause", "cond", "reread"]), self=rng.random() < 0.4)
    elif slot == 9:
        sh.update(a1=3, a2=3, perm=p3(3), back=True)
    elif slot == 10:
        sh.update(perm=[1, 0], back=True, self=rng.random() < 0.5)
    else:
        sh.update(a1=3, a2=3, perm=p3(4), src1=rng.choice(["facts", "copy+facts"]))
    if slot not in (5, 6) and cyc % 4 == 3 and slot % 3 == 1:
        sh["src1"] = "loaded"                        # control: the first relation is only loaded by the caller
    if sh["self"]:
        sh["a2"] = sh["a1"]
    return sh


def gen_perm_program(rng, k):
    """-> (program, info)"""
    sh = shape_of(rng, k)
    a1, a2 = sh["a1"], sh["a2"]
    rels, rules = [], []

    def add(name, arity):
        rels.append((name, arity, "rel"))
        return name
    d = add("d", a1)
    e = d if sh["self"] else add("e", a2)
    xs = ["x%d" % (i + 1) for i in range(a1)]
    info = dict(sh, d=d, e=e, facts={d: [], e: []}, copy={}, k=k)
    # ---- how the relation of the first clause gets its tuples
    src1 = sh["src1"]
    if "copy" in src1 or "rec" in src1:
        s = add("s", a1)
        hp = list(range(a1))
        if src1 == "copyperm":
            hp = list(rng.choice(nonid(a1)))
        rules.append(dict(heads=[(d, [V(xs[i]) for i in hp])], body=[("clause", s, [V(x) for x in xs], [])]))
        info["copy"][d] = (s, hp)
        if "rec" in src1:
            # d(.., x_new) <-- d(x1, .., xn), s(xn, .., x_new): the last column walks along s
            nw = "x%d" % (a1 + 1)
            sargs = [V(xs[-1])] + [V(x) for x in xs[1:-1]] + [V(nw)]
            rules.append(dict(heads=[(d, [V(x) for x in xs[:-1]] + [V(nw)])], body=[("clause", d, [V(x) for x in xs], []), ("clause", s, sargs, [])]))
    # ---- the relation of the second clause
    if not sh["self"]:
        src2 = sh["src2"]
        if src2 == "copy":
            t2 = add("t", a2)
            ys = ["x%d" % (i + 1) for i in range(a2)]
            rules.append(dict(heads=[(e, [V(y) for y in ys])], body=[("clause", t2, [V(y) for y in ys], [])]))
            info["copy"][e] = (t2, list(range(a2)))
    # ---- the joining rule
    joined = list(sh["perm"])                        # columns of clause 1 whose variables clause 2 mentions, in clause 2's order
    cols2 = sorted(rng.sample(range(a2), len(joined)))
    args2, nv, scope = [None] * a2, a1, list(xs)
    for c, j in zip(cols2, joined):
        args2[c] = V(xs[j])
    for c in range(a2):
        if args2[c] is None:
            nv += 1
            args2[c] = V("x%d" % nv)
            scope.append("x%d" % nv)
    info["args2"] = [t[1] for t in args2]
    body = [("clause", d, [V(x) for x in xs], []), ("clause", e, args2, [])]
    if sh["tail"] == "cond":
        body.append(("cond", ("if", rng.choice(["le", "ne"]), rng.sample(scope, 2))))
    elif sh["tail"] == "clause":
        g = add("g", rng.choice([1, 2]))
        ga = [V(rng.choice(scope)) if rng.random() < 0.7 else ("w",) for _ in range(dict((n, a) for n, a, _ in rels)[g])]
        body.append(("clause", g, ga, []))
    elif sh["tail"] == "reread":
        # a third clause reading the first relation again, every column bound, in another order
        body.append(("clause", d, [V(xs[j]) for j in rng.choice(nonid(a1))], []))
    ha = rng.choice([1, 2, 2, 3, 3])
    h = add("h", ha)
    hargs = [V(x) for x in (rng.sample(scope, ha) if ha <= len(scope) else [rng.choice(scope) for _ in range(ha)])]
    heads = [(h, hargs)]
    if sh["back"]:
        # the rule writes back into the relation it joins (the rows it derives must be found by its own next iteration)
        back = [V(x) for x in rng.sample(scope, a1)] if rng.random() < 0.6 else [V(xs[j]) for j in rng.choice(nonid(a1))]
        heads = [(h, hargs), (d, back)] if rng.random() < 0.6 else [(d, back), (h, hargs)]
    rules.append(dict(heads=heads, body=body))
    # ---- facts: body-less rules (some of them joining partners of each other), two of them sometimes as ONE rule with several heads
    if "facts" in src1:
        for _ in range(rng.choice([2, 3, 4])):
            info["facts"][d].append(tuple(rng.choice(DOM) for _ in range(a1)))
        if sh["self"] and rng.random() < 0.7:
            info["facts"][d].append(partner(rng, info, info["facts"][d][0]))
    if not sh["self"] and sh["src2"] == "facts":
        for _ in range(rng.choice([1, 2])):
            info["facts"][e].append(tuple(rng.choice(DOM) for _ in range(a2)))
        if info["facts"][d] and rng.random() < 0.7:
            info["facts"][e].append(partner(rng, info, info["facts"][d][0]))
    for r in (d, e):
        info["facts"][r] = list(dict.fromkeys(info["facts"][r]))
    # ---- facts: body-less rules, two of them sometimes as ONE rule with several heads
    frules = [dict(heads=[(r, [("c", c) for c in t])], body=[]) for r in (d, e) for t in info["facts"][r]]
    if sh["self"]:
        frules = frules[:len(info["facts"][d])]
    if len(frules) >= 2 and rng.random() < 0.4:
        frules = [dict(heads=frules[0]["heads"] + frules[1]["heads"], body=[])] + frules[2:]
    rules += frules
    rng.shuffle(rules)
    return dict(rels=rels, rules=rules), info


# ------------------------------------------------------------------ inputs

def rand_rows(rng, arity, n):
    out = []
    for _ in range(4 * n):
        t = tuple(rng.choice(DOM) for _ in range(arity))
        if t not in out:
            out.append(t)
        if len(out) >= n:
            break
    return out


def partner(rng, info, row):
    """the row of the second relation that joins with `row` of the first"""
    pos = {"x%d" % (i + 1): v for i, v in enumerate(row)}
    return tuple(pos[x] if x in pos else rng.choice(DOM) for x in info["args2"])


def preimage(hp, t):
    """row of s such that  d(x[hp[0]], ..) <-- s(x0, ..)  derives t"""
    r = [0] * len(t)
    for i, j in enumerate(hp):
        r[j] = t[i]
    return tuple(r)


def perm_inputs(rng, p, info):
    """three databases: (1) the first relation NOT loaded and small, the second large; (2) the first relation loaded as
    well and large, the second small; (3) at random.  In (1) and (2) about two thirds of the rows the first relation will
    hold (loaded, copied, facts) get a joining partner row in the second relation."""
    d, e = info["d"], info["e"]
    ar = {n: a for n, a, _ in p["rels"]}
    out = []
    for variant in (1, 2):
        inp = {n: [] for n in ar}
        nd, ne = (rng.choice([2, 3, 4]), rng.choice([9, 11, 14])) if variant == 1 else (rng.choice([9, 11, 14]), rng.choice([2, 3]))
        want = rand_rows(rng, ar[d], nd)
        load = variant == 2 or info["src1"] == "loaded"
        via_rule, via_load = [], []
        for t in want:
            if d in info["copy"] and (not load or rng.random() < 0.5):
                via_rule.append(t)
            elif load:
                via_load.append(t)
        have = via_rule + via_load + list(info["facts"][d])
        partners = [partner(rng, info, t) for t in have if rng.random() < 0.67]
        if not partners and have:
            partners = [partner(rng, info, rng.choice(have))]
        erows = list(dict.fromkeys(partners + rand_rows(rng, ar[e], max(0, ne - len(partners)))))
        if e == d:
            # self join: the partners are rows of the same relation, through the rule or loaded
            for t in erows[:len(partners) + 2]:
                if d in info["copy"] and (not load or rng.random() < 0.5):
                    via_rule.append(t)
                elif load:
                    via_load.append(t)
        elif e in info["copy"]:
            inp[info["copy"][e][0]] = erows
            if variant == 2 and rng.random() < 0.5:
                inp[e] = rand_rows(rng, ar[e], 1)
        else:
            inp[e] = erows
        if d in info["copy"]:
            s, hp = info["copy"][d]
            inp[s] = list(dict.fromkeys(preimage(hp, t) for t in via_rule))
        inp[d] = list(dict.fromkeys(via_load))
        if "g" in ar:
            inp["g"] = rand_rows(rng, ar["g"], rng.choice([2, 4, 6]))
        if rng.random() < 0.25:
            inp["h"] = rand_rows(rng, ar["h"], 1)
        out.append(inp)
    out.append(gen_dl.gen_input(rng, p["rels"], style=rng.choice(["mixed", "dense", "small"]))[0])
    return out


def describe(info):
    return "%s:%s" % (info["kind"], "".join(str(j) for j in info["perm"]))
