"""C09 family `big`: LARGE declaration lists — size and order of the `relation` / `lattice` declarations of a program.

"A later re-declaration of a relation wins" (Pack/PackModel.v hir_relations / prog_get_relation, theorem c09_redecl_last_wins, which
holds for declaration lists of ANY length and order) used to be exercised on programs with a handful of declarations only.  Anything
in the macro that walks, sorts, buckets, hashes or searches the declaration list can depend on its LENGTH and its ORDER (a sort that
is stable only below a size threshold, a binary search over a list that is not sorted, a hash map that keeps the first / a random
entry of a name, a fixed-capacity buffer ..).  This family renders a logical program (one whose specification answer the check has
already computed) as a program with 21-64 declarations:

  * the relations of the logical program + unused FILLER relations / lattices with random names (first letter uniform over a-z, so
    that the relations of the logical program land anywhere in a name-sorted list), arities 0-3, some with constant initialisers;
  * 1-4 relations (of the logical program and fillers) declared 2 or 3 times; the declarations differ observably: DECOY initialisers
    hold the tuple (9, .., 9), which no program derives (c09_pack: constants and inputs are in 0..5, vocabulary functions < 8); the
    LAST declaration decides — its initialiser is the input (or, if it is bare, the relation starts empty and the input is pushed /
    arrives through a rule over the captured local); a filler may also be declared `#[ds(eqrel)]` first and as an ordinary relation
    last;
  * declaration order: random / sorted by name / reverse-sorted / everything sorted in front and the re-declarations at the end (the
    "include a source, then re-declare its inputs" shape); re-declarations at random distances; rules interleaved or at the end;
  * 0-2 segments of the item list moved into ascent_source! blocks (declarations, re-declarations and rules travel through
    include_source!; items that mention a captured local are only ever rules and stay in the program text);
  * all four macros.

Observable: every relation of the program (logical ones: set + row count against the specification oracle of the logical program;
fillers: exactly the rows of the initialiser of their LAST declaration, none if that is bare).  The expected value comes from the
logical program and from the flat (include-expanded) declaration list as WRITTEN by this module, never from the implementation."""
import re

from . import c09_pack, dl, prog

KEYWORDS = {"as", "async", "await", "box", "break", "const", "continue", "crate", "dyn", "else", "enum", "extern", "false", "fn", "for", "if",
            "impl", "in", "let", "loop", "match", "mod", "move", "mut", "pub", "ref", "return", "self", "static", "struct", "super", "trait",
            "true", "try", "type", "unsafe", "use", "where", "while", "yield", "abstract", "become", "do", "final", "macro", "override", "priv",
            "typeof", "unsized", "virtual", "union", "str", "bool", "char", "usize", "isize", "relation", "lattice", "agg", "out", "snap", "emit",
            "run", "flags", "summ", "std", "vec", "ascent", "core", "alloc", "main", "rel", "ind", "ser", "par"}
LETTERS = "abcdefghijklmnopqrstuvwxyz"
EQREL = "ascent_byods_rels::eqrel"
ORDERS = ["random", "random", "sorted", "reverse", "sorted_then_redecl"]


def fresh_names(rng, n, taken):
    out, seen = [], set(taken)
    while len(out) < n:
        s = rng.choice(LETTERS) + "".join(rng.choice(LETTERS + LETTERS + "0123456789_") for _ in range(rng.randint(2, 6)))
        if (s in seen or s in KEYWORDS or s.endswith("_") or "__" in s or re.fullmatch(r"[a-z]\d+|[iuf]\d+|[a-z]_?\d*", s)
                or s.startswith(("in_", "inf_", "decoy_", "src_", "srcs_")) or "indices" in s):
            continue
        seen.add(s)
        out.append(s)
    return out


def _rows(rng, arity, n, lat=False):
    out = []
    for _ in range(n):
        t = tuple(rng.choice(range(6)) for _ in range(arity))
        if t not in out and not (lat and any(u[:-1] == t[:-1] for u in out)):
            out.append(t)
    return out


def _lit(rows, kind, macro):
    """a constant initialiser expression holding `rows`"""
    if not rows:
        return "Default::default()"
    return "%s.into_iter()%s.collect()" % (c09_pack.vec_lit(rows), c09_pack.wrap(kind, macro))


def _spread(rng, groups, n_slots_hint):
    """interleave the declaration groups at random, keeping the order inside every group: every declaration draws a key, the keys of a
    group are handed out in increasing order"""
    keyed = []
    for g in groups:
        ks = sorted(rng.random() for _ in g)
        keyed += list(zip(ks, g))
    keyed.sort(key=lambda kv: kv[0])
    return [d for _, d in keyed]


def arrange(rng, order, groups):
    """groups: {name: [declarations in their order]} -> one declaration list"""
    names = sorted(groups)
    if order == "random":
        return _spread(rng, [groups[n] for n in names], 0)
    if order == "sorted":
        return [d for n in names for d in groups[n]]
    if order == "reverse":
        return [d for n in reversed(names) for d in groups[n]]
    if order == "sorted_then_redecl":
        # every first declaration in name order (nearly: a few transpositions, else a sort has nothing to do), the re-declarations
        # after them in random order
        firsts = [groups[n][0] for n in names]
        for _ in range(rng.choice([0, 1, 2, 3])):
            i = rng.randrange(len(firsts) - 1)
            firsts[i], firsts[i + 1] = firsts[i + 1], firsts[i]
        return firsts + _spread(rng, [groups[n][1:] for n in names if len(groups[n]) > 1], 0)
    raise ValueError(order)


CORE_MODES = ["decoy_real", "decoy_bare", "real_decoy_real", "real_decoy_bare", "bare_decoy_real", "bare_real", "decoy_decoy_bare"]
FILL_MODES = ["decoy_real", "decoy_bare", "real_decoy_real", "decoy_decoy_bare", "bare_real", "decoy_real", "decoy_bare"]


def build(rng, jid, macro, p, inputs, ndecl=None, order=None):
    """one job: the logical program p (rels may be a view with write-only lattices) as a large program under `macro`"""
    core = list(p["rels"])
    par, run = macro.endswith("par"), macro.startswith("ascent_run")
    rules = [dl.rust_rule(r) for r in p["rules"]]
    order = order or rng.choice(ORDERS)
    ndecl = ndecl or rng.choice([21, 22, 24, 26, 30, 33, 40, 48, 64] + [rng.randint(25, 60)] * 6)
    # ---- which relations are declared more than once
    nre = rng.choice([1, 2, 2, 3, 4])
    core_pref = [r for r in core if r[1] >= 1] or core
    re_core = rng.sample(core_pref, min(len(core_pref), rng.choice([1, 1, 2, nre])))
    re_core = re_core[:nre]
    n_re_fill = nre - len(re_core)
    modes = {}
    for n, _, _ in re_core:
        modes[n] = rng.choice(CORE_MODES)
    ncore_decls = sum(len(modes[n].split("_")) if n in modes else 1 for n, _, _ in core)
    fill_modes = [rng.choice(FILL_MODES) for _ in range(n_re_fill)]
    nfill = max(n_re_fill + 2, ndecl - ncore_decls - sum(len(m.split("_")) - 1 for m in fill_modes))
    names = fresh_names(rng, nfill, [n for n, _, _ in core])
    fillers = []
    for i, n in enumerate(names):
        lat = rng.random() < 0.12
        a = rng.choice([1, 2, 3]) if lat else rng.choice([0, 1, 1, 2, 2, 2, 3])
        if i < n_re_fill and a == 0:
            a = rng.choice([1, 2])          # a re-declared filler has a column, so that its decoy tuple is visible
        fillers.append((n, a, ("lat", "i32") if lat else "rel"))
    for (n, a, k), m in zip(fillers, fill_modes):
        modes[n] = "ds_real" if (a == 2 and k == "rel" and rng.random() < 0.3) else m
    kind_of = {n: k for n, _, k in core + fillers}
    # ---- the declarations of every relation, in their order; the role of the LAST one decides
    groups, fixed_rows, push, caps, decoy_inputs, where_real = {}, {}, [], [], [{} for _ in inputs], {}
    uses_fns, uses_decoy = set(), set()

    def decl_text(n, a, k, role, const_rows=None, attr=""):
        """-> function(inside a source block?) -> text"""
        d = attr + dl.rust_decl(n, a, k)
        if role == "bare":
            return lambda inside: d
        if role == "decoy":
            if const_rows is not None:          # a filler: constant decoy
                rows = [tuple(9 for _ in range(a))] + _rows(rng, a, rng.choice([0, 1, 2]))
                if c09_pack.is_lat(k):
                    rows = list({t[:-1]: t for t in reversed(rows)}.values())[::-1]
                e = _lit(rows, k, macro)
                return lambda inside: c09_pack.init_decl(d, e)
            uses_decoy.add(n)
            e = "decoy_%s().into_iter()%s.collect()" % (n, c09_pack.wrap(k, macro))
            return lambda inside: c09_pack.init_decl(d, e)
        # role == "real"
        if const_rows is not None:
            e = _lit(const_rows, k, macro)
            return lambda inside: c09_pack.init_decl(d, e)
        uses_fns.add(n)
        by_fn = "inf_%s().into_iter()%s.collect()" % (n, c09_pack.wrap(k, macro))          # fn inf_<n>(): the input of the running script
        if not run:
            return lambda inside: c09_pack.init_decl(d, by_fn)
        # ascent_run! / ascent_run_par!: the README form (a captured local) wherever the declaration stays in the program text
        forms = ["in_%s.iter().cloned()%s.collect()" % (n, c09_pack.wrap(k, macro)), by_fn]
        if not par:
            forms.append("in_%s.clone()" % n)          # `relation r(..) = r;` of the README (cloned: a rule may read the local too)
        outside = rng.choice(forms)
        return lambda inside: c09_pack.init_decl(d, by_fn if inside else outside)

    for n, a, k in core:
        roles = modes[n].split("_") if n in modes else [rng.choice(["real", "bare"])]
        groups[n] = [dict(name=n, role=r, text=decl_text(n, a, k, r)) for r in roles]
        if roles[-1] == "bare":
            if run:
                vs = ["c%d" % i for i in range(a)]
                caps.append("%s(%s) <-- for (%s) in in_%s.iter();" % (n, ", ".join("*" + v for v in vs), "".join(v + ", " for v in vs), n))
            else:
                push.append(n)
    for n, a, k in fillers:
        if n in modes and modes[n] == "ds_real":
            rows = _rows(rng, a, rng.choice([1, 2, 3]))
            groups[n] = [dict(name=n, role="ds", text=decl_text(n, a, k, "bare", attr="#[ds(%s)] " % EQREL)),
                         dict(name=n, role="real", text=decl_text(n, a, k, "real", const_rows=rows))]
            fixed_rows[n] = rows
            continue
        roles = modes[n].split("_") if n in modes else [rng.choice(["bare", "bare", "bare", "real"])]
        rows = _rows(rng, a, rng.choice([0, 1, 2, 3]), lat=c09_pack.is_lat(k))
        groups[n] = [dict(name=n, role=r, text=decl_text(n, a, k, r, const_rows=rows)) for r in roles]
        fixed_rows[n] = rows if roles[-1] == "real" else []
    for si in range(len(inputs)):
        for n, a, k in core:
            if n in uses_decoy:
                rows = [tuple(9 for _ in range(a))] + _rows(rng, a, rng.choice([0, 1, 2]))
                if c09_pack.is_lat(k):
                    rows = list({t[:-1]: t for t in reversed(rows)}.values())[::-1]
                decoy_inputs[si][n] = rows
    decls = arrange(rng, order, groups)
    # ---- rules among the declarations or after them
    items = [dict(decl=d) for d in decls]
    rl = [dict(rule=r) for r in rules + caps]
    rng.shuffle(rl)
    if rng.random() < 0.5:
        items += rl
    else:
        for r in rl:
            items.insert(rng.randint(0, len(items)), r)
    # ---- include_source!: 0-2 segments of the item list move into source blocks
    n = len(items)
    inc = rng.choice(["none", "one", "one", "two", "prefix", "first_decls"])
    if order == "sorted_then_redecl" and rng.random() < 0.6:
        inc = "first_decls"
    if inc == "none":
        cuts = []
    elif inc == "one":
        a_ = rng.randint(0, n - 1)
        cuts = [(a_, rng.randint(a_ + 1, n))]
    elif inc == "two":
        pts = sorted(rng.randint(0, n) for _ in range(4))
        cuts = [(pts[0], pts[1]), (pts[2], pts[3])]
    elif inc == "prefix":
        cuts = [(0, rng.randint(n // 2, n))]
    else:
        # the source holds the first declaration of every relation (and whatever lies between them); every re-declaration that follows
        # the last first-declaration is in the including program
        seen, lastfirst = set(), 0
        for i, it in enumerate(items):
            if "decl" in it and it["decl"]["name"] not in seen:
                seen.add(it["decl"]["name"])
                lastfirst = i
        cuts = [(0, lastfirst + 1)]
    srcs, lines, pos, through = [], [], 0, 0

    def render(it, inside):
        return it["rule"] if "rule" in it else it["decl"]["text"](inside)

    captures = lambda l: re.search(r"\bin_\w+\b(?!\()", l) is not None
    for ci, (a_, b_) in enumerate(cuts):
        lines += [render(it, False) for it in items[pos:a_]]
        seg = [render(it, True) for it in items[a_:b_]]
        kept = [l for l in seg if captures(l)]
        seg = [l for l in seg if not captures(l)]
        assert all("<--" in l for l in kept), kept          # only rules mention a captured local inside a segment: the declaration order is untouched
        through += sum(1 for it in items[a_:b_] if "decl" in it and it["decl"]["name"] in modes)
        blk, path = c09_pack.source_block("src_%s_%s" % (jid, "ab"[ci]), seg, doc=(rng.random() < 0.3), nested=(rng.random() < 0.4))
        srcs.append(blk)
        lines.append("include_source!(%s);" % path)
        lines += kept
        pos = b_
    lines += [render(it, False) for it in items[pos:]]
    # ---- the module
    rels = core + fillers
    fn_items = c09_pack.input_fns([r for r in core if r[0] in uses_fns], inputs, prefix="inf_")
    fn_items += c09_pack.input_fns([r for r in core if r[0] in uses_decoy], decoy_inputs, prefix="decoy_")
    if run:
        mod_items = fn_items + srcs + [c09_pack.go_fn(macro, core, rng.choice([[], ["pub struct Prog;"]]), lines)]
        scripts = [c09_pack.go_script(core, inp) for inp in inputs]
    else:
        mod_items = fn_items + srcs + [c09_pack.macro_call(macro, ["pub struct Prog;"], lines)]
        scripts = []
        for inp in inputs:
            body = ["let mut flags: Vec<bool> = vec![];", "let mut p = Prog::default();"]
            # relations whose LAST declaration is bare start empty; their input is pushed, so whatever an overridden initialiser left
            # behind stays visible
            body += [c09_pack.push_stmt(n_, kind_of[n_], macro, inp.get(n_, [])) for n_ in push]
            body += ["p.run();", "(vec![snap!(p)], flags)"]
            scripts.append("\n".join("      " + l for l in body))
    flat = [(d["name"], d["role"]) for d in decls]
    redecl = {n_: [r for m_, r in flat if m_ == n_] for n_ in modes}
    ndecls = len(decls)
    pos_of = {n_: [i for i, (m_, _) in enumerate(flat) if m_ == n_] for n_ in modes}
    desc = ("%d declarations (%d relations of the logical program, %d fillers), order %s, includes %s%s; re-declared: %s" % (
        ndecls, len(core), len(fillers), order, inc, cuts,
        "; ".join("%s at positions %s as %s (the last one is in effect)" % (n_, pos_of[n_], "/".join(redecl[n_])) for n_ in sorted(modes))))
    job = dict(id=jid, kind="big_" + order, macro=macro, desc=desc, rels=rels, fixed_rows={k: sorted(set(v), key=repr) for k, v in fixed_rows.items()},
               script_input=list(range(len(scripts))), expect_flags=[[] for _ in scripts], family="big",
               big=dict(declarations=ndecls, order=order, includes=inc, redeclared=len(modes), redeclared_core=len(re_core),
                        declarations_of_one_name=max(len(v) for v in redecl.values()), redeclarations_through_include=through,
                        observable=sum(1 for v in redecl.values() if ("decoy" in v[:-1] or "ds" in v[:-1] or (v[-1] == "bare" and "real" in v)))),
               program_text="\n".join(lines))
    # the declaration list as an input of Pack/PackModel.v: names numbered in name order, initialisers numbered per declaration
    # (1 = the input of the relation / the rows expected for a filler, 2.. = decoys); expected = what the LAST declaration says
    idx = {n_: i for i, n_ in enumerate(sorted(groups))}
    codes, nd = [], 2
    for d in decls:
        if d["role"] == "real":
            codes.append((idx[d["name"]], 1))
        elif d["role"] == "decoy":
            codes.append((idx[d["name"]], nd))
            nd += 1
        else:
            codes.append((idx[d["name"]], None))
    mnames = sorted(modes) + [n_ for n_ in sorted(groups) if n_ not in modes][:3]
    job["model"] = dict(decls=codes, names=[idx[n_] for n_ in mnames], expected=[[1] if groups[n_][-1]["role"] == "real" else [] for n_ in mnames])
    job["src"] = c09_pack.module_text(jid, rels, mod_items, scripts, par=par)
    job["nscripts"] = len(scripts)
    return job


MACROS = ["ascent", "ascent_par", "ascent_run", "ascent_run_par"]


def packagings(rng, cid, p, inputs, tier):
    """the jobs of one logical program: one large program per macro, each with its own fillers, order and re-declarations"""
    jobs = []
    for m in MACROS:
        jobs.append(build(rng, "%s_big_%s" % (cid, m), m, p, inputs))
    return jobs


def corpus_jobs(cid, p, inputs, seeds):
    """corpus cases carry `big_seeds`: arrangements (fillers, order, re-declarations, includes: everything build() draws) that once
    exposed a defect, rebuilt from their own generator seed on every check"""
    import random
    return [build(random.Random("C09big:%d:%s" % (k, m)), "%s_bigk%d_%s" % (cid, k, m), m, p, inputs) for k in seeds for m in MACROS]


def stats(jobs):
    st = dict(jobs=len(jobs), declarations_min=None, declarations_max=None, orders={}, includes={}, redeclared_relations=0, redeclared_relations_of_the_logical_program=0,
              relations_declared_three_times=0, redeclarations_inside_a_source=0, redeclarations_with_an_observable_difference=0, programs_above_20_declarations=0)
    for j in jobs:
        b = j["big"]
        st["declarations_min"] = b["declarations"] if st["declarations_min"] is None else min(st["declarations_min"], b["declarations"])
        st["declarations_max"] = b["declarations"] if st["declarations_max"] is None else max(st["declarations_max"], b["declarations"])
        st["orders"][b["order"]] = st["orders"].get(b["order"], 0) + 1
        st["includes"][b["includes"]] = st["includes"].get(b["includes"], 0) + 1
        st["redeclared_relations"] += b["redeclared"]
        st["redeclared_relations_of_the_logical_program"] += b["redeclared_core"]
        st["relations_declared_three_times"] += 1 if b["declarations_of_one_name"] >= 3 else 0
        st["redeclarations_inside_a_source"] += b["redeclarations_through_include"]
        st["redeclarations_with_an_observable_difference"] += b["observable"]
        st["programs_above_20_declarations"] += 1 if b["declarations"] > 20 else 0
    return st


PRELUDE = ("From Coq Require Import List Arith Bool.\nFrom AV Require Import Pack.PackModel.\nFrom AV Require Import Pack.PackOrder.\nImport ListNotations.\n")


def model_check(jobs, tag="c09bm"):
    """Pack/PackModel.v on the declaration list of every job: initialisers_emitted (dedup_all_keep_last_by + the metadata of the kept
    declaration) of the re-declared relations and of a few others, on the list as written AND on the list sorted by name with the
    stable sort of Pack/PackOrder.v, must be what the last declaration says.  -> (mismatches, number of lists evaluated)"""
    from . import lib
    exprs = []
    for j in jobs:
        m = j["model"]
        ds = "[%s]" % "; ".join("dc %d %s" % (n, "None" if e is None else "(Some %d)" % e) for n, e in m["decls"])
        ns = "[%s]" % "; ".join(str(n) for n in m["names"])
        exprs.append("let ds := %s in (map (fun n => initialisers_emitted n ds) %s, map (fun n => initialisers_emitted n (sort_by_name ds)) %s, length (hir_relations ds))" % (ds, ns, ns))
    vals = lib.coq_eval(tag, PRELUDE, exprs)
    mism = []
    for j, v in zip(jobs, vals):
        m = j["model"]
        want = [list(e) for e in m["expected"]]
        nrel = len({n for n, _ in m["decls"]})
        got = None if v is None else ([list(x) for x in v[0]], [list(x) for x in v[1]], v[2])
        if got != (want, want, nrel):
            mism.append(dict(case=dict(family="big_model", job_id=j["id"], declarations=m["decls"], names=m["names"], detail=j["desc"]), impl=None, model=got,
                             spec=(want, want, nrel), kind="model_differs", known=None,
                             what="Pack/PackModel.v initialisers_emitted / hir_relations on the %d declarations of %s (as written, sorted by name with the stable sort, number of fields) gives %s, the last declarations say %s" % (len(m["decls"]), j["id"], got, (want, want, nrel))))
    return mism, len(jobs)


def replay_model(cs):
    j = dict(id=cs["job_id"], desc=cs.get("detail", ""), model=dict(decls=[tuple(d) for d in cs["declarations"]], names=cs["names"], expected=None))
    # the expectation is recomputed from the stored declaration list: the last declaration of a name decides
    last = {}
    for n, e in j["model"]["decls"]:
        last[n] = e
    j["model"]["expected"] = [[1] if last.get(n) == 1 else [] for n in cs["names"]]
    m, n = model_check([j], tag="c09bmr")
    return dict(evaluations=n, distinct_nontrivial=n, rule="replay of one declaration list in Pack/PackModel.v", samples=[], distribution={}, mismatches=m)
