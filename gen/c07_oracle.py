"""C07 — independent python specification oracle: naive stratified evaluation of a SURFACE program (python AST of
gen/c07_gen.py) under the vocabulary of gen/dl.py + Syntax/C07Vocab.v.  Same meaning as Syntax/Surface.v, written
independently: it arbitrates between 'the implementation violates the specification' (oracle = Coq direct denotation
!= implementation) and 'the Coq denotation is wrong' (oracle != Coq)."""
from . import dl, engine_tie


class Fuel(Exception):
    pass


def pred(name, a):
    if name == "lt":
        return a[0] < a[1]
    if name == "ne":
        return a[0] != a[1]
    if name == "even":
        return a[0] % 2 == 0
    if name == "le":
        return a[0] <= a[1]
    if name == "eq":
        return a[0] == a[1]
    raise KeyError(name)


def partial(name, a):
    if name == "predpos":
        return a[0] - 1 if a[0] > 0 else None
    if name == "half":
        return a[0] // 2 if a[0] % 2 == 0 else None
    if name == "id":
        return a[0]
    raise KeyError(name)


def gen(name, a):
    if name == "upto":
        return list(range(0, max(0, min(a[0], 4))))
    if name == "pair":
        return [a[0], a[1]]
    if name == "range3":
        return [0, 1, 2]
    raise KeyError(name)


def pat_test(pid, v):
    if 20 <= pid <= 29:
        return v == pid - 20
    return {30: 0 <= v <= 2, 31: 1 <= v <= 3, 32: v in (1, 4)}[pid]


def pat_bind(fid, v):
    ok = {110: 0 <= v <= 2, 111: 1 <= v <= 3, 112: v in (1, 4)}[fid]
    return v if ok else None


def ev_vars(e, xs):
    if any(x not in e for x in xs):
        return None
    return [e[x] for x in xs]


def ev_term(e, t):
    if t[0] == "v":
        return e.get(t[1])
    if t[0] == "c":
        return t[1]
    if t[0] == "f":
        vs = ev_vars(e, t[2])
        return None if vs is None else dl.py_fun(t[1], vs)
    raise ValueError(t)


def sat_cond(e, c):
    """-> environment or None"""
    if c[0] == "if":
        vs = ev_vars(e, c[2])
        return e if vs is not None and pred(c[1], vs) else None
    if c[0] == "let":
        vs = ev_vars(e, c[3])
        return None if vs is None else dict(e, **{c[1]: dl.py_fun(c[2], vs)})
    if c[0] == "iflet":
        vs = ev_vars(e, c[3])
        if vs is None:
            return None
        w = partial(c[2], vs)
        return None if w is None else dict(e, **{c[1]: w})
    raise ValueError(c)


def match_clause(e, args, tup):
    if len(args) != len(tup):
        return None
    e = dict(e)
    for a, v in zip(args, tup):
        if a[0] == "w":
            continue
        if a[0] == "p":
            p = a[1]
            if p[0] == "test":
                if not pat_test(p[1], v):
                    return None
            else:
                w = pat_bind(p[2], v)
                if w is None:
                    return None
                e[p[1]] = w
            continue
        if a[0] == "v" and a[1] not in e:
            e[a[1]] = v
            continue
        w = ev_term(e, a)
        if w is None or w != v:
            return None
    return e


def item_envs(db, it, e):
    if it[0] == "clause":
        out = []
        for tup in db.get(it[1], ()):
            e1 = match_clause(e, it[2], tup)
            if e1 is None:
                continue
            for c in it[3]:
                e1 = sat_cond(e1, c)
                if e1 is None:
                    break
            if e1 is not None:
                out.append(e1)
        return out
    if it[0] == "cond":
        e1 = sat_cond(e, it[1])
        return [] if e1 is None else [e1]
    if it[0] == "gen":
        vs = ev_vars(e, it[3])
        return [] if vs is None else [dict(e, **{it[1]: v}) for v in gen(it[2], vs)]
    if it[0] == "neg":
        for tup in db.get(it[1], ()):
            if len(tup) == len(it[2]) and all(a[0] == "w" or (ev_term(e, a) is not None and ev_term(e, a) == v) for a, v in zip(it[2], tup)):
                return []
        return [e]
    if it[0] == "agg":
        _, out, an, bound, rel, args = it
        rows = []
        for tup in sorted(set(db.get(rel, ()))):
            if len(tup) != len(args):
                continue
            ok = True
            for a, v in zip(args, tup):
                if a[0] == "k":
                    w = ev_term(e, a[1])
                    if w is None or w != v:
                        ok = False
                        break
            if ok:
                row = []
                for x in bound:
                    for a, v in zip(args, tup):
                        if a[0] == "b" and a[1] == x:
                            row.append(v)
                            break
                rows.append(row)
        col0 = [r[0] if r else 0 for r in rows]
        if an == "count":
            res = [len(rows)]
        elif an == "sum":
            res = [sum(col0)]
        elif an == "min":
            res = [min(col0)] if col0 else []
        elif an == "max":
            res = [max(col0)] if col0 else []
        elif an == "not":
            res = [0] if not rows else []
        else:
            raise KeyError(an)
        return [dict(e, **{out: v}) if out else e for v in res]
    if it[0] == "disj":
        out = []
        for alt in it[1]:
            out += all_envs(db, alt, e)
        return out
    raise ValueError(it)


def all_envs(db, items, e):
    envs = [e]
    for it in items:
        nxt = []
        for e0 in envs:
            nxt += item_envs(db, it, e0)
        envs = nxt
        if not envs:
            break
    return envs


def derive(db, r):
    out = set()
    for e in all_envs(db, r["body"], {}):
        for rel, args in r["heads"]:
            vs = [ev_term(e, t) for t in args]
            if all(v is not None for v in vs):
                out.add((rel, tuple(vs)))
    return out


def evaluate(p, inp, max_rounds=400):
    """{rel: sorted distinct tuples} of the stratified model of surface program p over input inp"""
    db = {name: set(tuple(t) for t in inp.get(name, [])) for name, _, _ in p["rels"]}
    for comp in engine_tie.stratify(p["rules"]):
        for _ in range(max_rounds):
            new = set()
            for j in comp:
                new |= derive(db, p["rules"][j])
            changed = False
            for rel, t in new:
                if t not in db[rel]:
                    db[rel].add(t)
                    changed = True
            if not changed:
                break
        else:
            raise Fuel()
    return {name: sorted(db[name], key=repr) for name, _, _ in p["rels"]}
