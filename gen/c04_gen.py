"""C04 generator family `recprod` — the aggregated / negated relation is PRODUCED BY A RECURSIVE STRATUM.

What a negation / aggregate of a later stratum ranges over is whatever the producer stratum handed over when its fixpoint loop
ended.  gen_dl.gen_strat_program (single-head rules, relations on levels) never made that hand-over interesting: its producer
strata are mostly non-recursive and a head relation of a recursive stratum is always read inside that stratum.  This family builds

  level 0   input relations e(i32, i32), s(i32) (a small graph and a node set);
  level 1   ONE recursive SCC (left / right / non-linear transitive closure, reachability from s, two mutually recursive relations,
            distance-labelled reachability with a capped counter) whose rules carry EXTRA HEADS into side relations v0, v1, .. of
            arity 1-3 (arguments: body variables - preferably the join variable -, constants, vocabulary functions).  A side
            relation is, at random: written only (read by NO rule of the SCC), also read by a rule of the SCC, also written by a
            non-recursive rule of an earlier SCC, or given input rows; the side head comes first / last / in the middle; the
            non-recursive base rule may carry extra heads too (multi-head rule of a non-looping SCC);
  level 2   consumer rules over EVERY relation of level 1: count / sum / min / max / negation with every mix of bound, constant,
            wildcard and aggregated columns (gen_dl.gen_agg_item), driven by a clause over s / e / a level-1 relation or by nothing
            at all; now and then a plain reader and a recursive consumer (negation inside a loop over a completed lower relation);
  level 3   sometimes: aggregates / negations over the consumers' results.

Inputs: graphs over 6 nodes with several routes of different length between two nodes (diamonds, cycles with tails, random and
dense graphs, chains), so that tuples of the level-1 relations are derived in many different iterations - in particular
iterations that re-derive only known tuples of the recursive relation while the side relations still grow (the last productive
iteration); some inputs also hold rows of the derived relations.  The tie (gen/props/c04.py) adds a second phase of NEARLY
SATURATED inputs: the stratified model of a first-phase input with one level-1 relation reset to its input rows (the fixpoint is
reached at once: the first iteration is the last).

Nothing here knows the specification's answer: the oracle is Engine/Strat.v strat_fix (engine_tie, spec='strat')."""
from . import dl, gen_dl

NODES = list(range(6))
SHAPES = ["tc_left", "tc_left", "tc_right", "tc_nonlinear", "reach", "reach", "mutual", "dist"]


def V(x):
    return ("v", x)


def cl(rel, *xs):
    return ("clause", rel, [V(x) if isinstance(x, str) and x != "_" else (("w",) if x == "_" else ("c", x)) for x in xs], [])


def rule(heads, body):
    return dict(heads=heads, body=body)


def recursive_core(rng, shape):
    """(relations of the recursive SCC, base rules, recursive rules); a rule here = (heads, body, scope, join variables)"""
    if shape == "tc_left":
        rels = [("p", 2, "rel")]
        base = [([("p", [V("x"), V("y")])], [cl("e", "x", "y")], ["x", "y"], ["y"])]
        rec = [([("p", [V("x"), V("z")])], [cl("p", "x", "y"), cl("e", "y", "z")], ["x", "y", "z"], ["y"])]
    elif shape == "tc_right":
        rels = [("p", 2, "rel")]
        base = [([("p", [V("x"), V("y")])], [cl("e", "x", "y")], ["x", "y"], ["y"])]
        rec = [([("p", [V("x"), V("z")])], [cl("e", "x", "y"), cl("p", "y", "z")], ["x", "y", "z"], ["y"])]
    elif shape == "tc_nonlinear":
        rels = [("p", 2, "rel")]
        base = [([("p", [V("x"), V("y")])], [cl("e", "x", "y")], ["x", "y"], ["y"])]
        rec = [([("p", [V("x"), V("z")])], [cl("p", "x", "y"), cl("p", "y", "z")], ["x", "y", "z"], ["y"])]
    elif shape == "reach":
        rels = [("p", 1, "rel")]
        base = [([("p", [V("x")])], [cl("s", "x")], ["x"], ["x"])]
        rec = [([("p", [V("y")])], [cl("p", "x"), cl("e", "x", "y")], ["x", "y"], ["x"])]
    elif shape == "mutual":
        rels = [("p", 2, "rel"), ("q", 2, "rel")]
        base = [([("p", [V("x"), V("y")])], [cl("e", "x", "y")], ["x", "y"], ["y"])]
        rec = [([("q", [V("x"), V("z")])], [cl("p", "x", "y"), cl("e", "y", "z")], ["x", "y", "z"], ["y"]),
               ([("p", [V("x"), V("z")])], [cl("q", "x", "y"), cl("e", "y", "z")], ["x", "y", "z"], ["y"])]
    else:   # dist: reachability labelled with a capped step counter
        rels = [("p", 2, "rel")]
        base = [([("p", [V("x"), ("c", 0)])], [cl("s", "x")], ["x"], ["x"])]
        rec = [([("p", [V("y"), ("f", "incs", ["n"])])], [cl("p", "x", "n"), cl("e", "x", "y")], ["x", "y", "n"], ["x", "n"])]
    return rels, base, rec


def side_args(rng, arity, scope, join):
    """arguments of an extra head: the variable(s) the two body clauses are joined on come first in line (a tuple holding them is
    new whenever the joined delta tuple is, even when the tuple of the recursive relation derived next to it is known already)"""
    args = []
    pool = list(join) + [x for x in scope if x not in join]
    for i in range(arity):
        u = rng.random()
        if i < len(pool) and u < 0.55:
            args.append(V(pool[i]))
        elif u < 0.80:
            args.append(V(rng.choice(scope)))
        elif u < 0.90:
            args.append(("c", rng.choice(gen_dl.DOM)))
        else:
            f = rng.choice(["incs", "addm", "mod3", "decs", "max2"])
            args.append(("f", f, [rng.choice(scope) for _ in range(dl.FUNS[f][1])]))
    if rng.random() < 0.5:
        rng.shuffle(args)
    return args


def place(rng, heads, extra):
    """the extra heads first / last / mixed with the heads of the recursive relation"""
    u = rng.random()
    if u < 0.4:
        return heads + extra
    if u < 0.7:
        return extra + heads
    hs = heads + extra
    rng.shuffle(hs)
    return hs


def consumer_rule(rng, targets, drivers, head_rel, opts=None):
    """head_rel(..) <-- [driver clause,] aggregate / negation over one of `targets` [, one more item]"""
    g = gen_dl.RuleGen(rng, drivers, dict(opts or {}, p_clause_cond=0.1, exprs=False))
    body = []
    u = rng.random()
    if drivers and u < 0.8:
        body.append(g.clause(rng.choice(drivers)))
        if rng.random() < 0.2:
            body.append(g.clause(rng.choice(drivers)))
    body.append(gen_dl.gen_agg_item(rng, g, targets))
    if rng.random() < 0.3:
        body.append(gen_dl.gen_agg_item(rng, g, targets))
    elif g.bound and rng.random() < 0.15:
        body.append(("cond", g.cond_if(g.bound)))
    args = []
    for _ in range(head_rel[1]):
        cands = list(g.bound) + getattr(g, "count_vars", [])
        if cands and rng.random() < 0.9:
            x = rng.choice(cands)
            is_count = any(it[0] == "agg" and it[1] == x and it[2] == "count" for it in body)
            args.append(("f", "asi32", [x]) if is_count else V(x))
        else:
            args.append(("c", rng.choice(gen_dl.DOM)))
    return rule([(head_rel[0], args)], body)


def gen_recprod_program(rng, opts=None):
    opts = dict(opts or {})
    shape = rng.choice(opts.get("shapes", SHAPES))
    rec_rels, base, rec = recursive_core(rng, shape)
    rels = [("e", 2, "rel"), ("s", 1, "rel")] + rec_rels
    nside = rng.choice([1, 1, 2, 2, 3])
    sides = [("v%d" % i, rng.choice([1, 2, 2, 3, 3]), "rel") for i in range(nside)]
    rels += sides
    modes = {}
    rules = []
    # extra heads on the recursive rules (at least one side relation is written by a rule of the looping SCC), sometimes on the base rules
    written_in_loop = set()
    rec_out = []
    for k, (heads, body, scope, join) in enumerate(rec):
        extra = []
        for sd in sides:
            if rng.random() < 0.6 or (k == len(rec) - 1 and not written_in_loop and sd is sides[0]):
                extra.append((sd[0], side_args(rng, sd[1], scope, join)))
                written_in_loop.add(sd[0])
                if rng.random() < 0.15:
                    extra.append((sd[0], side_args(rng, sd[1], scope, join)))     # two heads into the same side relation
        rec_out.append(rule(place(rng, list(heads), extra), list(body)))
    for heads, body, scope, join in base:
        extra = []
        for sd in sides:
            if rng.random() < 0.25:
                extra.append((sd[0], side_args(rng, sd[1], scope, join)))
        rules.append(rule(place(rng, list(heads), extra), list(body)))
    rules += rec_out
    for sd in sides:
        u = rng.random()
        if u < 0.55:
            modes[sd[0]] = "write_only"
        elif u < 0.72:
            # ... also READ by a rule of the SCC (the control group: the relation takes part in the recursion)
            modes[sd[0]] = "read_in_scc"
            r0 = rec_rels[0]
            vs = ["a%d" % i for i in range(sd[1])]
            rules.append(rule([(r0[0], [V(rng.choice(vs)) for _ in range(r0[1])])], [cl(sd[0], *vs)] + ([cl("s", vs[0])] if rng.random() < 0.5 else [])))
        elif u < 0.87:
            # ... also written by a non-recursive rule of an earlier SCC
            modes[sd[0]] = "also_base"
            if sd[1] == 1:
                rules.append(rule([(sd[0], [V("a")])], [cl("s", "a")]))
            else:
                rules.append(rule([(sd[0], [V(rng.choice(["a", "b"])) for _ in range(sd[1])])], [cl("e", "a", "b")]))
        else:
            modes[sd[0]] = "with_input_rows"
    # consumers over every relation of level 1
    level1 = rec_rels + sides
    consumers = []
    drivers1 = [("s", 1, "rel"), ("e", 2, "rel")] + rec_rels
    for t in level1:
        for _ in range(rng.choice([1, 1, 2]) if t in sides else rng.choice([0, 1, 1])):
            c = ("c%d" % len(consumers), rng.choice([1, 2, 2, 3]), "rel")
            consumers.append(c)
            rules.append(consumer_rule(rng, [t], drivers1 if rng.random() < 0.85 else [], c))
    if not consumers:
        c = ("c0", 2, "rel")
        consumers.append(c)
        rules.append(consumer_rule(rng, [sides[0]], drivers1, c))
    rels += consumers
    if rng.random() < 0.35:
        # a plain reader of a side relation next to the aggregates (what a clause sees and what an aggregate sees must be the same relation)
        sd = rng.choice(sides)
        rd = ("rd", sd[1], "rel")
        rels.append(rd)
        vs = ["y%d" % i for i in range(sd[1])]
        rules.append(rule([("rd", [V(v) for v in vs])], [cl(sd[0], *vs)]))
    if rng.random() < 0.3:
        # a recursive consumer: negation / aggregate over a completed level-1 relation inside a looping SCC of level 2
        c = rng.choice(consumers)
        g = gen_dl.RuleGen(rng, [c, ("e", 2, "rel")], dict(p_clause_cond=0.0, exprs=False, wild=False))
        body = [g.clause(c), g.clause(("e", 2, "rel")), gen_dl.gen_agg_item(rng, g, [rng.choice(sides)])]
        if g.bound:
            rules.append(rule([(c[0], [V(rng.choice(g.bound)) for _ in range(c[1])])], body))
    if rng.random() < 0.4:
        # level 3: aggregates / negations over the consumers' results
        t = ("t0", rng.choice([1, 2]), "rel")
        rels.append(t)
        rules.append(consumer_rule(rng, consumers, [("s", 1, "rel"), ("e", 2, "rel")] + consumers[:1], t))
    rng.shuffle(rules)
    return dict(rels=rels, rules=rules, shape="recprod_" + shape, side_modes=modes, level1=[r[0] for r in level1], sides=[s[0] for s in sides],
                written_in_loop=sorted(written_in_loop))


# ------------------------------------------------------------------ inputs

def gen_graph(rng, style=None):
    """edges over NODES; most styles connect two nodes by routes of different length"""
    style = style or rng.choice(["diamond", "diamond", "cycle", "cycle", "random", "random", "dense", "chain", "tiny"])
    n = len(NODES)
    es = []
    if style == "diamond":
        perm = list(NODES)
        rng.shuffle(perm)
        a, b = perm[0], perm[1]
        mids = perm[2:]
        k1 = rng.choice([0, 1, 1])
        k2 = rng.choice([k1 + 1, k1 + 1, k1 + 2])
        r1 = [a] + mids[:k1] + [b]
        r2 = [a] + mids[k1:k1 + k2] + [b]
        es = list(zip(r1, r1[1:])) + list(zip(r2, r2[1:]))
        for _ in range(rng.choice([0, 0, 1, 2])):
            es.append((rng.choice(NODES), rng.choice(NODES)))
    elif style == "cycle":
        perm = list(NODES)
        rng.shuffle(perm)
        k = rng.choice([1, 2, 3, 4])
        cyc = perm[:k]
        es = list(zip(cyc, cyc[1:] + cyc[:1]))
        tail = perm[k:k + rng.choice([0, 1, 2])]
        if tail:
            es += list(zip([rng.choice(cyc)] + tail, tail)) if rng.random() < 0.5 else list(zip(tail, tail[1:] + [rng.choice(cyc)]))
        for _ in range(rng.choice([0, 1])):
            es.append((rng.choice(NODES), rng.choice(NODES)))
    elif style == "random":
        es = [(rng.choice(NODES), rng.choice(NODES)) for _ in range(rng.choice([3, 4, 5, 6, 8]))]
    elif style == "dense":
        es = [(rng.choice(NODES), rng.choice(NODES)) for _ in range(rng.choice([10, 13, 16]))]
    elif style == "chain":
        st = rng.choice([0, 1])
        es = [(k, k + 1) for k in range(st, st + rng.choice([2, 3, 4]))]
        if rng.random() < 0.5:
            es.append((st, st + 2))          # a shortcut: two routes of different length
    else:
        es = [(rng.choice(NODES), rng.choice(NODES)) for _ in range(rng.choice([0, 1, 1, 2]))]
    rng.shuffle(es)
    return list(dict.fromkeys(es)), style


def gen_recprod_input(rng, p, style=None):
    es, style = gen_graph(rng, style)
    srcs = sorted({a for a, _ in es}) or NODES
    k = rng.choice([0, 1, 1, 2, 3])
    s = list(dict.fromkeys([(rng.choice(srcs),) if rng.random() < 0.8 else (rng.choice(NODES),) for _ in range(k)]))
    inp = {name: [] for name, _, _ in p["rels"]}
    inp["e"], inp["s"] = es, s
    ar = {n: a for n, a, _ in p["rels"]}
    for name in p["level1"]:
        if p["side_modes"].get(name) == "with_input_rows" or rng.random() < 0.12:
            rows = [tuple(rng.choice(gen_dl.DOM) for _ in range(ar[name])) for _ in range(rng.choice([1, 2, 3]))]
            inp[name] = list(dict.fromkeys(rows))
    return inp, style


def gen_cases(rng, n, ninp, prefix="c04rp"):
    cases = []
    for i in range(n):
        p = gen_recprod_program(rng)
        inputs, styles = [], []
        for _ in range(ninp):
            inp, st = gen_recprod_input(rng, p)
            inputs.append(inp)
            styles.append(st)
        cases.append(dict(id="%s_%d" % (prefix, i), prog=p, inputs=inputs, styles=styles, family="recprod"))
    return cases


def saturated_inputs(rng, p, inp, model_facts, limit=2):
    """nearly saturated inputs: everything the stratified model holds for the relations of levels 0 and 1 (the consumers start
    empty), with ONE level-1 relation reset to its input rows; that relation is re-derived by a run whose first iteration is the last"""
    by = {}
    for r, t in model_facts:
        by.setdefault(r, []).append(tuple(t))
    keep = ["e", "s"] + list(p["level1"])
    cands = [n for n in p["level1"] if len(set(by.get(n, []))) > len(inp.get(n, []))]
    if not cands:
        return []
    pref = [n for n in cands if n in p["sides"]] or cands
    out = []
    for _ in range(limit):
        reset = rng.choice(pref if rng.random() < 0.75 else cands)
        ni = {name: [] for name, _, _ in p["rels"]}
        for name in keep:
            rows = list(dict.fromkeys(by.get(name, [])))
            rng.shuffle(rows)
            ni[name] = rows
        ni[reset] = list(inp.get(reset, []))
        if ni not in out:
            out.append(ni)
    return out
