"""C10, PROG half: Ascent programs with a `#[ds(ascent_byods_rels::eqrel)]` relation vs the same program
with a plain relation plus the explicit reflexivity / symmetry / transitivity rules.

expected result = the specification oracle (Engine/Sem.v naive_fix / Engine/Strat.v strat_fix, evaluated in
Coq) on the EXPLICIT program; observed = every plain relation of the TAGGED program after run() (the
tagged relation's own field is a FakeVec and is observed through rules that read it)."""
from . import dl, engine_tie, lib, prog

PROVIDER = "ascent_byods_rels::eqrel"
FUEL = 400
PRELUDE = engine_tie.PRELUDE


def V(x):
    return ("v", x)


def C(n):
    return ("c", n)


W = ("w",)


def cl(rel, terms, conds=()):
    return ("clause", rel, list(terms), list(conds))


def rule(heads, body):
    return dict(heads=[(r, list(a)) for r, a in heads], body=list(body))


# ------------------------------------------------------------------ program construction

READ_PATTERNS = {
    # name: bound columns (of the ternary form k, x, y; the binary form drops k)
    2: {"none": (), "c0": ("x",), "c1": ("y",), "c01": ("x", "y")},
    3: {"none": (), "k": ("k",), "x": ("x",), "y": ("y",), "kx": ("k", "x"), "ky": ("k", "y"), "xy": ("x", "y"), "kxy": ("k", "x", "y")},
}
BINDER = {(): None, ("k",): "pk", ("x",): "p1", ("y",): "p1", ("k", "x"): "pkt", ("k", "y"): "pkt", ("x", "y"): "p2", ("k", "x", "y"): "pktt"}


def build(cfg):
    """cfg = dict(arity=2|3, feed=..., reads=[(pattern, order, place, form)], extra=[...]) -> (tagged, explicit) programs"""
    ar = cfg["arity"]
    cols = ["k", "x", "y"] if ar == 3 else ["x", "y"]
    kk = ["k"] if ar == 3 else []
    rels = [("eq", ar, ("ds", PROVIDER)), ("seed", ar, "rel"), ("e", 2, "rel"), ("p1", 1, "rel"), ("p2", 2, "rel")]
    if ar == 3:
        rels += [("pk", 1, "rel"), ("pkt", 2, "rel"), ("pktt", 3, "rel")]
    rules = []
    feed = cfg["feed"]
    eqv = lambda *t: cl("eq", [V(c) for c in kk] + list(t))       # noqa: E731
    eqh = lambda *t: ("eq", [V(c) for c in kk] + list(t))         # noqa: E731
    rules.append(rule([eqh(V("x"), V("y"))], [cl("seed", [V(c) for c in cols])]))
    if feed == "rec_edge":
        # grows along e: facts for the same key arrive over many iterations
        rules.append(rule([eqh(V("y"), V("z"))], [eqv(V("y"), W), cl("e", [V("y"), V("z")])]))
    elif feed == "rec_mid":
        rels.append(("mid", ar, "rel"))
        # eq(.., x, y), e(y, z): a simple join sharing only the last column (index [2] of the ternary form)
        rules.append(rule([("mid", [V(c) for c in kk] + [V("x"), V("z")])], [eqv(V("x"), V("y")), cl("e", [V("y"), V("z")])]))
        rules.append(rule([eqh(V("x"), V("z"))], [cl("mid", [V(c) for c in kk] + [V("x"), V("z")])]))
    elif feed == "sched":
        # a clock inside the recursive stratum releases facts of different keys at different iterations
        rels += [("tick", 1, "rel"), ("nxt", 2, "rel"), ("sched", ar, "rel")]
        rules.append(rule([("tick", [V("m")])], [cl("tick", [V("n")]), cl("nxt", [V("n"), V("m")]), eqv(W, W) if ar == 2 else cl("eq", [W, W, W])]))
        rules.append(rule([eqh(V("x"), V("y"))], [cl("tick", [V("n")]), cl("sched", [V("n")] + [V(c) for c in kk] + [V("x")]), cl("e", [V("x"), V("y")])]))
    elif feed == "two_strata":
        # the relation is in the head of rules of two different strata
        rels.append(("seed2", ar, "rel"))
        rules.append(rule([eqh(V("x"), V("y"))], [cl("seed2", [V(c) for c in cols])]))
    elif feed != "plain":
        raise ValueError(feed)
    for i, (pat, order, place, form) in enumerate(cfg["reads"]):
        bound = READ_PATTERNS[ar][pat]
        out = "out%d" % i
        rels.append((out, ar, "rel"))
        args = []
        for c in cols:
            args.append(V(c))
        eq_clause = cl("eq", args)
        if form == "const" and bound:
            # the bound columns are constants instead of variables bound by another clause
            cargs = [C(1) if c in bound else V(c) for c in cols]
            body = [cl("eq", cargs)]
            head = [C(1) if c in bound else V(c) for c in cols]
            rules.append(rule([(out, head)], body))
        elif form == "repeat" and "x" not in bound and "y" not in bound:
            rargs = [V("x") if c == "y" else V(c) for c in cols]
            body = [cl("eq", rargs)]
            b = BINDER[bound]
            if b:
                body = [cl(b, [V(c) for c in bound])] + body if order == "binder_first" else body + [cl(b, [V(c) for c in bound])]
            rules.append(rule([(out, rargs)], body))
        else:
            b = BINDER[bound]
            body = [eq_clause]
            if b:
                binder = cl(b, [V(c) for c in bound])
                body = [binder, eq_clause] if order == "binder_first" else [eq_clause, binder]
            rules.append(rule([(out, [V(c) for c in cols])], body))
        if place == "inside":
            # out ⊆ eq: feeding it back adds nothing but pulls the reading rule into eq's recursive stratum
            rules.append(rule([("eq", rules[-1]["heads"][0][1])], [cl(out, rules[-1]["heads"][0][1])]))
    for ex in cfg.get("extra", []):
        if ex == "join":
            rels.append(("jn", ar, "rel"))
            rules.append(rule([("jn", [V(c) for c in kk] + [V("x"), V("z")])], [eqv(V("x"), V("y")), eqv(V("y"), V("z")), cl("p1", [V("x")])]))
        elif ex == "count":
            rels.append(("cnt", ar, "rel"))
            aargs = [("k", V(c)) for c in kk] + [("k", V("x")), ("w",)]
            binder = cl("pkt", [V("k"), V("x")]) if ar == 3 else cl("p1", [V("x")])
            rules.append(rule([("cnt", [V(c) for c in kk] + [V("x"), ("f", "asi32", ["c"])])], [binder, ("agg", "c", "count", [], "eq", aargs)]))
        elif ex == "neg":
            rels.append(("ne", ar, "rel"))
            binder = cl("pktt", [V("k"), V("x"), V("y")]) if ar == 3 else cl("p2", [V("x"), V("y")])
            rules.append(rule([("ne", [V(c) for c in cols])], [binder, ("neg", "eq", [V(c) for c in cols])]))
        else:
            raise ValueError(ex)
    tagged = dict(rels=rels, rules=rules)
    # explicit version: plain relation + closure rules
    erels = [(n, a, "rel" if n == "eq" else k) for n, a, k in rels]
    kv = [V(c) for c in kk]
    closure = [
        rule([("eq", kv + [V("x"), V("x")]), ("eq", kv + [V("y"), V("y")]), ("eq", kv + [V("y"), V("x")])], [cl("eq", kv + [V("x"), V("y")])]),
        rule([("eq", kv + [V("x"), V("z")])], [cl("eq", kv + [V("x"), V("y")]), cl("eq", kv + [V("y"), V("z")])]),
    ]
    explicit = dict(rels=erels, rules=rules + closure)
    return tagged, explicit


def gen_input(rng, cfg):
    ar = cfg["arity"]
    nk = rng.choice([1, 2, 3])
    dom = rng.choice([4, 5, 6])
    T = list(range(dom))
    K = list(range(nk))

    def some(n, mk):
        return sorted({mk() for _ in range(n)})
    tup = (lambda: (rng.choice(K), rng.choice(T), rng.choice(T))) if ar == 3 else (lambda: (rng.choice(T), rng.choice(T)))
    style = rng.choice(["sparse", "sparse", "dense", "empty", "self"])
    nseed = {"sparse": rng.randint(1, 4), "dense": rng.randint(5, 9), "empty": 0, "self": 2}[style]
    inp = dict(seed=some(nseed, tup))
    if style == "self":
        inp["seed"] = sorted({t[:-1] + (t[-2],) for t in inp["seed"]})
    # a chain plus a few random edges: recursive feeds need many iterations
    inp["e"] = sorted(set([(i, i + 1) for i in range(dom - 1) if rng.random() < 0.8] + some(rng.randint(0, 2), lambda: (rng.choice(T), rng.choice(T)))))
    inp["p1"] = some(rng.randint(0, 3), lambda: (rng.choice(T + [dom]),))
    inp["p2"] = some(rng.randint(0, 6), lambda: (rng.choice(T), rng.choice(T)))
    if ar == 3:
        inp["pk"] = some(rng.randint(0, 2), lambda: (rng.choice(K + [nk]),))
        inp["pkt"] = some(rng.randint(0, 4), lambda: (rng.choice(K), rng.choice(T)))
        inp["pktt"] = some(rng.randint(0, 6), lambda: (rng.choice(K), rng.choice(T), rng.choice(T)))
    if cfg["feed"] == "sched":
        n = rng.randint(2, 5)
        inp["tick"] = [(0,)]
        inp["nxt"] = [(i, i + 1) for i in range(n)]
        inp["sched"] = some(rng.randint(1, 6), (lambda: (rng.randrange(n + 1), rng.choice(K), rng.choice(T))) if ar == 3 else (lambda: (rng.randrange(n + 1), rng.choice(T))))
        if not inp["seed"]:
            inp["seed"] = [tup()]
    if cfg["feed"] == "two_strata":
        inp["seed2"] = some(rng.randint(1, 4), tup)
    return inp


FEEDS = ["plain", "rec_edge", "rec_mid", "sched", "two_strata"]


def gen_cfg(rng, arity, feed, par=False):
    # every subset of bound columns, incl. "y" of the ternary form (index [2], repair 0f251c7) and both columns of
    # the parallel binary form (repair bfc5173)
    pats = sorted(READ_PATTERNS[arity])
    n = rng.randint(2, 4)
    reads = []
    for pat in rng.sample(pats, min(n, len(pats))):
        order = rng.choice(["binder_first", "eq_first"])
        place = rng.choice(["after", "inside"]) if feed != "plain" else rng.choice(["after", "after", "inside"])
        form = rng.choice(["var", "var", "var", "const", "repeat"])
        reads.append((pat, order, place, form))
    extra = []
    u = rng.random()
    if u < 0.25:
        extra.append("join")
    elif u < 0.40:
        extra.append("count")
    elif u < 0.55:
        extra.append("neg")
    return dict(arity=arity, feed=feed, reads=reads, extra=extra, par=par)


def gen_cases(tier, seed, prop="C10"):
    rng = lib.rng_for(seed, prop, "prog")
    quick = tier == "quick"
    cases = []
    reps = 2 if quick else 20
    ninp = 3 if quick else 4
    for rep in range(reps):
        for arity in (2, 3):
            for feed in FEEDS:
                for par in ((False, True) if arity == 2 else (False,)):
                    cfg = gen_cfg(rng, arity, feed, par)
                    cases.append(dict(id="c10_%d" % len(cases), cfg=cfg, inputs=[gen_input(rng, cfg) for _ in range(ninp)]))
    return cases


# ------------------------------------------------------------------ F2 probe and fixed witnesses

def fixed_cases():
    """the witnesses of DESIGN section 6 (F1, F2) and of the findings of this check (all fixed in /repo): must-pass cases"""
    out = []
    # F1: eq(k,b,c) <-- keys(k), eq(k,_,b), next(b,c)   seed (0,1,2), next 2->3->4->5
    rels = [("eq", 3, ("ds", PROVIDER)), ("seed", 3, "rel"), ("pk", 1, "rel"), ("e", 2, "rel"), ("out0", 3, "rel")]
    rules = [rule([("eq", [V("k"), V("x"), V("y")])], [cl("seed", [V("k"), V("x"), V("y")])]),
             rule([("eq", [V("k"), V("b"), V("c")])], [cl("pk", [V("k")]), cl("eq", [V("k"), W, V("b")]), cl("e", [V("b"), V("c")])]),
             rule([("out0", [V("k"), V("x"), V("y")])], [cl("eq", [V("k"), V("x"), V("y")])])]
    out.append(dict(id="c10_w_f1", raw=(rels, rules), inputs=[dict(seed=[(0, 1, 2)], pk=[(0,)], e=[(2, 3), (3, 4), (4, 5)])],
                    cfg=dict(arity=3, feed="witness_f1", reads=[], extra=[], par=False)))
    # F2: the access pattern [2] of the ternary form
    rels = [("eq", 3, ("ds", PROVIDER)), ("seed", 3, "rel"), ("p1", 1, "rel"), ("out0", 3, "rel")]
    rules = [rule([("eq", [V("k"), V("x"), V("y")])], [cl("seed", [V("k"), V("x"), V("y")])]),
             rule([("out0", [V("k"), V("x"), V("y")])], [cl("p1", [V("y")]), cl("eq", [V("k"), V("x"), V("y")])])]
    out.append(dict(id="c10_w_f2", raw=(rels, rules), inputs=[dict(seed=[(0, 1, 2)], p1=[(2,)])],
                    cfg=dict(arity=3, feed="witness_f2", reads=[("y", "binder_first", "after", "var")], extra=[], par=False)))
    # [1,2] simple join through iter_all
    rels = [("eq", 3, ("ds", PROVIDER)), ("seed", 3, "rel"), ("p2", 2, "rel"), ("out0", 3, "rel")]
    rules = [rule([("eq", [V("k"), V("x"), V("y")])], [cl("seed", [V("k"), V("x"), V("y")])]),
             rule([("out0", [V("k"), V("x"), V("y")])], [cl("eq", [V("k"), V("x"), V("y")]), cl("p2", [V("x"), V("y")])])]
    out.append(dict(id="c10_w_i12", raw=(rels, rules), inputs=[dict(seed=[(1, 2, 0), (1, 1, 3)], p2=[(0, 1), (2, 0), (3, 3), (0, 3), (1, 2), (2, 3), (1, 0), (3, 2), (3, 0)])],
                    cfg=dict(arity=3, feed="witness_i12", reads=[("xy", "eq_first", "after", "var")], extra=[], par=False)))
    # parallel binary form read with both columns bound
    rels = [("eq", 2, ("ds", PROVIDER)), ("seed", 2, "rel"), ("p2", 2, "rel"), ("out0", 2, "rel")]
    rules = [rule([("eq", [V("x"), V("y")])], [cl("seed", [V("x"), V("y")])]),
             rule([("out0", [V("x"), V("y")])], [cl("p2", [V("x"), V("y")]), cl("eq", [V("x"), V("y")])])]
    out.append(dict(id="c10_w_parfull", raw=(rels, rules), inputs=[dict(seed=[(1, 2)], p2=[(2, 1), (1, 3)])],
                    cfg=dict(arity=2, feed="witness_parfull", reads=[("c01", "binder_first", "after", "var")], extra=[], par=True)))
    return out


def programs_of(case):
    if "raw" in case:
        rels, rules = case["raw"]
        tagged = dict(rels=rels, rules=rules)
        ar = [a for n, a, _ in rels if n == "eq"][0]
        kv = [V("k")] if ar == 3 else []
        closure = [
            rule([("eq", kv + [V("x"), V("x")]), ("eq", kv + [V("y"), V("y")]), ("eq", kv + [V("y"), V("x")])], [cl("eq", kv + [V("x"), V("y")])]),
            rule([("eq", kv + [V("x"), V("z")])], [cl("eq", kv + [V("x"), V("y")]), cl("eq", kv + [V("y"), V("z")])]),
        ]
        return tagged, dict(rels=[(n, a, "rel" if n == "eq" else k) for n, a, k in rels], rules=rules + closure)
    return build(case["cfg"])


# ------------------------------------------------------------------ running

def spec_exprs(explicit, inputs):
    R = dl.Names()
    for name, _, _ in explicit["rels"]:
        R(name)
    strata = dl.coq_list(dl.coq_list(dl.coq_rule(explicit["rules"][j], R) for j in comp) for comp in engine_tie.stratify(explicit["rules"]))
    exprs = []
    for inp in inputs:
        f0 = dl.coq_facts(engine_tie.facts_of_input(inp, explicit["rels"]), R)
        exprs.append("strat_fix std_interp %d%%nat %s %s" % (FUEL, strata, f0))
    inv = {v: k for k, v in R.d.items()}
    return exprs, inv


def eq_strata_info(tagged):
    """(eq is written in a looping stratum that also reads it / some stratum loops, number of strata with eq in a head)"""
    comps = engine_tie.stratify(tagged["rules"])
    nhead, rec = 0, False
    for comp in comps:
        heads, bodies = set(), set()
        for j in comp:
            h, b = engine_tie.rule_rels(tagged["rules"][j])
            heads |= set(h)
            bodies |= set(b)
        if "eq" in heads:
            nhead += 1
            if heads & bodies:
                rec = True
    return rec, nhead


def run_cases(cases, tag="c10"):
    """-> list of dict(case, tagged_text, explicit_text, impl (per input), impl_explicit, spec (per input: {rel: sorted tuples}))"""
    jobs, progs = [], {}
    for c in cases:
        tagged, explicit = programs_of(c)
        progs[c["id"]] = (tagged, explicit)
        scripts = [[("set", inp), ("run",), ("snap",)] for inp in c["inputs"]]
        macro = "ascent_par" if c["cfg"].get("par") else "ascent"
        jobs.append(dict(id=c["id"] + "_t", text=dl.rust_program_text(tagged), macro=macro, rels=tagged["rels"], scripts=scripts))
        jobs.append(dict(id=c["id"] + "_e", text=dl.rust_program_text(explicit), macro=macro, rels=explicit["rels"], scripts=scripts))
    impl = prog.build_and_run(tag, jobs, run_timeout=90)
    # a program that does not terminate takes the other jobs of its binary with it: run those again, one binary each
    late = [j for j in jobs if any(isinstance(r, dict) and (r.get("timeout") or r.get("crash")) for r in impl.get(j["id"], [dict(timeout=True)]))]
    if late:
        impl.update(prog.build_and_run(tag + "r", late, nbins=len(late), run_timeout=25))
    groups, invs = [], []
    for c in cases:
        ex, inv = spec_exprs(progs[c["id"]][1], c["inputs"])
        groups.append(ex)
        invs.append(inv)
    vals = lib.coq_eval_groups(tag + "s", PRELUDE, groups, timeout=120)
    out = []
    for c, v, inv in zip(cases, vals, invs):
        tagged, explicit = progs[c["id"]]
        spec = None
        if v is not None:
            spec = []
            for s in v:
                facts = engine_tie.decode_facts(s, inv)
                spec.append(None if facts is None else {n: g[1] for n, g in engine_tie.group_facts(facts, explicit["rels"]).items()})
        out.append(dict(case=c, tagged=tagged, explicit=explicit, tagged_text=dl.rust_program_text(tagged), explicit_text=dl.rust_program_text(explicit),
                        impl=impl.get(c["id"] + "_t"), impl_explicit=impl.get(c["id"] + "_e"), spec=spec))
    return out


def classify(r, k, missing, extra, failure):
    """known-finding key for a PROG mismatch: none — the classes found by this check are fixed in /repo"""
    return None


def reads_both_columns(tagged):
    """some body clause / negation / aggregate of the binary tagged relation has both columns bound when it is reached"""
    for ru in tagged["rules"]:
        bound = set()
        b = ru["body"]
        sj = len(b) >= 2 and b[0][0] == "clause" and b[1][0] == "clause" and all(t[0] in ("v", "w") for t in b[0][2] + b[1][2])
        for i, it in enumerate(b):
            if it[0] == "clause":
                args = it[2]
                if it[1] == "eq":
                    here = bound | ({t[1] for t in b[1][2] if t[0] == "v"} if (sj and i == 0) else set())
                    if sj and i == 1:
                        here = here | {t[1] for t in b[0][2] if t[0] == "v"}
                    if all(t[0] == "c" or (t[0] == "v" and t[1] in here) for t in args):
                        return True
                    if len(args) == 2 and args[0][0] == "v" and args[0] == args[1] and False:
                        return True
                bound |= {t[1] for t in args if t[0] == "v"}
            elif it[0] == "neg" and it[1] == "eq":
                return True
            elif it[0] == "agg" and it[4] == "eq" and all(a[0] == "k" for a in it[5]):
                return True
    return False


def uses_i12_iter_all(tagged):
    for ru in tagged["rules"]:
        b = ru["body"]
        if len(b) >= 2 and b[0][0] == "clause" and b[1][0] == "clause":
            for c1, c2 in ((b[0], b[1]), (b[1], b[0])):
                if c1[1] == "eq" and len(c1[2]) == 3 and all(t[0] in ("v", "w") for t in c1[2] + c2[2]):
                    v2 = {t[1] for t in c2[2] if t[0] == "v"}
                    shared = [i for i, t in enumerate(c1[2]) if t[0] == "v" and t[1] in v2]
                    if shared == [1, 2]:
                        return True
    return False


def compare(r):
    """mismatch dicts of one case"""
    mism = []
    c = r["case"]
    base = dict(id=c["id"], cfg=c["cfg"], program=r["tagged_text"], explicit_program=r["explicit_text"])
    if r["spec"] is None:
        return mism, 0      # oracle exceeded its time budget: not counted
    checked = 0
    for k, inp in enumerate(c["inputs"]):
        cs = dict(base, input=inp)
        spec = r["spec"][k]
        if spec is None:
            raise lib.Infra("specification oracle ran out of fuel on %s" % c["id"])
        # sanity: the explicit program through the real engine agrees with the oracle (C01's subject)
        ie = r["impl_explicit"][k] if r["impl_explicit"] else None
        if ie is None or "snaps" not in ie:
            raise lib.Infra("explicit program of %s did not run (C01's subject, not C10's): %s\n%s" % (c["id"], ie, r["explicit_text"]))
        esnap = prog.canon_snap(ie["snaps"][-1])
        for name, _, kind in r["explicit"]["rels"]:
            if esnap[name][1] != spec[name]:
                raise lib.Infra("explicit program through the real engine differs from the oracle on %s (%s): this is C01's subject, not C10's\n%s" % (name, c["id"], r["explicit_text"]))
        it = r["impl"][k] if r["impl"] else None
        checked += 1
        if it is None or "snaps" not in it:
            kn = classify(r, k, None, None, it or dict(crash="no result"))
            mism.append(dict(case=cs, impl=it, model=None, spec="the tagged program must compile and run like the explicit one", kind="impl_violates_spec", known=kn,
                             what="tagged program did not produce a result: %s" % str(it)[:400]))
            continue
        tsnap = prog.canon_snap(it["snaps"][-1])
        for name, _, kind in r["tagged"]["rels"]:
            if name == "eq":
                continue
            ilen, iset = tsnap[name]
            want = spec[name]
            if iset != want or ilen != len(want):
                missing = [t for t in want if t not in iset]
                extra = [t for t in iset if t not in want]
                kn = classify(r, k, missing, extra, None)
                mism.append(dict(case=cs, impl={name: dict(len=ilen, tuples=iset)}, model=None, spec={name: want}, kind="impl_violates_spec", known=kn,
                                 what="relation %s of the tagged program: %d rows; missing %s; not derivable from the explicit closure %s" % (name, ilen, missing[:6], extra[:6])))
                break
    return mism, checked
