"""C17, function level: ONE aggregator value applied to a SEQUENCE of inputs (harness/ds_driver suite `aggseq`).

The other families build a fresh aggregator for every case; here `let f = percentile(p);` / `let f = min;` ... is bound
once and `f` is applied to 2-5 inputs in a row.  Every result is compared with
  * the definition on ITS OWN input (python oracle below; `kind='impl_violates_spec'`), and
  * the Coq model of an aggregator value applied to a sequence, Agg/AggStateless.v `agg_seq` (= the definition per input:
    Agg/AggStatelessLaws.v agg_seq_independent; `kind='model_differs'`).
Sequence shapes: non-empty then empty, empty first, long then short, short then long, the same input repeated, the same
multiset in another order, disjoint value ranges (a leftover of an earlier input is no element of a later one),
alternating with empty inputs, random.
"""
import itertools
from fractions import Fraction

from . import lib

PRELUDE = ("From Coq Require Import List ZArith.\nFrom AV Require Import Agg.AggModel.\nFrom AV Require Import Agg.AggClauseModel.\n"
           "From AV Require Import Agg.AggStateless.\nImport ListNotations.\nOpen Scope Z_scope.\n")

# dyadic p (exact in f64) and integer p (exact for the lengths used: gen/props/c17.py, rank sweep)
PS = [(50, 1), (0, 1), (100, 1), (25, 1), (75, 1), (90, 1), (99, 1), (1, 1), (33, 1), (25, 2), (199, 2), (399, 4)]
ITER_KINDS = ["exact", "filter", "chain", "flat", "mixed", "mixedrev"]
ORD_TYPES = ["i8", "i16", "i32", "i64", "u8", "u16", "u32", "u64"]
MEAN_TYPES = ["i8", "i16", "i32", "u8", "u16", "u32"]
SHAPES = ["nonempty-then-empty", "empty-first", "long-then-short", "short-then-long", "repeated", "same-multiset-reordered",
          "disjoint-ranges", "alternating-with-empty", "random"]


def aggs_for_exhaustive():
    out = [("min", (0, 1)), ("max", (0, 1)), ("sum", (0, 1)), ("mean", (0, 1))]
    out += [("percentile", p) for p in PS]
    return out


def rand_list(rng, n, lo, hi):
    return [rng.randint(lo, hi) for _ in range(n)]


def shaped_sequence(rng, shape, lo, hi, maxlen):
    """2-5 inputs of the given shape, values in lo..hi"""
    k = rng.randint(2, 5)
    lens_pool = [x for x in (1, 2, 3, 4, 5, 8, 13, 20, 50) if x <= maxlen]
    ne = lambda: rand_list(rng, rng.choice(lens_pool), lo, hi)
    if shape == "nonempty-then-empty":
        s = [ne() for _ in range(rng.randint(1, k - 1))]
        return s + [[] for _ in range(k - len(s))]
    if shape == "empty-first":
        return [[]] + [ne() if rng.random() < 0.8 else [] for _ in range(k - 1)]
    if shape in ("long-then-short", "short-then-long"):
        lens = sorted(rng.sample(lens_pool + [0], min(k, len(lens_pool) + 1)), reverse=(shape == "long-then-short"))
        return [rand_list(rng, n, lo, hi) for n in lens]
    if shape == "repeated":
        l = ne()
        return [list(l) for _ in range(k)]
    if shape == "same-multiset-reordered":
        l = ne()
        out = []
        for _ in range(k):
            m = list(l)
            rng.shuffle(m)
            out.append(m)
        return out
    if shape == "disjoint-ranges":
        # consecutive inputs live in disjoint bands of lo..hi, in random band order
        k = min(k, hi - lo + 1)
        width = max(1, (hi - lo + 1) // k)
        bands = list(range(k))
        rng.shuffle(bands)
        return [rand_list(rng, rng.choice(lens_pool), lo + b * width, min(hi, lo + (b + 1) * width - 1)) for b in bands]
    if shape == "alternating-with-empty":
        return [ne() if i % 2 == 0 else [] for i in range(k)]
    return [rand_list(rng, rng.choice([0] + lens_pool), lo, hi) for _ in range(k)]


def gen_cases(tier, seed):
    rng = lib.rng_for(seed, "C17", "seq")
    cases = []
    # exhaustive: every pair of lists over {0,1,2} of length <= 2, every aggregator with a column
    small = [list(l) for n in range(3) for l in itertools.product([0, 1, 2], repeat=n)]
    for (name, p) in aggs_for_exhaustive():
        for a in small:
            for b in small:
                cases.append(dict(family="seq", shape="exhaustive-pairs", name=name, p=p, kind="exact", seq=[a, b]))
    # count / not: only the lengths matter; every pair and triple of lengths under each iterator shape
    lens = [0, 1, 2, 3, 5]
    for name in ("count", "not"):
        for kind in ITER_KINDS:
            for ls in list(itertools.product(lens, repeat=2)) + (list(itertools.product(lens, repeat=3)) if tier != "quick" else
                                                              [tuple(rng.choice(lens) for _ in range(3)) for _ in range(15)]):
                cases.append(dict(family="seq", shape="exhaustive-lengths", name=name, p=(0, 1), kind=kind, seq=[list(range(n)) for n in ls]))
    # shaped random sequences
    per_shape = 120 if tier == "quick" else 900
    names = ["percentile", "percentile", "percentile", "min", "max", "sum", "mean", "count", "not"]
    for shape in SHAPES:
        for j in range(per_shape):
            name = names[j % len(names)]
            typed = rng.random() < 0.25
            ty = None
            lo, hi, maxlen = rng.choice([(-1000, 1000, 50), (0, 3, 50), (-5, 5, 20)])
            if typed:
                ty = rng.choice(MEAN_TYPES if name == "mean" else (["u8", "i32", "i64"] if name in ("count", "not") else ORD_TYPES))
                lo, hi, maxlen = (0, 5, 20) if name == "sum" else (0, 100, 50)       # sum: every total stays inside i8
            p = (rng.choice(PS) if rng.random() < 0.6 else (rng.randint(0, 100), 1)) if name == "percentile" else (0, 1)
            kind = rng.choice(ITER_KINDS) if name in ("count", "not") else "exact"
            c = dict(family="seq", shape=shape, name=name, p=p, kind=kind, seq=shaped_sequence(rng, shape, lo, hi, maxlen))
            if ty:
                c["ty"] = ty
            cases.append(c)
    return cases


def case_line(c):
    name = c["name"] + ("@" + c["ty"] if c.get("ty") else "")
    return "%s %d %d %s %s" % (name, c["p"][0], c["p"][1], c["kind"], " | ".join(" ".join(map(str, l)) for l in c["seq"]))


def parse_impl(c, line):
    """[(result, hint)] per application; result = ('ok', [values]) | 'panic'"""
    parts = [x.strip() for x in line.split("|")]
    if len(parts) != len(c["seq"]):
        raise lib.Infra("ds_driver aggseq: %d inputs, %d results: %r" % (len(c["seq"]), len(parts), line))
    out = []
    for part in parts:
        if part == "panic":
            out.append(("panic", None))
            continue
        toks = part.split()
        assert toks and toks[0] == "ok", line
        hint = None
        if "hint" in toks:
            i = toks.index("hint")
            hint = (int(toks[i + 1]), None if toks[i + 2] == "none" else int(toks[i + 2]))
            toks = toks[:i]
        vals = toks[1:]
        out.append((("ok", [float(v) for v in vals] if c["name"] == "mean" else [int(v) for v in vals]), hint))
    return out


def spec_one(name, p, l):
    """the definition on ONE input, independent of model and code"""
    if name == "min":
        return ("ok", [min(l)] if l else [])
    if name == "max":
        return ("ok", [max(l)] if l else [])
    if name == "sum":
        return ("ok", [sum(l)])
    if name == "count":
        return ("ok", [len(l)])
    if name == "not":
        return ("ok", [] if l else [0])
    if name == "mean":
        return ("ok", [float(Fraction(sum(l), len(l)))] if l else [])
    if name == "percentile":
        if not l:
            return ("ok", [])
        k = min(int(Fraction(len(l) * p[0], p[1] * 100)), len(l) - 1)
        return ("ok", [sorted(l)[k]])
    raise ValueError(name)


COQ_K = dict(min="AMin", max="AMax", sum="ASum", count="ACount", mean="AMean")
COQ_K["not"] = "ANot"


def coq_expr(c, hints):
    k = "(APct %s %s)" % (lib.zz(c["p"][0]), lib.zz(c["p"][1])) if c["name"] == "percentile" else COQ_K[c["name"]]
    ins = []
    for l, h in zip(c["seq"], hints):
        h = h or (0, None)
        ins.append("((%s, %s), %s)" % (lib.zz(h[0]), "None" if h[1] is None else "Some %s" % lib.zz(h[1]), lib.zlist(l)))
    return "agg_seq %s [%s]" % (k, "; ".join(ins))


def canon_model(c, v):
    out = []
    for r in v:
        if r == "Panic":
            out.append("panic")
            continue
        assert r[0] == "Ok", r
        if c["name"] == "mean":
            out.append(("ok", [float(Fraction(n, d)) for (n, d) in r[1]]))
        else:
            assert all(d == 1 for (_, d) in r[1]), r
            out.append(("ok", [n for (n, _) in r[1]]))
    return out


def run(binary, cases, tag="C17seq"):
    """returns (mismatches, stats)"""
    if not cases:
        return [], dict(evaluations=0, distinct_nontrivial=0, samples=[])
    lines = lib.ds_run(binary, "aggseq", [case_line(c) for c in cases])
    impl = [parse_impl(c, l) for c, l in zip(cases, lines)]
    exprs = [coq_expr(c, [h for (_, h) in iv]) for c, iv in zip(cases, impl)]
    uniq = sorted(set(exprs))
    table = dict(zip(uniq, lib.coq_eval(tag, PRELUDE, uniq)))
    mism, seen = [], set()
    stats = dict(sequences=len(cases), applications=0, by_aggregator={}, by_shape={}, by_sequence_length={}, by_column_type={},
                 applications_after_a_nonempty_one=0, empty_input_after_a_nonempty_one=0)
    samples = []
    for c, iv, e in zip(cases, impl, exprs):
        mv = canon_model(c, table[e])
        ivr = [r for (r, _) in iv]
        sv = [spec_one(c["name"], c["p"], l) for l in c["seq"]]
        stats["applications"] += len(c["seq"])
        for key, val in (("by_aggregator", c["name"]), ("by_shape", c["shape"]), ("by_sequence_length", len(c["seq"])), ("by_column_type", c.get("ty", "default"))):
            stats[key][val] = stats[key].get(val, 0) + 1
        for j, l in enumerate(c["seq"]):
            if j and any(c["seq"][:j]):
                stats["applications_after_a_nonempty_one"] += 1
                if not l:
                    stats["empty_input_after_a_nonempty_one"] += 1
        if len(c["seq"]) >= 2 and any(c["seq"][:-1]):
            seen.add((c["name"], tuple(c["p"]), c["kind"], c.get("ty"), tuple(map(tuple, c["seq"]))))
        if len(samples) < 2 and c["shape"] not in ("exhaustive-pairs", "exhaustive-lengths") and c["name"] == "percentile" and len(c["seq"]) <= 3 and sum(map(len, c["seq"])) <= 12:
            samples.append(dict(case=c, impl=ivr, model=mv))
        bad = [j for j in range(len(sv)) if ivr[j] != sv[j]]
        at = (" at column type %s" % c["ty"]) if c.get("ty") else ""
        pp = " (p=%s/%s)" % tuple(c["p"]) if c["name"] == "percentile" else ""
        if bad:
            j = bad[0]
            mism.append(dict(case=c, impl=ivr, model=mv, spec=sv, kind="impl_violates_spec", known=None,
                             what="one aggregator value `%s`%s%s applied in a row to %s: application %d (input %s, after %s) gives %s, the definition on that input gives %s" % (
                                 c["name"], pp, at, c["seq"], j + 1, c["seq"][j], c["seq"][:j], ivr[j], sv[j])))
        elif mv != ivr:
            mism.append(dict(case=c, impl=ivr, model=mv, spec=sv, kind="model_differs", known=None,
                             what="correspondence Agg/AggStateless.v agg_seq vs one value of ascent::aggregators::%s%s applied to %s" % (c["name"], at, c["seq"])))
    stats["evaluations"] = len(cases)
    stats["distinct_nontrivial"] = len(seen)
    stats["samples"] = samples
    return mism, stats


def minimise(binary, c):
    """shrink a failing sequence while it keeps violating the definition (drop inputs, then elements)"""
    def fails(seq):
        if not seq:
            return False
        d = dict(c, seq=seq)
        iv = parse_impl(d, lib.ds_run(binary, "aggseq", [case_line(d)])[0])
        return any(r != spec_one(c["name"], c["p"], l) for (r, _), l in zip(iv, seq))
    seq = [list(l) for l in c["seq"]]
    changed = True
    while changed:
        changed = False
        for i in range(len(seq)):
            cand = seq[:i] + seq[i + 1:]
            if fails(cand):
                seq, changed = cand, True
                break
        if changed:
            continue
        for i in range(len(seq)):
            for j in range(len(seq[i])):
                cand = [list(l) for l in seq]
                del cand[i][j]
                if fails(cand):
                    seq, changed = cand, True
                    break
            if changed:
                break
    return dict(c, seq=seq, shape=c["shape"] + "/minimised")
