"""C11, PROG half: programs with a relation tagged #[ds(ascent_byods_rels::trrel)] (binary r(T,T) or ternary
r(K,T,T)) compiled by the real macro and rustc, against the SAME program with an ordinary relation plus the
explicit rule  tr(x,z) <-- tr(x,y), tr(y,z)  (per key for the ternary form).

expected = the least model of the explicit program, computed inside Coq by Engine/Sem.naive_fix (proved equal to
           the least model, Engine/Main.naive_fix_correct) — the specification oracle;
also run : the explicit program through the real macro (must equal the oracle as well).
The tagged relation's own Vec is a FakeVec (always empty): the relation is observed through ordinary relations
populated by rules that read it (the property's `observe_at`)."""
import itertools
import json
import os

from . import dl, engine_tie, lib, prog

TRREL = ("ds", "ascent_byods_rels::trrel")
F3 = "trrel_cycle_reflexive_missing"
F4 = "trrel_ternary_delta_reverse_views"


def v(x):
    return ("v", x)


def clause(rel, args, conds=()):
    return ("clause", rel, [a if isinstance(a, tuple) else v(a) for a in args], list(conds))


def rule(heads, body):
    return dict(heads=[(h[0], [a if isinstance(a, tuple) else v(a) for a in h[1]]) for h in heads], body=body)


# ------------------------------------------------------------------ generator

def gen_program(rng, ternary):
    """returns dict(prog=<tagged program>, meta=...)"""
    ar = 3 if ternary else 2
    K = ["k"] if ternary else []
    rels = [("tr", ar, TRREL), ("e", ar, "rel")]
    rules = [rule([("tr", K + ["x", "y"])], [clause("e", K + ["x", "y"])])]
    meta = dict(ternary=ternary, readers=[], recursion=[], rev_delta_rules=[])
    used = set()

    def need(name, arity):
        if name not in used:
            used.add(name)
            rels.append((name, arity, "rel"))

    # ---- recursion through the tagged relation
    rec = rng.choice(["none", "self_tr_first", "self_f_first", "feedback", "feedback", "two"])
    if rec == "self_tr_first":
        need("f", 2)
        rules.append(rule([("tr", K + ["x", "z"])], [clause("tr", K + ["x", "y"]), clause("f", ["y", "z"])]))
        meta["recursion"].append("tr(..x,z) <-- tr(..x,y), f(y,z)")
    elif rec == "self_f_first":
        need("f", 2)
        rules.append(rule([("tr", K + ["x", "z"])], [clause("f", ["y", "z"]), clause("tr", K + ["x", "y"])]))
        meta["recursion"].append("tr(..x,z) <-- f(y,z), tr(..x,y)   (tr read with its last column bound)")
        if ternary:
            meta["rev_delta_rules"].append(len(rules) - 1)
    elif rec == "two":
        need("f", 2)
        rules.append(rule([("tr", K + ["x", "w"])], [clause("tr", K + ["x", "y"]), clause("f", ["y", "z"]), clause("tr", K + ["z", "w"])]))
        meta["recursion"].append("tr(..x,w) <-- tr(..x,y), f(y,z), tr(..z,w)")
    # ---- readers: every subset of columns bound, either order of the two clauses
    cols = list(range(ar))
    subsets = [[c for c in cols if (m >> c) & 1] for m in range(1 << ar)]
    nread = rng.randint(2, 4)
    chosen = rng.sample(subsets, min(nread, len(subsets)))
    fb_done = False
    for j, S in enumerate(chosen):
        names = K + ["x", "y"]
        out = "o%d" % j
        need(out, ar)
        body = []
        if S:
            q = "q%d" % j
            need(q, len(S))
            qc = clause(q, [names[c] for c in S])
            trc = clause("tr", names)
            body = [qc, trc] if rng.random() < 0.75 else [trc, qc]
            tr_first = body[0][1] == "tr"
        else:
            body = [clause("tr", names)]
            tr_first = True
        rules.append(rule([(out, names)], body))
        ridx = len(rules) - 1
        fb = rec == "feedback" and not fb_done and (rng.random() < 0.7 or j == len(chosen) - 1)
        meta["readers"].append(dict(bound=S if not tr_first else [], declared_bound=S, feedback=fb))
        if fb:
            fb_done = True
            need("g", 2)
            rules.append(rule([("tr", K + ["y", "w"])], [clause(out, names), clause("g", ["y", "w"])]))
            meta["recursion"].append("reader o%d feeds tr back: tr(..y,w) <-- o%d(..), g(y,w)" % (j, j))
            if ternary and S and 0 not in S and not tr_first:
                meta["rev_delta_rules"].append(ridx)
    # ---- special shapes
    u = rng.random()
    if u < 0.35:
        need("refl", ar - 1)
        rules.append(rule([("refl", K + ["x"])], [clause("tr", K + ["x", "x"])]))          # repeated variable: reads pairs (x,x)
        meta["readers"].append(dict(bound="x=x"))
    elif u < 0.55:
        need("cst", ar - 1)
        c = rng.randrange(0, 4)
        rules.append(rule([("cst", K + ["y"])], [clause("tr", K + [("c", c), "y"])]))       # constant in column 1 (0 for binary)
        meta["readers"].append(dict(bound="const"))
    elif u < 0.7:
        need("two", ar)
        rules.append(rule([("two", K + ["x", "z"])], [clause("tr", K + ["x", "y"]), clause("tr", K + ["y", "z"])]))
        meta["readers"].append(dict(bound="self-join"))
    meta["rec"] = rec
    return dict(prog=dict(rels=rels, rules=rules), meta=meta)


def gen_input(rng, rels, ternary):
    keys = rng.choice([1, 2, 3]) if ternary else 1
    dom = rng.choice([3, 4, 5])
    shape = rng.choice(["acyclic", "chain", "cycle", "self", "random"])
    inp = {}
    for name, ar, kind in rels:
        if name == "tr" or name.startswith("o") or name in ("refl", "cst", "two"):
            continue
        ts = []
        if name == "e":
            for k in range(keys):
                n = rng.randint(0, dom + 1)
                for _ in range(n):
                    if shape == "acyclic":
                        a, b = sorted(rng.sample(range(dom), 2))
                    elif shape == "chain":
                        a = rng.randrange(dom - 1)
                        b = a + 1
                    elif shape == "cycle":
                        a = rng.randrange(dom)
                        b = (a + 1) % dom
                    elif shape == "self":
                        a = rng.randrange(dom)
                        b = a if rng.random() < 0.4 else rng.randrange(dom)
                    else:
                        a, b = rng.randrange(dom), rng.randrange(dom)
                    ts.append(((k,) if ternary else ()) + (a, b))
        elif name in ("f", "g"):
            for _ in range(rng.randint(0, dom)):
                ts.append((rng.randrange(dom), rng.randrange(dom)))
        else:   # q<j>: bound-column probes; mix of key and element columns -> draw from the larger domain
            for _ in range(rng.randint(1, 4)):
                ts.append(tuple(rng.randrange(max(dom, keys)) for _ in range(ar)))
        inp[name] = sorted(set(ts))
    return inp, "%s/keys%d/dom%d" % (shape, keys, dom)


# ------------------------------------------------------------------ the explicit programs

def explicit_program(p, filtered=False):
    """tr becomes an ordinary relation + the closure rule (filtered: with `if x != z`, what a provider with the
    anti_reflexive filter computes — used only to classify the known finding F3)"""
    ar = [a for (n, a, k) in p["rels"] if n == "tr"][0]
    K = ["k"] if ar == 3 else []
    rels = [(n, a, "rel") for (n, a, k) in p["rels"]]
    body = [clause("tr", K + ["x", "y"]), clause("tr", K + ["y", "z"])]
    if filtered:
        body.append(("cond", ("if", "ne", ["x", "z"])))
    return dict(rels=rels, rules=list(p["rules"]) + [rule([("tr", K + ["x", "z"])], body)])


def spec_exprs(p, inputs):
    """Coq expressions: the least model of the explicit program and of the filtered variant, per input"""
    out = []
    for filtered in (False, True):
        ep = explicit_program(p, filtered)
        R = dl.Names()
        for name, _, _ in ep["rels"]:
            R(name)
        rules = dl.coq_list(dl.coq_rule(r, R) for r in ep["rules"])
        for inp in inputs:
            f0 = dl.coq_facts(engine_tie.facts_of_input(inp, ep["rels"]), R)
            out.append("naive_fix std_interp %d%%nat %s %s" % (engine_tie.FUEL, rules, f0))
        inv = {v_: k for k, v_ in R.d.items()}
    return out, inv


def observed_rels(p):
    return [(n, a, k) for (n, a, k) in p["rels"] if n != "tr"]


def run_cases(cases, tag="c11"):
    """cases: dict(id, prog, inputs, meta).  Adds impl (tagged), impl_explicit, spec, spec_filtered per input."""
    ctag = "%ss_%d" % (tag, os.getpid())     # concurrent checks must not share Coq case files (the crate is built under a lock)
    jobs = []
    for c in cases:
        p = c["prog"]
        scripts = [[("set", inp), ("run",), ("snap",)] for inp in c["inputs"]]
        jobs.append(dict(id=c["id"] + "_t", text=dl.rust_program_text(p), macro="ascent", rels=observed_rels(p), scripts=scripts))
        ep = explicit_program(p)
        jobs.append(dict(id=c["id"] + "_x", text=dl.rust_program_text(ep), macro="ascent", rels=ep["rels"], scripts=scripts))
    impl = prog.build_and_run(tag, jobs)
    groups, invs = [], []
    for c in cases:
        ex, inv = spec_exprs(c["prog"], c["inputs"])
        groups.append(ex)
        invs.append(inv)
    vals = lib.coq_eval_groups(ctag, engine_tie.PRELUDE, groups, timeout=120)
    out = []
    for c, vs, inv in zip(cases, vals, invs):
        n = len(c["inputs"])
        r = dict(case=c, text=dl.rust_program_text(c["prog"]), impl=impl.get(c["id"] + "_t"), impl_explicit=impl.get(c["id"] + "_x"),
                 spec=None, spec_filtered=None, skipped=vs is None)
        if vs is not None:
            r["spec"] = [engine_tie.decode_facts(x, inv) for x in vs[:n]]
            r["spec_filtered"] = [engine_tie.decode_facts(x, inv) for x in vs[n:]]
        out.append(r)
    return out


def clause_vars(it):
    return [t[1] for t in it[2] if t[0] == "v"]


def rev_delta_rules(p):
    """indices of the rules that read the ternary tagged relation through reverse_map1/2 (index [1], [2] or [1,2]:
    column 0 free, column 1 or 2 bound) inside the stratum that derives it.  Index columns as the macro chooses them:
    constants and variables bound by earlier items; for the first clause of a two-clause (simple) join the columns
    shared with the second clause."""
    ar = [a for (n, a, k) in p["rels"] if n == "tr"][0]
    if ar != 3:
        return []
    rules = p["rules"]
    out = []
    for comp in engine_tie.stratify(rules):
        if not any(h[0] == "tr" for i in comp for h in rules[i]["heads"]):
            continue
        for i in comp:
            body = rules[i]["body"]
            bound = set()
            for j, it in enumerate(body):
                if it[0] != "clause":
                    continue
                if it[1] == "tr":
                    known = set(bound)
                    if j == 0 and len(body) > 1 and body[1][0] == "clause":
                        known |= set(clause_vars(body[1]))            # simple join: indexed on the shared columns
                    cols = [c for c, t in enumerate(it[2]) if t[0] == "c" or (t[0] == "v" and t[1] in known)]
                    if cols and 0 not in cols:
                        out.append(i)
                bound |= set(clause_vars(it))
    return sorted(set(out))


def affected_relations(p, rule_idxs):
    """relations that depend (transitively) on a head of one of the given rules"""
    aff = set()
    for i in rule_idxs:
        aff |= {h[0] for h in p["rules"][i]["heads"]}
    changed = True
    while changed:
        changed = False
        for r in p["rules"]:
            heads, body = engine_tie.rule_rels(r)
            if set(body) & aff and not set(heads) <= aff:
                aff |= set(heads)
                changed = True
    return aff


def compare(r):
    """mismatch dicts for one case"""
    mism = []
    c = r["case"]
    p = c["prog"]
    rels = observed_rels(p)
    base = dict(program=r["text"], id=c["id"], shape=c["meta"].get("rec"))
    if r["skipped"]:
        return mism
    for k, inp in enumerate(c["inputs"]):
        cs = dict(base, input=inp)
        spec = r["spec"][k]
        if spec is None:
            raise lib.Infra("specification oracle ran out of fuel on %s" % c["id"])
        sg = engine_tie.group_facts(spec, rels)
        fg = engine_tie.group_facts(r["spec_filtered"][k], rels) if r["spec_filtered"][k] is not None else None
        # the explicit program through the real engine must agree with the oracle (sanity of the oracle / of C01)
        ix = r["impl_explicit"][k] if r["impl_explicit"] else None
        if ix is None or "snaps" not in ix:
            mism.append(dict(case=cs, impl=ix, model=None, spec=None, kind="impl_violates_spec", known=None,
                             what="the explicit (untagged) program did not run: %s" % json.dumps(ix)[:300]))
            continue
        xs = prog.canon_snap(ix["snaps"][-1])
        bad = [n for n, _, _ in rels if xs[n][1] != sg[n][1]]
        if bad:
            mism.append(dict(case=cs, impl={n: xs[n] for n in bad}, model=None, spec={n: sg[n][1] for n in bad}, kind="impl_violates_spec", known=None,
                             what="the explicit (untagged) program differs from its least model on %s" % bad))
            continue
        iv = r["impl"][k] if r["impl"] else None
        if iv is None or "snaps" not in iv:
            mism.append(dict(case=cs, impl=iv, model=None, spec=None, kind="impl_violates_spec", known=None,
                             what="the program with the tagged relation did not produce a result (compile error / panic / timeout): %s" % json.dumps(iv)[:400]))
            continue
        isnap = prog.canon_snap(iv["snaps"][-1])
        diff = {}
        for n, _, _ in rels:
            ilen, iset = isnap[n]
            if iset != sg[n][1] or ilen != len(iset):
                diff[n] = dict(missing=[t for t in sg[n][1] if t not in iset], extra=[t for t in iset if t not in sg[n][1]], rows=ilen, distinct=len(iset))
        if not diff:
            continue
        known = None
        dup = any(d["rows"] != d["distinct"] for d in diff.values())
        extra = any(d["extra"] for d in diff.values())
        if not dup and not extra:
            eq_filtered = fg is not None and all(isnap[n][1] == fg[n][1] for n, _, _ in rels)
            if eq_filtered:
                known = F3          # exactly the least model of the program whose closure rule carries `if x != z`
            elif rev_delta_rules(p):
                aff = affected_relations(p, rev_delta_rules(p))
                lower = fg if fg is not None else sg
                # under-approximation only, only in relations downstream of a rule that reads the delta version
                # through reverse_map1/2; everything else agrees with the (filtered) closure semantics
                ok = all(n in aff for n in diff if isnap[n][1] != lower[n][1]) and all(set(isnap[n][1]) <= set(lower[n][1]) for n, _, _ in rels)
                if ok:
                    known = F4
        mism.append(dict(case=cs, impl={n: dict(rows=isnap[n][0], tuples=isnap[n][1]) for n in diff}, model=None,
                         spec={n: sg[n][1] for n in diff}, kind="impl_violates_spec", known=known,
                         what="program with #[ds(trrel)] vs explicit closure rule: " + "; ".join(
                             "%s missing %s extra %s" % (n, d["missing"][:5], d["extra"][:5]) for n, d in sorted(diff.items()))))
    return mism


# ------------------------------------------------------------------ family "multi": rules under the empty-relation shortcut
#
# compile_mir_rule (ascent_codegen.rs) wraps a rule in `if !(r1.is_empty() || r2.is_empty() || ..) { .. }` exactly when
# it has more than one body clause and is not a plain two-clause simple join.  The readers of gen_program are all
# two-clause simple joins (or single clauses): RelIndexRead::is_empty of the provider's views was never consulted.
# Here every rule that reads the tagged relation has >= 3 body clauses, or 2 clauses that are not a simple join
# (a standalone if / let / for item between or before them, a let attached to the first clause, a repeated variable
# in the second), with the tagged clause at any position and every subset of its columns bound; inside the
# recursive stratum (total and delta versions are asked) and after it.  The inputs (gen_input_heavy) have MANY keys
# sharing FEW node values, the regime in which size heuristics of the keyed views (len_estimate) are furthest off.

def index_columns(body, j):
    """columns of the clause body[j] the macro's index is keyed on: constants, variables bound by earlier items,
    repeated occurrences excluded; for the first clause of a simple join the columns shared with the second"""
    bound = set()
    for it in body[:j]:
        if it[0] == "clause":
            bound |= set(clause_vars(it))
            for cd in it[3]:
                if cd[0] in ("let", "iflet", "letc"):
                    bound.add(cd[1])
        elif it[0] == "cond" and it[1][0] in ("let", "iflet", "letc"):
            bound.add(it[1][1])
        elif it[0] == "gen":
            bound.add(it[1])
    it = body[j]
    clause_idx = [i for i, b in enumerate(body) if b[0] == "clause"]
    if clause_idx and clause_idx[0] == j and j + 1 < len(body) and body[j + 1][0] == "clause" and not bound:
        nxt = body[j + 1]
        vs = clause_vars(nxt)
        simple = len(vs) == len(set(vs)) and not any(cd[0] in ("let", "iflet") for cd in it[3])
        if simple:
            bound = set(vs)
    return [c for c, t in enumerate(it[2]) if t[0] == "c" or (t[0] == "v" and t[1] in bound)]


def shortcut_applies(body):
    """does compile_mir_rule emit the any-relation-empty shortcut for this body (see the comment above)"""
    cl = [i for i, b in enumerate(body) if b[0] == "clause"]
    if len(cl) <= 1:
        return False
    if len(cl) > 2:
        return True
    i, j = cl
    if j != i + 1:
        return True
    vs = clause_vars(body[j])
    simple = len(vs) == len(set(vs)) and not any(cd[0] in ("let", "iflet") for cd in body[i][3])
    for cd in body[j][3]:
        used = set(cd[2] if cd[0] == "if" else cd[3])
        if not used <= set(vs):
            simple = False
    return not simple


def gen_program_multi(rng, ternary):
    ar = 3 if ternary else 2
    K = ["k"] if ternary else []
    names = K + ["x", "y"]
    rels = [("tr", ar, TRREL), ("e", ar, "rel")]
    rules = [rule([("tr", names)], [clause("e", names)])]
    meta = dict(ternary=ternary, readers=[], recursion=[], rev_delta_rules=[], family="multi")
    used = set()

    def need(name, arity):
        if name not in used:
            used.add(name)
            rels.append((name, arity, "rel"))
        return name

    cols = list(range(ar))
    subsets = [[c for c in cols if (m >> c) & 1] for m in range(1 << ar)]
    rec = rng.choice(["none", "none", "swap", "swap", "via_g", "self3"])
    nread = rng.randint(2, 3)
    fb_at = rng.randrange(nread) if rec in ("swap", "via_g") else None
    for j in range(nread):
        # the keyed view under test: columns 1,2 bound / key free is the view with a heuristic; favour it
        if ternary and rng.random() < 0.45:
            S = [1, 2]
        else:
            S = rng.choice(subsets)
        shape = rng.choice(["unary", "joint+filter", "cond", "gen", "letfirst"])
        trc = clause("tr", names)
        svars = [names[c] for c in S]
        pre, post = [], []
        if shape == "unary":
            for i_, x_ in enumerate(svars):
                pre.append(clause(need("p%d_%d" % (j, i_), 1), [x_]))
            while len(pre) + len(post) < 2:
                free = [x_ for x_ in names if x_ not in svars] or names
                post.append(clause(need("h%d_%d" % (j, len(post)), 1), [rng.choice(free)]))
        elif shape == "joint+filter":
            if svars:
                pre.append(clause(need("q%d" % j, len(svars)), svars))
            post.append(clause(need("h%d_0" % j, 1), [rng.choice(names)]))        # after tr: bound whatever S is
            if not svars:
                post.append(clause(need("h%d_1" % j, 1), [rng.choice(names)]))
        elif shape == "cond":
            # two clauses separated by standalone condition items: not a simple join
            if not svars:
                svars, S = [names[-1]], [ar - 1]
            pre.append(clause(need("q%d" % j, len(svars)), svars))
            a = rng.choice(svars)
            kind = rng.choice(["if_le", "let", "let_lt", "let_ne"])
            if kind == "if_le":
                pre.append(("cond", ("if", "le", [a, a])))
            else:
                pre.append(("cond", ("let", a + "_up", "incs", [a])))
                if kind != "let":
                    pre.append(("cond", ("if", kind[4:], [a, a + "_up"])))
        elif shape == "gen":
            # a generator binds one of the columns: `q(x), for y in 0..3, tr(k, x, y)` (generator between the two
            # clauses: not a simple join) or `for y in 0..3, q(x), tr(k, x, y), h(..)` (generator first, three clauses)
            if not svars:
                svars, S = [names[-1]], [ar - 1]
            gvar = svars[-1]
            rest_ = svars[:-1]
            others = [x_ for x_ in names if x_ != gvar]
            if rest_ and rng.random() < 0.5:
                pre += [clause(need("q%d" % j, len(rest_)), rest_), ("gen", gvar, "range3", [])]
            else:
                pre.append(("gen", gvar, "range3", []))
                if rest_:
                    pre.append(clause(need("q%d" % j, len(rest_)), rest_))
                    post.append(clause(need("h%d_0" % j, 1), [rng.choice(others)]))
                else:
                    post += [clause(need("h%d_0" % j, 1), [rng.choice(others)]), clause(need("h%d_1" % j, 1), [rng.choice(names)])]
        else:   # letfirst: a let attached to the first clause switches the simple join off
            if not svars:
                svars, S = [names[-1]], [ar - 1]
            q = clause(need("q%d" % j, len(svars)), svars, [("let", "w%d" % j, "incs", [svars[0]])])
            pre.append(q)
        body = pre + [trc] + post
        # the tagged clause may also come first (simple-join start of a longer rule) or in the middle
        if shape in ("unary", "joint+filter") and rng.random() < 0.35:
            cl = [b for b in body]
            cl.remove(trc)
            pos = rng.randrange(len(cl))
            body = cl[:pos] + [trc] + cl[pos:]
        if not shortcut_applies(body):
            body.append(clause(need("h%d_9" % j, 1), [rng.choice(names)]))
        assert shortcut_applies(body), body
        out = need("o%d" % j, ar)
        rules.append(rule([(out, names)], body))
        tpos = body.index(trc)
        meta["readers"].append(dict(declared_bound=index_columns(body, tpos), bound=index_columns(body, tpos), shape=shape, clauses=sum(1 for b in body if b[0] == "clause"),
                                    shortcut=shortcut_applies(body), feedback=(fb_at == j)))
        if fb_at == j:
            if rec == "swap":
                rules.append(rule([("tr", K + ["y", "x"])], [clause(out, names)]))
                meta["recursion"].append("reader o%d feeds tr back reversed: tr(..y,x) <-- o%d(..x,y)" % (j, j))
            else:
                need("g", 2)
                rules.append(rule([("tr", K + ["y", "w"])], [clause(out, names), clause("g", ["y", "w"])]))
                meta["recursion"].append("reader o%d feeds tr back: tr(..y,w) <-- o%d(..), g(y,w)" % (j, j))
    if rec == "self3":
        need("f", 2)
        need("s0", 1)
        body = [clause("f", ["y", "z"]), clause("s0", ["x"]), clause("tr", K + ["x", "y"])]
        rng.shuffle(body)
        rules.append(rule([("tr", K + ["x", "z"])], body))
        meta["recursion"].append("three-clause recursive rule: tr(..x,z) <-- " + ", ".join(b[1] for b in body))
    meta["rec"] = "multi/" + rec
    meta["rev_delta_rules"] = rev_delta_rules(dict(rels=rels, rules=rules))
    return dict(prog=dict(rels=rels, rules=rules), meta=meta)


def gen_input_heavy(rng, p, ternary, heavy=True):
    """many keys sharing few node values (heavy) / the small inputs of gen_input's regime (light)"""
    heads = {h[0] for r in p["rules"] for h in r["heads"]}
    dom = rng.choice([2, 2, 3])
    keys = (rng.choice([4, 9, 16, 25, 26, 30, 36, 40, 49, 60]) if heavy else rng.choice([1, 2, 3])) if ternary else 1
    vs = list(range(dom))
    # the pattern every key draws its edges from: 1-3 edges over the node values
    pat = sorted({(rng.choice(vs), rng.choice(vs)) for _ in range(rng.randint(1, 3))})
    full = rng.random() < 0.5           # every key gets the whole pattern
    inp = {}
    for name, ar, kind in p["rels"]:
        if name in heads:
            continue
        ts = []
        if name == "e":
            for k in range(keys):
                es = pat if full else [e_ for e_ in pat if rng.random() < 0.7]
                for (a, b) in es:
                    ts.append(((k,) if ternary else ()) + (a, b))
        elif name in ("f", "g"):
            for _ in range(rng.randint(0, dom)):
                ts.append((rng.choice(vs), rng.choice(vs)))
        else:
            # probes / filters: which column they constrain is found from the rule that uses them
            colkinds = probe_columns(p, name)
            dense = rng.random() < 0.6
            n = rng.randint(1, 4)
            cand = list(itertools.product(*[(range(keys) if ck == "k" else range(dom + 1)) for ck in colkinds]))
            if dense or len(cand) <= n:
                ts = [c_ for c_ in cand if rng.random() < 0.8]
            else:
                ts = rng.sample(cand, n)
        inp[name] = sorted(set(tuple(t) for t in ts))
    return inp, "%s/keys%d/dom%d/pattern%d" % ("heavy" if heavy else "light", keys, dom, len(pat))


def probe_columns(p, name):
    """'k' for a column of the probe relation `name` that holds the key variable k, 'n' for a node column"""
    for r in p["rules"]:
        for it in r["body"]:
            if it[0] == "clause" and it[1] == name:
                return ["k" if (t[0] == "v" and t[1] == "k") else "n" for t in it[2]]
    return []


def gen_cases_multi(rng, n, first_id):
    cases = []
    for i in range(n):
        ternary = i % 4 != 3
        g = gen_program_multi(rng, ternary)
        inputs, styles = [], []
        for heavy in (True, True, False):
            inp, st = gen_input_heavy(rng, g["prog"], ternary, heavy)
            inputs.append(inp)
            styles.append(st)
        cases.append(dict(id="c11_%d" % (first_id + i), prog=g["prog"], meta=g["meta"], inputs=inputs, styles=styles))
    return cases


def gen_cases(tier, seed, prop="C11"):
    return gen_cases_base(tier, seed, prop) + gen_cases_multi(lib.rng_for(seed, prop, "prog-multi"), 16 if tier == "quick" else 80,
                                                              1000)


def gen_cases_base(tier, seed, prop="C11"):
    rng = lib.rng_for(seed, prop, "prog")
    n = 30 if tier == "quick" else 300
    cases = []
    for i in range(n):
        ternary = i % 2 == 1
        g = gen_program(rng, ternary)
        inputs, styles = [], []
        for _ in range(3):
            inp, st = gen_input(rng, g["prog"]["rels"], ternary)
            inputs.append(inp)
            styles.append(st)
        cases.append(dict(id="c11_%d" % i, prog=g["prog"], meta=g["meta"], inputs=inputs, styles=styles))
    return cases
