"""C11, PROG half: programs with a relation tagged #[ds(ascent_byods_rels::trrel)] (binary r(T,T) or ternary
r(K,T,T)) compiled by the real macro and rustc, against the SAME program with an ordinary relation plus the
explicit rule  tr(x,z) <-- tr(x,y), tr(y,z)  (per key for the ternary form).

expected = the least model of the explicit program, computed inside Coq by Engine/Sem.naive_fix (proved equal to
           the least model, Engine/Main.naive_fix_correct) — the specification oracle;
also run : the explicit program through the real macro (must equal the oracle as well).
The tagged relation's own Vec is a FakeVec (always empty): the relation is observed through ordinary relations
populated by rules that read it (the property's `observe_at`)."""
import json
import os

from . import dl, engine_tie, lib, prog

TRREL = ("ds", "ascent_byods_rels::trrel")
F3 = "trrel_cycle_reflexive_missing"
F4 = "trrel_ternary_delta_reverse_views"


def v(x):
    return ("v", x)


def clause(rel, args, conds=()):
    return ("clause", rel, [a if isinstance(a, tuple) else v(a) for a in args], list(conds))


def rule(heads, body):
    return dict(heads=[(h[0], [a if isinstance(a, tuple) else v(a) for a in h[1]]) for h in heads], body=body)


# ------------------------------------------------------------------ generator

def gen_program(rng, ternary):
    """returns dict(prog=<tagged program>, meta=...)"""
    ar = 3 if ternary else 2
    K = ["k"] if ternary else []
    rels = [("tr", ar, TRREL), ("e", ar, "rel")]
    rules = [rule([("tr", K + ["x", "y"])], [clause("e", K + ["x", "y"])])]
    meta = dict(ternary=ternary, readers=[], recursion=[], rev_delta_rules=[])
    used = set()

    def need(name, arity):
        if name not in used:
            used.add(name)
            rels.append((name, arity, "rel"))

    # ---- recursion through the tagged relation
    rec = rng.choice(["none", "self_tr_first", "self_f_first", "feedback", "feedback", "two"])
    if rec == "self_tr_first":
        need("f", 2)
        rules.append(rule([("tr", K + ["x", "z"])], [clause("tr", K + ["x", "y"]), clause("f", ["y", "z"])]))
        meta["recursion"].append("tr(..x,z) <-- tr(..x,y), f(y,z)")
    elif rec == "self_f_first":
        need("f", 2)
        rules.append(rule([("tr", K + ["x", "z"])], [clause("f", ["y", "z"]), clause("tr", K + ["x", "y"])]))
        meta["recursion"].append("tr(..x,z) <-- f(y,z), tr(..x,y)   (tr read with its last column bound)")
        if ternary:
            meta["rev_delta_rules"].append(len(rules) - 1)
    elif rec == "two":
        need("f", 2)
        rules.append(rule([("tr", K + ["x", "w"])], [clause("tr", K + ["x", "y"]), clause("f", ["y", "z"]), clause("tr", K + ["z", "w"])]))
        meta["recursion"].append("tr(..x,w) <-- tr(..x,y), f(y,z), tr(..z,w)")
    # ---- readers: every subset of columns bound, either order of the two clauses
    cols = list(range(ar))
    subsets = [[c for c in cols if (m >> c) & 1] for m in range(1 << ar)]
    nread = rng.randint(2, 4)
    chosen = rng.sample(subsets, min(nread, len(subsets)))
    fb_done = False
    for j, S in enumerate(chosen):
        names = K + ["x", "y"]
        out = "o%d" % j
        need(out, ar)
        body = []
        if S:
            q = "q%d" % j
            need(q, len(S))
            qc = clause(q, [names[c] for c in S])
            trc = clause("tr", names)
            body = [qc, trc] if rng.random() < 0.75 else [trc, qc]
            tr_first = body[0][1] == "tr"
        else:
            body = [clause("tr", names)]
            tr_first = True
        rules.append(rule([(out, names)], body))
        ridx = len(rules) - 1
        fb = rec == "feedback" and not fb_done and (rng.random() < 0.7 or j == len(chosen) - 1)
        meta["readers"].append(dict(bound=S if not tr_first else [], declared_bound=S, feedback=fb))
        if fb:
            fb_done = True
            need("g", 2)
            rules.append(rule([("tr", K + ["y", "w"])], [clause(out, names), clause("g", ["y", "w"])]))
            meta["recursion"].append("reader o%d feeds tr back: tr(..y,w) <-- o%d(..), g(y,w)" % (j, j))
            if ternary and S and 0 not in S and not tr_first:
                meta["rev_delta_rules"].append(ridx)
    # ---- special shapes
    u = rng.random()
    if u < 0.35:
        need("refl", ar - 1)
        rules.append(rule([("refl", K + ["x"])], [clause("tr", K + ["x", "x"])]))          # repeated variable: reads pairs (x,x)
        meta["readers"].append(dict(bound="x=x"))
    elif u < 0.55:
        need("cst", ar - 1)
        c = rng.randrange(0, 4)
        rules.append(rule([("cst", K + ["y"])], [clause("tr", K + [("c", c), "y"])]))       # constant in column 1 (0 for binary)
        meta["readers"].append(dict(bound="const"))
    elif u < 0.7:
        need("two", ar)
        rules.append(rule([("two", K + ["x", "z"])], [clause("tr", K + ["x", "y"]), clause("tr", K + ["y", "z"])]))
        meta["readers"].append(dict(bound="self-join"))
    meta["rec"] = rec
    return dict(prog=dict(rels=rels, rules=rules), meta=meta)


def gen_input(rng, rels, ternary):
    keys = rng.choice([1, 2, 3]) if ternary else 1
    dom = rng.choice([3, 4, 5])
    shape = rng.choice(["acyclic", "chain", "cycle", "self", "random"])
    inp = {}
    for name, ar, kind in rels:
        if name == "tr" or name.startswith("o") or name in ("refl", "cst", "two"):
            continue
        ts = []
        if name == "e":
            for k in range(keys):
                n = rng.randint(0, dom + 1)
                for _ in range(n):
                    if shape == "acyclic":
                        a, b = sorted(rng.sample(range(dom), 2))
                    elif shape == "chain":
                        a = rng.randrange(dom - 1)
                        b = a + 1
                    elif shape == "cycle":
                        a = rng.randrange(dom)
                        b = (a + 1) % dom
                    elif shape == "self":
                        a = rng.randrange(dom)
                        b = a if rng.random() < 0.4 else rng.randrange(dom)
                    else:
                        a, b = rng.randrange(dom), rng.randrange(dom)
                    ts.append(((k,) if ternary else ()) + (a, b))
        elif name in ("f", "g"):
            for _ in range(rng.randint(0, dom)):
                ts.append((rng.randrange(dom), rng.randrange(dom)))
        else:   # q<j>: bound-column probes; mix of key and element columns -> draw from the larger domain
            for _ in range(rng.randint(1, 4)):
                ts.append(tuple(rng.randrange(max(dom, keys)) for _ in range(ar)))
        inp[name] = sorted(set(ts))
    return inp, "%s/keys%d/dom%d" % (shape, keys, dom)


# ------------------------------------------------------------------ the explicit programs

def explicit_program(p, filtered=False):
    """tr becomes an ordinary relation + the closure rule (filtered: with `if x != z`, what a provider with the
    anti_reflexive filter computes — used only to classify the known finding F3)"""
    ar = [a for (n, a, k) in p["rels"] if n == "tr"][0]
    K = ["k"] if ar == 3 else []
    rels = [(n, a, "rel") for (n, a, k) in p["rels"]]
    body = [clause("tr", K + ["x", "y"]), clause("tr", K + ["y", "z"])]
    if filtered:
        body.append(("cond", ("if", "ne", ["x", "z"])))
    return dict(rels=rels, rules=list(p["rules"]) + [rule([("tr", K + ["x", "z"])], body)])


def spec_exprs(p, inputs):
    """Coq expressions: the least model of the explicit program and of the filtered variant, per input"""
    out = []
    for filtered in (False, True):
        ep = explicit_program(p, filtered)
        R = dl.Names()
        for name, _, _ in ep["rels"]:
            R(name)
        rules = dl.coq_list(dl.coq_rule(r, R) for r in ep["rules"])
        for inp in inputs:
            f0 = dl.coq_facts(engine_tie.facts_of_input(inp, ep["rels"]), R)
            out.append("naive_fix std_interp %d%%nat %s %s" % (engine_tie.FUEL, rules, f0))
        inv = {v_: k for k, v_ in R.d.items()}
    return out, inv


def observed_rels(p):
    return [(n, a, k) for (n, a, k) in p["rels"] if n != "tr"]


def run_cases(cases, tag="c11"):
    """cases: dict(id, prog, inputs, meta).  Adds impl (tagged), impl_explicit, spec, spec_filtered per input."""
    ctag = "%ss_%d" % (tag, os.getpid())     # concurrent checks must not share Coq case files (the crate is built under a lock)
    jobs = []
    for c in cases:
        p = c["prog"]
        scripts = [[("set", inp), ("run",), ("snap",)] for inp in c["inputs"]]
        jobs.append(dict(id=c["id"] + "_t", text=dl.rust_program_text(p), macro="ascent", rels=observed_rels(p), scripts=scripts))
        ep = explicit_program(p)
        jobs.append(dict(id=c["id"] + "_x", text=dl.rust_program_text(ep), macro="ascent", rels=ep["rels"], scripts=scripts))
    impl = prog.build_and_run(tag, jobs)
    groups, invs = [], []
    for c in cases:
        ex, inv = spec_exprs(c["prog"], c["inputs"])
        groups.append(ex)
        invs.append(inv)
    vals = lib.coq_eval_groups(ctag, engine_tie.PRELUDE, groups, timeout=120)
    out = []
    for c, vs, inv in zip(cases, vals, invs):
        n = len(c["inputs"])
        r = dict(case=c, text=dl.rust_program_text(c["prog"]), impl=impl.get(c["id"] + "_t"), impl_explicit=impl.get(c["id"] + "_x"),
                 spec=None, spec_filtered=None, skipped=vs is None)
        if vs is not None:
            r["spec"] = [engine_tie.decode_facts(x, inv) for x in vs[:n]]
            r["spec_filtered"] = [engine_tie.decode_facts(x, inv) for x in vs[n:]]
        out.append(r)
    return out


def clause_vars(it):
    return [t[1] for t in it[2] if t[0] == "v"]


def rev_delta_rules(p):
    """indices of the rules that read the ternary tagged relation through reverse_map1/2 (index [1], [2] or [1,2]:
    column 0 free, column 1 or 2 bound) inside the stratum that derives it.  Index columns as the macro chooses them:
    constants and variables bound by earlier items; for the first clause of a two-clause (simple) join the columns
    shared with the second clause."""
    ar = [a for (n, a, k) in p["rels"] if n == "tr"][0]
    if ar != 3:
        return []
    rules = p["rules"]
    out = []
    for comp in engine_tie.stratify(rules):
        if not any(h[0] == "tr" for i in comp for h in rules[i]["heads"]):
            continue
        for i in comp:
            body = rules[i]["body"]
            bound = set()
            for j, it in enumerate(body):
                if it[0] != "clause":
                    continue
                if it[1] == "tr":
                    known = set(bound)
                    if j == 0 and len(body) > 1 and body[1][0] == "clause":
                        known |= set(clause_vars(body[1]))            # simple join: indexed on the shared columns
                    cols = [c for c, t in enumerate(it[2]) if t[0] == "c" or (t[0] == "v" and t[1] in known)]
                    if cols and 0 not in cols:
                        out.append(i)
                bound |= set(clause_vars(it))
    return sorted(set(out))


def affected_relations(p, rule_idxs):
    """relations that depend (transitively) on a head of one of the given rules"""
    aff = set()
    for i in rule_idxs:
        aff |= {h[0] for h in p["rules"][i]["heads"]}
    changed = True
    while changed:
        changed = False
        for r in p["rules"]:
            heads, body = engine_tie.rule_rels(r)
            if set(body) & aff and not set(heads) <= aff:
                aff |= set(heads)
                changed = True
    return aff


def compare(r):
    """mismatch dicts for one case"""
    mism = []
    c = r["case"]
    p = c["prog"]
    rels = observed_rels(p)
    base = dict(program=r["text"], id=c["id"], shape=c["meta"].get("rec"))
    if r["skipped"]:
        return mism
    for k, inp in enumerate(c["inputs"]):
        cs = dict(base, input=inp)
        spec = r["spec"][k]
        if spec is None:
            raise lib.Infra("specification oracle ran out of fuel on %s" % c["id"])
        sg = engine_tie.group_facts(spec, rels)
        fg = engine_tie.group_facts(r["spec_filtered"][k], rels) if r["spec_filtered"][k] is not None else None
        # the explicit program through the real engine must agree with the oracle (sanity of the oracle / of C01)
        ix = r["impl_explicit"][k] if r["impl_explicit"] else None
        if ix is None or "snaps" not in ix:
            mism.append(dict(case=cs, impl=ix, model=None, spec=None, kind="impl_violates_spec", known=None,
                             what="the explicit (untagged) program did not run: %s" % json.dumps(ix)[:300]))
            continue
        xs = prog.canon_snap(ix["snaps"][-1])
        bad = [n for n, _, _ in rels if xs[n][1] != sg[n][1]]
        if bad:
            mism.append(dict(case=cs, impl={n: xs[n] for n in bad}, model=None, spec={n: sg[n][1] for n in bad}, kind="impl_violates_spec", known=None,
                             what="the explicit (untagged) program differs from its least model on %s" % bad))
            continue
        iv = r["impl"][k] if r["impl"] else None
        if iv is None or "snaps" not in iv:
            mism.append(dict(case=cs, impl=iv, model=None, spec=None, kind="impl_violates_spec", known=None,
                             what="the program with the tagged relation did not produce a result (compile error / panic / timeout): %s" % json.dumps(iv)[:400]))
            continue
        isnap = prog.canon_snap(iv["snaps"][-1])
        diff = {}
        for n, _, _ in rels:
            ilen, iset = isnap[n]
            if iset != sg[n][1] or ilen != len(iset):
                diff[n] = dict(missing=[t for t in sg[n][1] if t not in iset], extra=[t for t in iset if t not in sg[n][1]], rows=ilen, distinct=len(iset))
        if not diff:
            continue
        known = None
        dup = any(d["rows"] != d["distinct"] for d in diff.values())
        extra = any(d["extra"] for d in diff.values())
        if not dup and not extra:
            eq_filtered = fg is not None and all(isnap[n][1] == fg[n][1] for n, _, _ in rels)
            if eq_filtered:
                known = F3          # exactly the least model of the program whose closure rule carries `if x != z`
            elif rev_delta_rules(p):
                aff = affected_relations(p, rev_delta_rules(p))
                lower = fg if fg is not None else sg
                # under-approximation only, only in relations downstream of a rule that reads the delta version
                # through reverse_map1/2; everything else agrees with the (filtered) closure semantics
                ok = all(n in aff for n in diff if isnap[n][1] != lower[n][1]) and all(set(isnap[n][1]) <= set(lower[n][1]) for n, _, _ in rels)
                if ok:
                    known = F4
        mism.append(dict(case=cs, impl={n: dict(rows=isnap[n][0], tuples=isnap[n][1]) for n in diff}, model=None,
                         spec={n: sg[n][1] for n in diff}, kind="impl_violates_spec", known=known,
                         what="program with #[ds(trrel)] vs explicit closure rule: " + "; ".join(
                             "%s missing %s extra %s" % (n, d["missing"][:5], d["extra"][:5]) for n, d in sorted(diff.items()))))
    return mism


def gen_cases(tier, seed, prop="C11"):
    rng = lib.rng_for(seed, prop, "prog")
    n = 30 if tier == "quick" else 300
    cases = []
    for i in range(n):
        ternary = i % 2 == 1
        g = gen_program(rng, ternary)
        inputs, styles = [], []
        for _ in range(3):
            inp, st = gen_input(rng, g["prog"]["rels"], ternary)
            inputs.append(inp)
            styles.append(st)
        cases.append(dict(id="c11_%d" % i, prog=g["prog"], meta=g["meta"], inputs=inputs, styles=styles))
    return cases
