"""Tie of the PLANNER model on LATTICE programs (coq/Plan/PlanLat*.v) to the plan the macro computes.

For every program the FRONT dump (gen/prog.py front_run: desugared HIR rules + MIR plan of the real front end) is translated
STRUCTURALLY to a core program - the skeleton of the dumped rules: variables, binders, which arguments are plain variables, the
rule variables every expression mentions, and per condition the flag "its expression mentions an identifier that is not a rule
variable" (PlanModel.v free_ident; a python re-implementation of syn_utils.rs expr_get_vars over the printed token stream).  No
vocabulary is involved, so composite lattice types and arbitrary expressions are covered.  The skeleton, the arities, the lattice
flags and the SCC partition of the dump go to Coq (Plan/PlanLatShow.v lat_report, vm_compute):

  1. compile_model_gen on the skeleton is compared structurally with the DUMPED plan (as gen/plan_model.py `check`): per SCC the
     variants (rule, version + index columns per item, simple-join start, reorderable), dynamic relations, looping flag; the index
     sets of every relation (incl. the lattice key index [0..n-1)).
  2. the hypotheses of the theorems are evaluated on the real desugared program and the real partition: wf_core, sccs_ok, wf_lat,
     wf_lat_syn, no_agg, and the conclusions on the model plan: validate, alat_plan_ok, lat_plan_ok, plan_below (prog_N P).
  3. exactness against the REAL plan: wf_lat(program) must equal "no body clause / aggregate of the dumped plan on a lattice relation
     is indexed on the lattice column" (computed in python from the dump, no model involved).

Families: gen/c03_gen.py gen_program (shortest / widest path, reachability sets, constant propagation, random monotone programs over all
scalar lattice types), c03_gen.composite_program (Product / Dual / Option / Rc / Box / Reverse columns), gen/c04_lat.py program
(aggregates and negation over lattice relations), `shape` (gen/plan_model.py gen_shape_program with some relations declared
`lattice`: constants, bound and repeated variables in the lattice column, joins on the lattice value, conditions on both clauses of
a simple join - mostly programs OUTSIDE wf_lat), and fixed probes.

    python3 -m gen.plan_lat quick|thorough [seed]
"""
import json
import re
import sys
import time

from . import c03_gen, c03_vocab, c04_lat, dl, lib, plan_model, prog

PRELUDE = ("From Coq Require Import List ZArith Bool.\n"
           "From AV Require Import Engine.Core Engine.Eval Engine.Validate.\n"
           "From AV Require Import Plan.PlanModel Plan.PlanShow Plan.PlanWf Plan.PlanLatWf Plan.PlanLatShow.\n"
           "Import ListNotations.\nOpen Scope Z_scope.\n")
WHAT = "correspondence Plan/PlanModel.v compile_model + Plan/PlanLatWf.v wf_lat vs ascent_hir.rs / ascent_mir.rs on lattice programs"

Untranslatable = plan_model.Untranslatable

# ------------------------------------------------------------------ expr_get_vars over the printed token stream

_TOK = re.compile(r"[A-Za-z_][A-Za-z0-9_]*|::|=>|->|!=|==|<=|>=|&&|\.\.=?|\d[A-Za-z0-9_]*(?:\.\d[A-Za-z0-9_]*)?|\S")
_IDENT = re.compile(r"^[A-Za-z_][A-Za-z0-9_]*$")
_KEYWORDS = {"as", "let", "mut", "for", "in", "if", "else", "match", "true", "false", "move", "ref", "return", "loop", "while",
             "break", "continue", "_", "self", "Self", "crate", "super", "fn", "impl", "dyn", "where", "unsafe"}


def free_idents(expr):
    """single-segment path expressions of a printed expression that are not bound inside it (syn_utils.rs expr_visit_free_vars:
    Expr::Path with path.get_ident(); closure parameters, let / for / match-arm binders are excluded)"""
    toks = _TOK.findall(expr)
    out = []
    local = set()
    # closure parameters |a, b| ; let [mut] x ; for x in ; identifiers bound by a pattern in these positions
    for i, t in enumerate(toks):
        if t == "let":
            j = i + 1
            while j < len(toks) and toks[j] != "=":
                if _IDENT.match(toks[j]) and toks[j] not in _KEYWORDS and (j + 1 >= len(toks) or toks[j + 1] not in ("::", "(", "{")):
                    local.add(toks[j])
                j += 1
        elif t == "for":
            j = i + 1
            while j < len(toks) and toks[j] != "in":
                if _IDENT.match(toks[j]) and toks[j] not in _KEYWORDS:
                    local.add(toks[j])
                j += 1
        elif t == "|" and i + 2 < len(toks):
            # a closure head `| x , y |` directly after `(`, `,`, `=`, `move` or at the start
            if i == 0 or toks[i - 1] in ("(", ",", "=", "move", "{"):
                j = i + 1
                ps = []
                while j < len(toks) and toks[j] != "|":
                    if _IDENT.match(toks[j]) and toks[j] not in _KEYWORDS:
                        ps.append(toks[j])
                    elif toks[j] not in (",", ":", "&", "(", ")") and not _IDENT.match(toks[j]):
                        ps = None
                        break
                    j += 1
                if ps is not None and j < len(toks):
                    local.update(ps)
    # match arms: identifiers between the start of an arm and `=>` that are arguments of a pattern constructor
    for i, t in enumerate(toks):
        if t == "=>":
            j = i - 1
            par = 0
            while j >= 0 and not (par == 0 and toks[j] in ("{", ",")):
                if toks[j] == ")":
                    par += 1
                elif toks[j] == "(":
                    par -= 1
                if _IDENT.match(toks[j]) and toks[j] not in _KEYWORDS and (j == 0 or toks[j - 1] != "::") and (j + 1 >= len(toks) or toks[j + 1] not in ("::", "(")):
                    local.add(toks[j])
                j -= 1
    turbofish = 0
    for i, t in enumerate(toks):
        prev = toks[i - 1] if i > 0 else ""
        nxt = toks[i + 1] if i + 1 < len(toks) else ""
        if t == "<" and prev == "::":
            turbofish += 1
            continue
        if turbofish:
            if t == "<":
                turbofish += 1
            elif t == ">":
                turbofish -= 1
            continue
        if not _IDENT.match(t) or t in _KEYWORDS:
            continue
        if prev in (".", "::", "as") or nxt in ("::", "!"):
            continue
        if nxt == ":" and prev in ("{", ","):        # struct field name
            continue
        if t in local:
            continue
        out.append(t)
    return out


# ------------------------------------------------------------------ dump -> skeleton

def rule_vars(hr):
    vs = set()
    for it in hr["body"]:
        if it["t"] == "clause":
            for a in it["args"]:
                if "v" in a:
                    vs.add(a["v"])
            for c in it["conds"]:
                vs.update(c["binds"])
        elif it["t"] == "cond":
            vs.update(it["cond"]["binds"])
        elif it["t"] == "gen":
            vs.update(it["binds"])
        elif it["t"] == "agg":
            vs.update(it["binds"])
            vs.update(it["bound"])
            for a in it["args"]:
                if "v" in a:
                    vs.add(a["v"])
    return vs


def _uses(expr, rv):
    ids = free_idents(expr)
    uses = []
    for x in ids:
        if x in rv and x not in uses:
            uses.append(x)
    foreign = any(x not in rv for x in ids)
    return uses, foreign


def sk_term(a, rv):
    if "v" in a:
        return ("v", a["v"])
    uses, _ = _uses(a["e"], rv)
    return ("f", uses) if uses else ("c",)


def sk_cond(c, rv):
    uses, foreign = _uses(c["expr"], rv)
    if c["kind"] == "if":
        return ("if", 1 if foreign else 0, uses)
    if len(c["binds"]) != 1:
        raise Untranslatable("a condition binding %d variables" % len(c["binds"]))
    return ("bind", c["binds"][0], 1 if foreign else 0, uses)


def skeleton(hr):
    rv = rule_vars(hr)
    body = []
    for it in hr["body"]:
        if it["t"] == "clause":
            body.append(("clause", it["rel"], [sk_term(a, rv) for a in it["args"]], [sk_cond(c, rv) for c in it["conds"]]))
        elif it["t"] == "cond":
            body.append(("cond", sk_cond(it["cond"], rv)))
        elif it["t"] == "gen":
            if len(it["binds"]) != 1:
                raise Untranslatable("a generator binding %d variables" % len(it["binds"]))
            body.append(("gen", it["binds"][0], _uses(it["expr"], rv)[0]))
        elif it["t"] == "agg":
            if len(it["binds"]) > 1:
                raise Untranslatable("an aggregate binding %d variables" % len(it["binds"]))
            args = []
            for a in it["args"]:
                if "w" in a:
                    args.append(("w",))
                elif "v" in a and a["v"] in it["bound"]:
                    args.append(("b", a["v"]))
                else:
                    args.append(("k", sk_term(a, rv)))
            body.append(("agg", it["binds"][0] if it["binds"] else None, list(it["bound"]), it["rel"], args))
        else:
            raise Untranslatable(it["t"])
    # a head argument that is an identifier but no rule variable (`None`, a constant) is an expression without variables
    heads = [(h["rel"], [("c",) if ("v" in a and a["v"] not in rv) else sk_term(a, rv) for a in h["args"]]) for h in hr["heads"]]
    return dict(heads=heads, body=body, src=list(range(len(body))))


def coq_term(t, V):
    if t[0] == "v":
        return "TVar %s" % dl.cnat(V(t[1]))
    if t[0] == "c":
        return "TConst 0"
    return "TFun 0%%nat %s" % dl.cnats(V(x) for x in t[1])


def coq_cond(c, V):
    if c[0] == "if":
        return "CIf %s %s" % (dl.cnat(c[1]), dl.cnats(V(x) for x in c[2]))
    uses = dl.cnats(V(x) for x in c[3])
    return "CBind %s %s %s" % (dl.cnat(V(c[1])), dl.cnat(c[2]), uses)


def coq_bitem(it, V, R):
    if it[0] == "clause":
        args = dl.coq_list(coq_term(t, V) for t in it[2])
        return "BClause %s %s %s" % (dl.cnat(R(it[1])), args, dl.coq_list(coq_cond(c, V) for c in it[3]))
    if it[0] == "cond":
        return "BCond (%s)" % coq_cond(it[1], V)
    if it[0] == "gen":
        uses = dl.cnats(V(x) for x in it[2])
        return "BGen %s 0%%nat %s" % (dl.cnat(V(it[1])), uses)
    out = "None" if it[1] is None else "(Some %s)" % dl.cnat(V(it[1]))
    bound = dl.cnats(V(x) for x in it[2])
    args = []
    for a in it[4]:
        if a[0] == "w":
            args.append("AWild")
        elif a[0] == "b":
            args.append("ABound %s" % dl.cnat(V(a[1])))
        else:
            args.append("AKey (%s)" % coq_term(a[1], V))
    return "BAgg %s 0%%nat %s %s %s" % (out, bound, dl.cnat(R(it[3])), dl.coq_list(args))


def coq_rule(r, R):
    V = dl.Names()
    body = dl.coq_list(coq_bitem(it, V, R) for it in r["body"])
    heads = dl.coq_list("(%s, %s)" % (dl.cnat(R(rel)), dl.coq_list(coq_term(t, V) for t in args)) for rel, args in r["heads"])
    return "{| heads := %s; body := %s |}" % (heads, body)


def model_expr(dump, rules, R):
    P = dl.coq_list(coq_rule(r, R) for r in rules)
    arities = dl.coq_list("(%s, %s)" % (dl.cnat(R(rel["name"])), dl.cnat(rel["arity"])) for rel in dump["relations"])
    rels = dl.coq_list("(%s, %s, %s)" % (dl.cnat(R(rel["name"])), dl.cnat(rel["arity"]), "true" if rel["lattice"] else "false") for rel in dump["relations"])
    lats = dl.cnats(R(rel["name"]) for rel in dump["relations"] if rel["lattice"])
    sccs = dl.coq_list(dl.cnats(js) for js in plan_model.partition_of(dump))
    return "lat_report %s %s %s %s %s" % (lats, arities, rels, P, sccs)


def real_plan_keeps_lattice_column(dump):
    """no body clause / aggregate of the DUMPED plan on a lattice relation is indexed on the lattice column, and no lattice is empty"""
    ar = {rel["name"]: rel["arity"] for rel in dump["relations"] if rel["lattice"]}
    if any(a == 0 for a in ar.values()):
        return False
    for sc in dump["sccs"]:
        for v in sc["variants"]:
            for it in v["items"]:
                if it["t"] in ("clause", "agg") and it["rel"] in ar and any(i + 1 >= ar[it["rel"]] for i in it["idx"]):
                    return False
    return True


def features(dump):
    f = plan_model.features(dump)
    lats = {rel["name"] for rel in dump["relations"] if rel["lattice"]}
    for sc in dump["sccs"]:
        if sc["looping"] and lats & set(sc["dynamic"]):
            f.add("lattice_recursive")
        for v in sc["variants"]:
            for k, it in enumerate(v["items"]):
                if it["t"] == "clause" and it["rel"] in lats:
                    f.add("lattice_clause")
                    if it["idx"]:
                        f.add("lattice_clause_indexed")
                    if v["sj"] is not None and k == v["sj"]:
                        f.add("lattice_first_of_simple_join")
                if it["t"] == "agg" and it["rel"] in lats:
                    f.add("lattice_agg")
    return f


# ------------------------------------------------------------------ the check

def check(records, dumps, stats, tag="planlat"):
    todo, exprs = [], []
    for rid, kind, text, fam in records:
        d = dumps.get(rid)
        if d is None or d.get("status") != "ok" or "sccs" not in d:
            stats["not_compiled"] = stats.get("not_compiled", 0) + 1
            stats.setdefault("not_compiled_by_family", {}).setdefault(fam, 0)
            stats["not_compiled_by_family"][fam] += 1
            continue
        try:
            R = dl.Names()
            for rel in d["relations"]:
                R(rel["name"])
            rules = [skeleton(hr) for hr in d["hir_rules"]]
            exp = plan_model.expected_summary(d, rules, R)
            ex = model_expr(d, rules, R)
        except Untranslatable as e:
            stats["untranslatable"] = stats.get("untranslatable", 0) + 1
            stats.setdefault("untranslatable_samples", []).append(str(e)[:120])
            continue
        todo.append((rid, kind, text, fam, d, exp, R))
        exprs.append(ex)
    vals = lib.coq_eval(tag, PRELUDE, exprs, per_shard=max(8, (len(exprs) + lib.NCPU - 1) // lib.NCPU))
    mism = []
    for (rid, kind, text, fam, d, exp, R), val in zip(todo, vals):
        got = plan_model.model_summary(val[0])
        stats["evaluations"] = stats.get("evaluations", 0) + 1
        byfam = stats.setdefault("by_family", {}).setdefault(fam, dict(programs=0, wf_lat=0, wf_lat_syn=0, no_agg=0))
        byfam["programs"] += 1
        fs = features(d)
        for x in fs:
            stats.setdefault("features", {})[x] = stats.setdefault("features", {}).get(x, 0) + 1
        if fs & {"lattice_clause", "lattice_agg"}:
            stats.setdefault("_distinct", set()).add(json.dumps(exp, default=str))
        diffs = []
        if val[1] is not False:
            diffs.append("compile_error = %s on a program the macro compiles" % val[1])
        if val[2] is not True:
            diffs.append("wf_core = %s on the desugared rules of a program the macro compiles" % val[2])
        else:
            stats["wf_core_holds"] = stats.get("wf_core_holds", 0) + 1
        if val[3] is not True:
            diffs.append("sccs_ok = %s on the SCC partition computed by the macro" % val[3])
        else:
            stats["sccs_ok_holds"] = stats.get("sccs_ok_holds", 0) + 1
        # 1. the plan
        if len(got) != len(exp):
            diffs.append("number of SCCs: model %d, macro %d" % (len(got), len(exp)))
        for k, (g, e) in enumerate(zip(got, exp)):
            if g[0] != e[0]:
                only_m = [v for v in g[0] if v not in e[0]]
                only_i = [v for v in e[0] if v not in g[0]]
                diffs.append("scc %d variants: only in model %s; only in macro %s" % (k, only_m[:3], only_i[:3]))
            if g[1] != e[1]:
                diffs.append("scc %d dynamic relations: model %s, macro %s" % (k, g[1], e[1]))
            if g[2] != e[2]:
                diffs.append("scc %d is_looping: model %s, macro %s" % (k, g[2], e[2]))
        want = {R(rel["name"]): sorted(set(tuple(ix) for ix in rel["indices"])) for rel in d["relations"]}
        have = {}
        for q, ix in val[4]:
            have.setdefault(q, set()).add(tuple(ix))
        have = {q: sorted(v) for q, v in have.items()}
        if have != want:
            bad = [q for q in sorted(set(want) | set(have)) if want.get(q) != have.get(q)]
            diffs.append("indices of relation(s) %s: model %s, macro %s" % (bad[:3], [have.get(q) for q in bad[:3]], [want.get(q) for q in bad[:3]]))
        # 2. hypotheses and conclusions
        wf_lat, wf_syn, no_agg = val[5]
        valid, alat_ok, lat_ok, below = val[6]
        real_ok = real_plan_keeps_lattice_column(d)
        for key, flag in (("wf_lat", wf_lat), ("wf_lat_syn", wf_syn), ("no_agg", no_agg)):
            if flag is True:
                byfam[key] += 1
        for key, flag in (("wf_lat_holds", wf_lat), ("wf_lat_syn_holds", wf_syn), ("no_agg_holds", no_agg), ("model_plan_validates", valid),
                          ("model_plan_alat_plan_ok", alat_ok), ("model_plan_lat_plan_ok", lat_ok), ("model_plan_below_prog_N", below),
                          ("real_plan_keeps_lattice_column", real_ok)):
            if flag is True:
                stats[key] = stats.get(key, 0) + 1
        if valid is not True and val[2] is True and val[3] is True:
            diffs.append("validate(compile_model) = %s although wf_core and sccs_ok hold (theorem compile_model_valid)" % valid)
        if wf_lat is True and alat_ok is not True:
            diffs.append("alat_plan_ok(compile_model) = %s although wf_lat holds (theorem compile_model_alat_plan_ok)" % alat_ok)
        if wf_lat is True and no_agg is True and lat_ok is not True:
            diffs.append("lat_plan_ok(compile_model) = %s although wf_lat and no_agg hold (theorem compile_model_lat_plan_ok)" % lat_ok)
        if below is not True:
            diffs.append("plan_below (prog_N P) (compile_model) = %s (theorem compile_model_plan_below_N)" % below)
        if wf_syn is True and wf_lat is not True:
            diffs.append("wf_lat_syn holds but wf_lat = %s (theorem wf_lat_of_syn)" % wf_lat)
        if wf_lat is not True and alat_ok is True:
            diffs.append("wf_lat = %s but the model plan passes alat_plan_ok: wf_lat is not exact" % wf_lat)
        # 3. exactness against the real plan
        if (wf_lat is True) != real_ok:
            diffs.append("wf_lat = %s on the desugared program, but the plan computed by the MACRO %s a lattice relation on its lattice column"
                         % (wf_lat, "never indexes" if real_ok else "indexes"))
        if wf_syn is not True and wf_lat is True:
            stats["wf_lat_but_not_syn"] = stats.get("wf_lat_but_not_syn", 0) + 1
        if diffs:
            mism.append(dict(case=dict(id=rid, kind=kind, family=fam, program=text, summary=d.get("summary")), impl=exp, model=got, spec=None,
                             kind="model_differs", known=None, what=WHAT + ": " + "; ".join(diffs)[:700]))
    return mism


# ------------------------------------------------------------------ cases

PROBES = [
    # (name, expected wf_lat, text)
    ("const_in_lattice_column", False, "lattice l(i32, i32);\nrelation r(i32);\nr(x) <-- l(x, 3);"),
    ("bound_var_in_lattice_column", False, "lattice l(i32, i32);\nrelation r(i32);\nrelation e(i32, i32);\nr(x) <-- e(x, v), l(x, v);"),
    ("simple_join_on_lattice_value", False, "lattice l(i32, i32);\nrelation r(i32);\nrelation e(i32, i32);\nr(x) <-- l(x, v), e(v, x);"),
    ("two_lattice_clauses_share_value", False, "lattice l(i32, i32);\nrelation r(i32);\nr(x) <-- l(x, v), l(y, v);"),
    ("repeated_var_in_lattice_clause", True, "lattice l(i32, i32);\nrelation r(i32);\nr(x) <-- l(x, x);"),
    ("late_simple_join_on_lattice_value", False, "lattice l(i32, i32);\nrelation r(i32);\nrelation e(i32, i32);\nr(x) <-- let k = 1, l(x, v), e(v, k);"),
    ("agg_key_on_lattice_column", False, "lattice l(i32, i32);\nrelation r(i32);\nrelation e(i32, i32);\nr(n as i32) <-- e(x, _), agg n = ascent::aggregators::count() in l(_, x);"),
    ("agg_wildcard_lattice_column", True, "lattice l(i32, i32);\nrelation r(i32);\nrelation e(i32, i32);\nr(n as i32) <-- e(x, _), agg n = ascent::aggregators::count() in l(x, _);"),
    ("agg_bound_lattice_column", True, "lattice l(i32, i32);\nrelation r(i32, i32);\nrelation e(i32, i32);\nr(x, m) <-- e(x, _), agg m = ascent::aggregators::max(v) in l(x, v);"),
    ("negation_lattice", True, "lattice l(i32, i32);\nrelation r(i32);\nrelation e(i32, i32);\nr(x) <-- e(x, _), !l(x, _);"),
    ("filter_in_attached_if", True, "lattice l(i32, i32);\nrelation r(i32);\nr(x) <-- l(x, v) if *v > 2;"),
    ("value_used_by_third_clause", True, "lattice l(i32, i32);\nrelation r(i32);\nrelation e(i32, i32);\nr(x) <-- e(x, y), l(y, v), e(v, x);"),
    ("not_simple_join_so_not_reindexed", True, "lattice l(i32, i32);\nrelation r(i32);\nrelation e(i32, i32);\nr(x) <-- l(x, v) if let Some(k) = Some(*v), e(v, x);"),
    ("unary_lattice", True, "lattice top(i32);\nrelation e(i32, i32);\nrelation r(i32);\ntop(*y) <-- e(_, y);\nr(*v) <-- top(v);"),
    ("shortest_path", True, "relation edge(i32, i32, u32);\nlattice sp(i32, i32, ascent::Dual<u32>);\nrelation near(i32, i32);\n"
                            "sp(x, y, ascent::Dual(*w)) <-- edge(x, y, w);\nsp(x, z, ascent::Dual(l.0 + *w)) <-- edge(x, y, w), sp(y, z, l);\nnear(x, y) <-- sp(x, y, l) if l.0 <= 4;"),
]


def shape_text(rng):
    """gen/plan_model.py gen_shape_program with one to three of its relations declared `lattice`"""
    p = plan_model.gen_shape_program(rng)
    text = dl.rust_program_text(p)
    names = [n for (n, a, k) in p["rels"]]
    for n in rng.sample(names, rng.choice([1, 1, 2, 3])):
        text = text.replace("relation %s(" % n, "lattice %s(" % n)
    return text


def gen_records(tier, seed):
    rng = lib.rng_for(seed, "PLANLAT")
    n = 240 if tier == "quick" else 2400
    recs = [("probe_" + name, "ascent_par" if k % 3 == 2 else "ascent", text, "probe") for k, (name, _, text) in enumerate(PROBES)]
    tys = list(c03_vocab.COMPOSITE)
    for k in range(n):
        u = k % 12
        if u < 4:
            fam = "c03_gen.gen_program"
            text = c03_gen.rust_program_text(c03_gen.gen_program(rng, ["max", "dual"] if k % 24 == 0 else None))
        elif u < 6:
            fam = "c03_gen.composite_program"
            text = c03_gen.rust_program_text(c03_gen.composite_program(rng, ty=tys[(k // 12) % len(tys)]))
        elif u < 8:
            fam = "c04_lat.program"
            text = c04_lat.program(rng)["text"]
        else:
            fam = "shape+lattice"
            text = shape_text(rng)
        kind = "ascent_par" if k % 5 == 3 else "ascent"        # the planner is shared by the parallel macro
        recs.append(("planlat_%d" % k, kind, text, fam))
    return recs


def run(tier="quick", seed=1):
    t0 = time.time()
    records = gen_records(tier, seed)
    stats, mism = {}, []
    t_front = t_coq = 0.0
    for i in range(0, len(records), 1000):
        part = records[i:i + 1000]
        t1 = time.time()
        dumps = prog.front_run([(r[0], r[1], r[2]) for r in part])
        t2 = time.time()
        mism += check(part, dumps, stats)
        t_front += t2 - t1
        t_coq += time.time() - t2
        # the probes state their expected wf_lat: a probe that does not compile or flips is a defect of the tie
        for name, want, text in PROBES:
            d = dumps.get("probe_" + name)
            if d is None:
                continue
            if d.get("status") != "ok":
                mism.append(dict(case=dict(id="probe_" + name, program=text), impl=d.get("errors"), model=None, spec=None, kind="model_differs", known=None,
                                 what="probe does not pass the front end: %s %s" % (d.get("status"), d.get("errors"))))
            elif real_plan_keeps_lattice_column(d) != want:
                mism.append(dict(case=dict(id="probe_" + name, program=text), impl=real_plan_keeps_lattice_column(d), model=want, spec=None, kind="model_differs",
                                 known=None, what="probe: the macro's plan was expected to %s the lattice column" % ("keep off" if want else "index")))
    distinct = stats.pop("_distinct", set())
    return dict(programs=len(records), evaluations=stats.pop("evaluations", 0), distinct_nontrivial=len(distinct),
                rule="distinct dumped plans with a body clause or an aggregate on a lattice relation",
                mismatches=mism, wall=time.time() - t0, wall_front=t_front, wall_coq=t_coq, **stats)


if __name__ == "__main__":
    tier = sys.argv[1] if len(sys.argv) > 1 else "quick"
    seed = int(sys.argv[2]) if len(sys.argv) > 2 else 1
    b = lib.sh(["python3", "-m", "gen.mk", "Plan/PlanLatShow.vo"], cwd=lib.VERIF)
    if b[0] != 0:
        print(b[1][-3000:])
        sys.exit(2)
    r = run(tier, seed)
    ms = r.pop("mismatches")
    r["untranslatable_samples"] = r.get("untranslatable_samples", [])[:5]
    print(json.dumps(r, indent=1, default=str, sort_keys=True))
    for m in ms[:6]:
        print("MISMATCH %s\n%s\n%s" % (m["case"]["id"], m["what"], m["case"]["program"]))
    print("plan_lat: programs=%d evaluations=%d distinct_nontrivial=%d wf_lat=%d wf_lat_syn=%d mismatches=%d wall=%.1fs" % (
        r["programs"], r["evaluations"], r["distinct_nontrivial"], r.get("wf_lat_holds", 0), r.get("wf_lat_syn_holds", 0), len(ms), r["wall"]))
    sys.exit(1 if ms else 0)
