"""Ascent programs as python ASTs: vocabulary, Rust renderer, FRONT dump parser, Coq renderer.

AST
  program = dict(rels=[(name, arity, kind)], rules=[rule], macro='ascent')      kind: 'rel' | ('lat', lty) | ('ds', provider)
  rule    = dict(heads=[(rel, [term])], body=[item])
  term    = ('v', x) | ('c', int) | ('f', fname, [x..]) | ('w',)            ('w' = wildcard _, body clauses only)
  cond    = ('if', pname, [x..]) | ('let', x, fname, [x..]) | ('iflet', x, pfname, [x..])
  item    = ('clause', rel, [term], [cond]) | ('cond', cond) | ('gen', x, gname, [x..])
          | ('agg', out|None, aname, [bound x..], rel, [aarg])   aarg = ('w',) | ('b', x) | ('k', term)
          | ('neg', rel, [term])
Variables bound by clauses are references in the generated Rust (rendered *x inside expressions),
variables bound by let / if let / for / agg are values (rendered x).
"""
import json
import re

# name: (coq id, arity, rust template with $0 $1 ... for argument value expressions)
FUNS = {
    "incs": (0, 1, "($0 + 1).min(7)"),
    "addm": (1, 2, "($0 + $1).rem_euclid(7)"),
    "mod3": (2, 1, "($0).rem_euclid(3)"),
    "decs": (3, 1, "($0 - 1).max(0)"),
    "max2": (4, 2, "($0).max($1)"),
    "asi32": (5, 1, "($0 as i32)"),
}
PREDS = {
    "lt": (0, 2, "$0 < $1"),
    "ne": (1, 2, "$0 != $1"),
    "even": (2, 1, "($0).rem_euclid(2) == 0"),
    "le": (3, 2, "$0 <= $1"),
}
PARTIALS = {
    "predpos": (100, 1, "if $0 > 0 { Some($0 - 1) } else { None }"),
    "half": (101, 1, "if ($0).rem_euclid(2) == 0 { Some($0 / 2) } else { None }"),
}
GENS = {
    "upto": (0, 1, "0..($0).min(4)"),
    "pair": (1, 2, "[$0, $1]"),
    "range3": (2, 0, "0..3i32"),
}
AGGS = {"count": 0, "sum": 1, "min": 2, "max": 3, "not": 4}
EQ_PRED = 4      # produced by desugaring of repeated variables
ID_PARTIAL = 102


def py_fun(name, a):
    if name == "incs":
        return min(a[0] + 1, 7)
    if name == "addm":
        return (a[0] + a[1]) % 7
    if name == "mod3":
        return a[0] % 3
    if name == "decs":
        return max(a[0] - 1, 0)
    if name == "max2":
        return max(a[0], a[1])
    if name == "asi32":
        return a[0]
    raise KeyError(name)


# ------------------------------------------------------------------ Rust rendering

def _subst(tmpl, args):
    out = tmpl
    for i, a in enumerate(args):
        out = out.replace("$%d" % i, a)
    return out


class Kinds:
    """tracks whether a rule variable is a reference (clause-bound) or a value"""

    def __init__(self):
        self.k = {}

    def ref(self, x):
        self.k.setdefault(x, "ref")

    def val(self, x):
        self.k.setdefault(x, "val")

    def use(self, x):
        return "*" + x if self.k.get(x, "ref") == "ref" else x


CONST_RENDER = [str]     # replaced temporarily by rust_program_text(cmap=...)


def rust_term(t, kinds, in_expr=False):
    if t[0] == "v":
        return kinds.use(t[1]) if in_expr else t[1]
    if t[0] == "c":
        return CONST_RENDER[0](t[1])
    if t[0] == "w":
        return "_"
    if t[0] == "f":
        return _subst(FUNS[t[1]][2], [kinds.use(x) for x in t[2]])
    raise ValueError(t)


def rust_cond(c, kinds):
    if c[0] == "if":
        return "if " + _subst(PREDS[c[1]][2], [kinds.use(x) for x in c[2]])
    if c[0] == "let":
        s = "let %s = %s" % (c[1], _subst(FUNS[c[2]][2], [kinds.use(x) for x in c[3]]))
        kinds.val(c[1])
        return s
    if c[0] == "letc":
        kinds.val(c[1])
        return "let %s = %di32" % (c[1], c[2])
    if c[0] == "iflet":
        s = "if let Some(%s) = %s" % (c[1], _subst(PARTIALS[c[2]][2], [kinds.use(x) for x in c[3]]))
        kinds.val(c[1])
        return s
    raise ValueError(c)


def rust_item(it, kinds):
    if it[0] == "clause":
        args = []
        for t in it[2]:
            args.append(rust_term(t, kinds))
            if t[0] == "v":
                kinds.ref(t[1])
        s = "%s(%s)" % (it[1], ", ".join(args))
        for c in it[3]:
            s += " " + rust_cond(c, kinds)
        return s
    if it[0] == "cond":
        return rust_cond(it[1], kinds)
    if it[0] == "gen":
        s = "for %s in %s" % (it[1], _subst(GENS[it[2]][2], [kinds.use(x) for x in it[3]]))
        kinds.val(it[1])
        return s
    if it[0] == "neg":
        return "!%s(%s)" % (it[1], ", ".join(rust_term(t, kinds) for t in it[2]))
    if it[0] == "agg":
        _, out, an, bound, rel, args = it
        ra = []
        for a in args:
            if a[0] == "w":
                ra.append("_")
            elif a[0] == "b":
                ra.append(a[1])
            else:
                ra.append(rust_term(a[1], kinds))
        pat = out if out else "()"
        agg = {"count": "ascent::aggregators::count", "sum": "ascent::aggregators::sum", "min": "ascent::aggregators::min",
               "max": "ascent::aggregators::max", "not": "ascent::aggregators::not"}[an]
        if out:
            kinds.val(out)
        return "agg %s = %s(%s) in %s(%s)" % (pat, agg, ", ".join(bound), rel, ", ".join(ra))
    if it[0] == "disj":
        alts = []
        for alt in it[1]:
            alts.append(", ".join(rust_item(i, kinds) for i in alt))
        return "(" + " || ".join(alts) + ")"
    raise ValueError(it)


def rust_rule(r):
    kinds = Kinds()
    body = [rust_item(it, kinds) for it in r["body"]]
    heads = []
    for rel, args in r["heads"]:
        heads.append("%s(%s)" % (rel, ", ".join(rust_term(t, kinds, in_expr=(t[0] != "v")) for t in args)))
    if not body:
        return "%s;" % ", ".join(heads)
    return "%s <-- %s;" % (", ".join(heads), ", ".join(body))


def col_type(kind, i, arity, ty="i32"):
    if isinstance(kind, tuple) and kind[0] == "lat" and i == arity - 1:
        return kind[1]
    return ty


def rust_decl(name, arity, kind, ty="i32"):
    cols = ", ".join(col_type(kind, i, arity, ty) for i in range(arity))
    if isinstance(kind, tuple) and kind[0] == "lat":
        return "lattice %s(%s);" % (name, cols)
    if isinstance(kind, tuple) and kind[0] == "ds":
        return "#[ds(%s)] relation %s(%s);" % (kind[1], name, cols)
    return "relation %s(%s);" % (name, cols)


def rust_program_text(p, ty="i32", cmap=None):
    """the text between the braces of ascent!{ ... }; cmap renders constants (column type changes)"""
    lines = list(p.get("attrs", []))
    lines += [rust_decl(n, a, k, ty) for (n, a, k) in p["rels"]]
    old = CONST_RENDER[0]
    if cmap:
        CONST_RENDER[0] = cmap
    try:
        lines += [rust_rule(r) for r in p["rules"]]
    finally:
        CONST_RENDER[0] = old
    return "\n".join(lines)


# ------------------------------------------------------------------ FRONT dump -> core rules

def _strip(s):
    """normalise token spacing: keep a single space only between two word characters"""
    s = re.sub(r"\s+", " ", s.strip())
    return re.sub(r"(?<![A-Za-z0-9_]) | (?![A-Za-z0-9_])", "", s)


def _tmpl_regex(tmpl):
    t = tmpl
    for i in range(4):
        t = t.replace("$%d" % i, "ARG%dQ" % i)
    s = re.escape(_strip(t)).replace("\\ ", " ?")
    seen = {}

    def rep(m):
        i = m.group(1)
        if i in seen:
            return r"\*?(?P=a%s)" % i
        seen[i] = True
        return r"\*?(?P<a%s>[A-Za-z_]\w*)" % i
    s = re.sub(r"ARG(\d)Q", rep, s)
    return re.compile("^" + s + "$")


_FUN_RX = [(n, _tmpl_regex(t[2]), t[1]) for n, t in FUNS.items()]
_PRED_RX = [(n, _tmpl_regex(t[2]), t[1]) for n, t in PREDS.items()]
_PART_RX = [(n, _tmpl_regex(t[2]), t[1]) for n, t in PARTIALS.items()]
_GEN_RX = [(n, _tmpl_regex(t[2]), t[1]) for n, t in GENS.items()]


class ParseError(Exception):
    pass


def _match(rxs, text):
    s = _strip(text)
    while s.startswith("(") and s.endswith(")") and _balanced(s[1:-1]):
        s = s[1:-1]
    for name, rx, ar in rxs:
        for cand in (s, "(" + s + ")"):
            m = rx.match(cand)
            if m:
                return name, [m.group("a%d" % i) for i in range(ar)]
    return None


def _balanced(s):
    d = 0
    for ch in s:
        if ch == "(":
            d += 1
        elif ch == ")":
            d -= 1
            if d < 0:
                return False
    return d == 0


def parse_expr(text):
    """token string of a Rust expression (as printed by quote) -> term"""
    s = _strip(text)
    while s.startswith("(") and s.endswith(")") and _balanced(s[1:-1]):
        s = s[1:-1]
    if re.fullmatch(r"-?\d+(i32|i64|u32)?", s):
        return ("c", int(re.match(r"-?\d+", s).group(0)))
    if re.fullmatch(r"\*?[A-Za-z_]\w*", s):
        return ("v", s.lstrip("*"))
    m = _match(_FUN_RX, text)
    if m:
        return ("f", m[0], m[1])
    raise ParseError("expression outside the vocabulary: %r" % text)


def parse_arg(a):
    if "v" in a:
        return ("v", a["v"])
    if "w" in a:
        return ("w",)
    return parse_expr(a["e"])


class Fresh:
    def __init__(self):
        self.n = 0

    def new(self):
        self.n += 1
        return "__t%d" % self.n


def parse_cond(c, fresh):
    """dumped cond clause -> list of core conds"""
    kind = c["kind"]
    if kind == "if":
        s = _strip(c["expr"])
        m = re.fullmatch(r"([A-Za-z_]\w*)\.eq\(&\((.*)\)\)", s)
        if m:   # produced by rule_desugar_repeated_vars
            inner = parse_expr(m.group(2))
            if inner[0] == "v":
                return [("if", "eq", [m.group(1), inner[1]])]
            t = fresh.new()
            if inner[0] == "c":
                raise ParseError("constant in a desugared equality: %r" % c["expr"])
            return [("let", t, inner[1], inner[2]), ("if", "eq", [m.group(1), t])]
        m = re.fullmatch(r"([A-Za-z_]\w*)==([A-Za-z_]\w*)", s)
        if m:   # repeated variable (both references)
            return [("if", "eq", [m.group(1), m.group(2)])]
        mm = _match(_PRED_RX, c["expr"])
        if mm:
            return [("if", mm[0], mm[1])]
        raise ParseError("if condition outside the vocabulary: %r" % c["expr"])
    if kind == "let":
        x = _strip(c["pat"])
        t = parse_expr(c["expr"])
        if t[0] == "f":
            return [("let", x, t[1], t[2])]
        if t[0] == "c":
            if not 0 <= t[1] < 50:
                raise ParseError("constant let is outside the vocabulary: %r" % c["expr"])
            return [("letc", x, t[1])]
        return [("iflet", x, "id", [t[1]])]
    if kind == "iflet":
        m = re.fullmatch(r"Some\(([A-Za-z_]\w*)\)", _strip(c["pat"]))
        if not m:
            raise ParseError("if-let pattern outside the vocabulary: %r" % c["pat"])
        mm = _match(_PART_RX, c["expr"])
        if mm:
            return [("iflet", m.group(1), mm[0], mm[1])]
        raise ParseError("if-let expression outside the vocabulary: %r" % c["expr"])
    raise ParseError(kind)


def parse_hir_rule(hr):
    """dumped HIR rule -> core rule (python AST, with per-clause idx kept aside)"""
    fresh = Fresh()
    body = []
    src = []
    for di, it in enumerate(hr["body"]):
        n0 = len(body)
        if it["t"] == "clause":
            conds = []
            for c in it["conds"]:
                conds += parse_cond(c, fresh)
            body.append(("clause", it["rel"], [parse_arg(a) for a in it["args"]], conds))
        elif it["t"] == "cond":
            for c in parse_cond(it["cond"], fresh):
                body.append(("cond", c))
        elif it["t"] == "gen":
            mm = _match(_GEN_RX, it["expr"])
            if not mm:
                raise ParseError("generator outside the vocabulary: %r" % it["expr"])
            body.append(("gen", _strip(it["pat"]), mm[0], mm[1]))
        elif it["t"] == "agg":
            an = _strip(it["aggregator"]).split("::")[-1]
            out = None if _strip(it["pat"]) == "()" else _strip(it["pat"])
            args = []
            for a in it["args"]:
                if "w" in a:
                    args.append(("w",))
                elif "v" in a and a["v"] in it["bound"]:
                    args.append(("b", a["v"]))
                else:
                    args.append(("k", parse_arg(a)))
            body.append(("agg", out, an, list(it["bound"]), it["rel"], args))
        else:
            raise ParseError(it["t"])
        src += [di] * (len(body) - n0)
    heads = [(h["rel"], [parse_arg(a) for a in h["args"]]) for h in hr["heads"]]
    return dict(heads=heads, body=body, src=src)


# ------------------------------------------------------------------ Coq rendering

class Names:
    """identifier -> nat, per rule for variables, global for relations"""

    def __init__(self):
        self.d = {}

    def __call__(self, x):
        if x not in self.d:
            self.d[x] = len(self.d)
        return self.d[x]


def cnat(n):
    return "%d%%nat" % n


def cnats(ns):
    return "[" + "; ".join(cnat(n) for n in ns) + "]"


def coq_term(t, V):
    if t[0] == "v":
        return "TVar %s" % cnat(V(t[1]))
    if t[0] == "c":
        return "TConst (%d)" % t[1]
    if t[0] == "f":
        return "TFun %s %s" % (cnat(FUNS[t[1]][0]), cnats(V(x) for x in t[2]))
    if t[0] == "w":
        return "TVar %s" % cnat(V(("wild", len(V.d))))
    raise ValueError(t)


def coq_cond(c, V):
    if c[0] == "if":
        pid = EQ_PRED if c[1] == "eq" else PREDS[c[1]][0]
        return "CIf %s %s" % (cnat(pid), cnats(V(x) for x in c[2]))
    if c[0] == "let":
        args = cnats(V(x) for x in c[3])
        return "CBind %s %s %s" % (cnat(V(c[1])), cnat(FUNS[c[2]][0]), args)
    if c[0] == "letc":
        return "CBind %s %s []" % (cnat(V(c[1])), cnat(200 + c[2]))
    if c[0] == "iflet":
        fid = ID_PARTIAL if c[2] == "id" else PARTIALS[c[2]][0]
        args = cnats(V(x) for x in c[3])
        return "CBind %s %s %s" % (cnat(V(c[1])), cnat(fid), args)
    raise ValueError(c)


def coq_aarg(a, V):
    if a[0] == "w":
        return "AWild"
    if a[0] == "b":
        return "ABound %s" % cnat(V(a[1]))
    return "AKey (%s)" % coq_term(a[1], V)


def coq_list(xs):
    return "[" + "; ".join(xs) + "]"


def coq_heads(heads, V, R):
    return coq_list("(%s, %s)" % (cnat(R(rel)), coq_list(coq_term(t, V) for t in args)) for rel, args in heads)


def coq_bitem(it, V, R):
    if it[0] == "clause":
        return "BClause %s %s %s" % (cnat(R(it[1])), coq_list(coq_term(t, V) for t in it[2]), coq_list(coq_cond(c, V) for c in it[3]))
    if it[0] == "cond":
        return "BCond (%s)" % coq_cond(it[1], V)
    if it[0] == "gen":
        return "BGen %s %s %s" % (cnat(V(it[1])), cnat(GENS[it[2]][0]), cnats(V(x) for x in it[3]))
    if it[0] == "agg":
        _, out, an, bound, rel, args = it
        o = "None" if out is None else "(Some %s)" % cnat(V(out))
        return "BAgg %s %s %s %s %s" % (o, cnat(AGGS[an]), cnats(V(x) for x in bound), cnat(R(rel)), coq_list(coq_aarg(a, V) for a in args))
    if it[0] == "neg":
        args = [("w",) if t[0] == "w" else ("k", t) for t in it[2]]
        return "BAgg None %s [] %s %s" % (cnat(AGGS["not"]), cnat(R(it[1])), coq_list(coq_aarg(a, V) for a in args))
    raise ValueError(it)


def coq_rule(r, R):
    V = Names()
    body = coq_list(coq_bitem(it, V, R) for it in r["body"])
    heads = coq_heads(r["heads"], V, R)
    return "{| heads := %s; body := %s |}" % (heads, body)


VERS = {"total": "VTotal", "delta": "VDelta", "total+delta": "VTotalDelta"}


def coq_variant(rule, vdump, R):
    """core rule (parsed from the HIR dump) + dumped variant (idx / version per item) -> Coq variant"""
    V = Names()
    items = []
    body = rule["body"]
    ditems = vdump["items"]
    for it, di in zip(body, rule["src"]):
        d = ditems[di]
        if it[0] == "clause":
            assert d["t"] == "clause" and d["rel"] == it[1], (it, d)
            items.append("PClause %s %s %s %s %s" % (cnat(R(it[1])), coq_list(coq_term(t, V) for t in it[2]),
                                                     coq_list(coq_cond(c, V) for c in it[3]), cnats(d["idx"]), VERS[d["ver"]]))
        elif it[0] == "cond":
            assert d["t"] == "cond", (it, d)
            items.append("PCond (%s)" % coq_cond(it[1], V))
        elif it[0] == "gen":
            assert d["t"] == "gen"
            items.append("PGen %s %s %s" % (cnat(V(it[1])), cnat(GENS[it[2]][0]), cnats(V(x) for x in it[3])))
        elif it[0] == "agg":
            assert d["t"] == "agg" and d["rel"] == it[4]
            _, out, an, bound, rel, args = it
            o = "None" if out is None else "(Some %s)" % cnat(V(out))
            items.append("PAgg %s %s %s %s %s %s" % (o, cnat(AGGS[an]), cnats(V(x) for x in bound), cnat(R(rel)),
                                                     coq_list(coq_aarg(a, V) for a in args), cnats(d["idx"])))
        else:
            raise ValueError(it)
    heads = coq_heads(rule["heads"], V, R)
    sj = "None" if vdump["sj"] is None else "(Some %s)" % cnat(vdump["sj"])
    return "{| v_rule := %s; v_heads := %s; v_items := %s; v_sj := %s; v_reord := %s |}" % (
        cnat(max(vdump["hir"], 0)), heads, coq_list(items), sj, "true" if vdump["reord"] else "false")


def coq_plan(dump, R):
    rules = [parse_hir_rule(hr) for hr in dump["hir_rules"]]
    sccs = []
    for sc in dump["sccs"]:
        vs = [coq_variant(rules[v["hir"]], v, R) for v in sc["variants"]]
        sccs.append("{| s_vars := %s; s_dyn := %s; s_loop := %s |}" % (coq_list(vs), cnats(R(r) for r in sc["dynamic"]), "true" if sc["looping"] else "false"))
    return coq_list(sccs), rules


def coq_facts(facts, R):
    """facts: list of (rel, tuple)"""
    return coq_list("(%s, [%s])" % (cnat(R(r)), "; ".join("(%d)" % v for v in t)) for r, t in facts)
