"""C15 program ASTs (superset of gen/dl.py's rules), Rust text renderer and Coq (Check/CheckModel.v) renderer.

program = dict(attrs=[pattr], items=[item], sources={name: [item]})
  pattr  = 'measure_rule_times' | 'generate_run_timeout' | 'inter_rule_parallelism' | 'ds' | 'unknown'
  item   = ('rel', name, [type names], is_lattice, [rattr])        rattr = 'ds' | 'other' | 'known' (a Rust attribute rustc accepts)
         | ('rule', nattrs, rule)                                   rule = dict(heads=[head], body=[bitem])
         | ('macro', nattrs, name, [param names], [bitem])          variables of the body are parameter names
         | ('include', nattrs, source name)                         sources[name] = items of the ascent_source! body
  head   = (rel, [term]) | ('hcall', macro, [var])
  bitem  = the items of gen/dl.py  ('clause' | 'cond' | 'gen' | 'agg' | 'neg')  | ('call', macro, [var])
  term   = dl terms ('v', x) ('c', n) ('f', fn, [x]) ('w',)  |  ('p', x)   (pattern argument ?x, body clauses only)
"""
import re

from . import dl

PATTR_TEXT = {
    "measure_rule_times": "#![measure_rule_times]",
    "generate_run_timeout": "#![generate_run_timeout]",
    "inter_rule_parallelism": "#![inter_rule_parallelism]",
    "ds": "#![ds(ascent::rel)]",
    "unknown": "#![c15_unknown_attr]",
}
PATTR_COQ = {
    "measure_rule_times": "PMeasureRuleTimes", "generate_run_timeout": "PGenerateRunTimeout",
    "inter_rule_parallelism": "PInterRuleParallelism", "ds": "PDs", "unknown": "PUnknown",
}
RATTR_TEXT = {"ds": "#[ds(ascent::rel)]", "other": "#[c15_unknown_attr]", "known": "#[allow(dead_code)]"}
KINDS = ["ascent", "ascent_par", "ascent_run", "ascent_run_par"]
KIND_COQ = {"ascent": "KAscent", "ascent_par": "KAscentPar", "ascent_run": "KAscentRun", "ascent_run_par": "KAscentRunPar"}


# ------------------------------------------------------------------ Rust text

def rust_clause(it, kinds):
    args = []
    for t in it[2]:
        if t[0] == "p":
            args.append("?" + t[1])
        else:
            args.append(dl.rust_term(t, kinds))
            if t[0] == "v":
                kinds.ref(t[1])
    for t in it[2]:
        if t[0] == "p":
            kinds.ref(t[1])
    s = "%s(%s)" % (it[1], ", ".join(args))
    for c in it[3]:
        s += " " + dl.rust_cond(c, kinds)
    return s


def rust_item(it, kinds):
    if it[0] == "clause":
        return rust_clause(it, kinds)
    if it[0] == "call":
        return "%s!(%s)" % (it[1], ", ".join(it[2]))
    return dl.rust_item(it, kinds)


def rust_head(h, kinds):
    if h[0] == "hcall":
        return "%s!(%s)" % (h[1], ", ".join(h[2]))
    rel, args = h
    return "%s(%s)" % (rel, ", ".join(dl.rust_term(t, kinds, in_expr=(t[0] != "v")) for t in args))


def rust_rule(r):
    kinds = dl.Kinds()
    body = [rust_item(it, kinds) for it in r["body"]]
    heads = [rust_head(h, kinds) for h in r["heads"]]
    if not body:
        return "%s;" % ", ".join(heads)
    return "%s <-- %s;" % (", ".join(heads), ", ".join(body))


def rust_macro_body(params, body):
    """the body of a macro: parameters are written $p"""
    ren = {p: "$" + p for p in params}
    kinds = dl.Kinds()
    return ", ".join(rust_item(rename_item(it, ren), kinds) for it in body)


def rust_item_line(item):
    k = item[0]
    if k == "rel":
        _, name, tys, lat, attrs = item
        return "%s%s %s(%s);" % ("".join(RATTR_TEXT[a] + " " for a in attrs), "lattice" if lat else "relation", name, ", ".join(tys))
    if k == "rule":
        return "#[c15_rule_attr] " * item[1] + rust_rule(item[2])
    if k == "macro":
        _, nattrs, name, params, body = item
        return "#[c15_macro_attr] " * nattrs + "macro %s(%s) { %s }" % (name, ", ".join("$%s: ident" % p for p in params), rust_macro_body(params, body))
    if k == "include":
        return "#[c15_include_attr] " * item[1] + "include_source!(%s);" % item[2]
    raise ValueError(item)


def rust_lines(p):
    """one line per attribute / item: the text between the braces of the macro"""
    return [PATTR_TEXT[a] for a in p["attrs"]] + [rust_item_line(i) for i in p["items"]]


def rust_text(p):
    return "\n".join(rust_lines(p))


def rust_source_defs(p, prefix=""):
    """the ascent_source! definitions a crate needs in front of the program"""
    out = []
    for name, items in p.get("sources", {}).items():
        out.append("ascent::ascent_source! { %s%s:\n%s\n}" % (prefix, name, "\n".join(rust_item_line(i) for i in items)))
    return "\n".join(out)


def spliced(p):
    """the program rustc's chain of re-invocations finally hands to the macro: includes replaced by their source"""
    items = []
    for it in p["items"]:
        if it[0] == "include":
            items += list(p["sources"][it[2]])
        else:
            items.append(it)
    return dict(p, items=items)


def has_include(p):
    return any(i[0] == "include" for i in p["items"])


# ------------------------------------------------------------------ renaming (macro bodies, mutations)

def rename_term(t, ren):
    if t[0] == "v":
        return ("v", ren.get(t[1], t[1]))
    if t[0] == "p":
        return ("p", ren.get(t[1], t[1]))
    if t[0] == "f":
        return ("f", t[1], [ren.get(x, x) for x in t[2]])
    return t


def rename_cond(c, ren):
    if c[0] == "if":
        return ("if", c[1], [ren.get(x, x) for x in c[2]])
    if c[0] == "letc":
        return ("letc", ren.get(c[1], c[1]), c[2])
    return (c[0], ren.get(c[1], c[1]), c[2], [ren.get(x, x) for x in c[3]])


def rename_item(it, ren):
    k = it[0]
    if k == "clause":
        return ("clause", it[1], [rename_term(t, ren) for t in it[2]], [rename_cond(c, ren) for c in it[3]])
    if k == "cond":
        return ("cond", rename_cond(it[1], ren))
    if k == "gen":
        return ("gen", ren.get(it[1], it[1]), it[2], [ren.get(x, x) for x in it[3]])
    if k == "neg":
        return ("neg", it[1], [rename_term(t, ren) for t in it[2]])
    if k == "call":
        return ("call", it[1], [ren.get(x, x) for x in it[2]])
    if k == "agg":
        _, out, an, bound, rel, args = it
        na = []
        for a in args:
            if a[0] == "b":
                na.append(("b", ren.get(a[1], a[1])))
            elif a[0] == "k":
                na.append(("k", rename_term(a[1], ren)))
            else:
                na.append(a)
        return ("agg", ren.get(out, out) if out else out, an, [ren.get(x, x) for x in bound], rel, na)
    raise ValueError(it)


# ------------------------------------------------------------------ Coq term

class Tab:
    def __init__(self, first=0):
        self.d, self.first = {}, first

    def __call__(self, x):
        if x not in self.d:
            self.d[x] = len(self.d) + self.first
        return self.d[x]


class CoqNames:
    """relations, macros, types: nat; variables: ident (Base 0 is "expr_replaced")"""

    def __init__(self):
        self.rel, self.mac, self.ty, self.var = Tab(), Tab(), Tab(), Tab(1)
        self.var.d["expr_replaced"] = 0

    def ident(self, x):
        m = re.fullmatch(r"(.+)_(|[1-9]\d*)", x)
        if m:
            return "(Suf %s %d)" % (self.ident(m.group(1)), int(m.group(2) or 0))
        return "(Base %d)" % self.var(x)

    def idents(self, xs):
        return clist(self.ident(x) for x in xs)


def clist(xs):
    return "[" + "; ".join(xs) + "]"


def coq_arg(t, var):
    if t[0] == "v":
        return "AVar %s" % var(t[1])
    if t[0] == "c":
        return "AExp []"
    if t[0] == "f":
        return "AExp %s" % clist(var(x) for x in t[2])
    if t[0] == "w":
        return "AWild"
    if t[0] == "p":
        return "APat [%s]" % var(t[1])
    raise ValueError(t)


def coq_cond(c, var):
    if c[0] == "if":
        return "CIf"
    if c[0] in ("let", "letc"):
        return "CLet [%s]" % var(c[1])
    if c[0] == "iflet":
        return "CIfLet [%s]" % var(c[1])
    raise ValueError(c)


def coq_aarg(a, var):
    if a[0] == "w":
        return "GWild"
    if a[0] == "b":
        return "GVar %s" % var(a[1])
    if a[1][0] == "v":
        return "GVar %s" % var(a[1][1])
    return "GExp"


def coq_sitem(it, N, var):
    k = it[0]
    if k == "clause":
        return "SClause %d %s %s" % (N.rel(it[1]), clist(coq_arg(t, var) for t in it[2]), clist(coq_cond(c, var) for c in it[3]))
    if k == "neg":
        return "SNeg %d %d" % (N.rel(it[1]), len(it[2]))
    if k == "agg":
        _, out, an, bound, rel, args = it
        return "SAgg %s %s %d %s" % (clist([var(out)] if out else []), clist(var(x) for x in bound), N.rel(rel), clist(coq_aarg(a, var) for a in args))
    if k == "cond":
        return "SCond (%s)" % coq_cond(it[1], var)
    if k == "gen":
        return "SGen [%s]" % var(it[1])
    if k == "call":
        return "SCall %d %s" % (N.mac(it[1]), clist(var(x) for x in it[2]))
    raise ValueError(it)


def coq_hitem(h, N):
    if h[0] == "hcall":
        return "HCall %d %s" % (N.mac(h[1]), N.idents(h[2]))
    return "HClause %d %d" % (N.rel(h[0]), len(h[1]))


def coq_item0(item, N):
    k = item[0]
    if k == "rel":
        _, name, tys, lat, attrs = item
        # 'known' attributes are ROther for the macro (handed to the struct field); only rustc tells them apart
        return "IRel {| d_name := %d; d_tys := %s; d_lat := %s; d_attrs := %s |}" % (
            N.rel(name), clist(str(N.ty(t)) for t in tys), "true" if lat else "false",
            clist("RDs" if a == "ds" else "ROther" for a in attrs))
    if k == "rule":
        r = item[2]
        return "IRule %d {| s_heads := %s; s_body := %s |}" % (
            item[1], clist(coq_hitem(h, N) for h in r["heads"]), clist(coq_sitem(it, N, N.ident) for it in r["body"]))
    if k == "macro":
        _, nattrs, name, params, body = item
        pidx = {p: i for i, p in enumerate(params)}
        # a variable of the body that is not a parameter cannot be expressed in the model (see CheckModel.v): index out of range
        pv = lambda x: str(pidx.get(x, len(params) + 7))
        return "IMacro %d {| m_name := %d; m_nparams := %d; m_body := %s |}" % (
            nattrs, N.mac(name), len(params), clist(coq_sitem(it, N, pv) for it in body))
    raise ValueError(item)


def coq_program(p, N=None):
    N = N or CoqNames()
    items = []
    for it in p["items"]:
        if it[0] == "include":
            src = []
            for s in p["sources"][it[2]]:
                src.append("I1Include %d" % s[1] if s[0] == "include" else "I1Plain (%s)" % coq_item0(s, N))
            items.append("IInclude %d %s" % (it[1], clist(src)))
        else:
            items.append("IPlain (%s)" % coq_item0(it, N))
    return "{| p_attrs := %s; p_items := %s |}" % (clist(PATTR_COQ[a] for a in p["attrs"]), clist(items)), N
