"""C15 program ASTs (superset of gen/dl.py's rules), Rust text renderer and Coq (Check/CheckModel.v) renderer.

program = dict(attrs=[pattr], items=[item], sources={name: [item]}, sig=None | [oattr])
  pattr  = 'measure_rule_times' | 'generate_run_timeout' | 'inter_rule_parallelism' | 'ds' | 'unknown'
  sig    = absent / None: no struct signature; a list: `struct C15Sig;` with these outer attributes in front of it
  item   = ('rel', name, [type names], is_lattice, [rattr])        rattr = 'ds' | 'other' | 'known' (= 'allow') | 'doc' | 'cfg'
         | ('rule', attrs, rule)                                    rule = dict(heads=[head], body=[bitem])
         | ('macro', attrs, name, [param names], [bitem])           variables of the body are parameter names
         | ('include', attrs, source name)                          sources[name] = items of the ascent_source! body
  attrs  = a number n (n made-up attributes) | [oattr]              oattr = 'doc' | 'allow' | 'cfg' | 'ds' | 'other'
  head   = (rel, [term]) | ('hcall', macro, [var])
  bitem  = the items of gen/dl.py  ('clause' | 'cond' | 'gen' | 'agg' | 'neg')  | ('call', macro, [var])
  term   = dl terms ('v', x) ('c', n) ('f', fn, [x]) ('w',)  |  ('p', x)   (pattern argument ?x, body clauses only)

Every attribute (pattr / rattr / oattr) may also be SPELLED: ('sp', lead, [segment], args) with lead = written with a leading `::`,
args = None | ('list', open delimiter, token text) | ('eq', value text); the kinds above are short for one spelling each (as_sp).
The model (coq/Check/AttrPaths.v) sees the spelling: recognised is decided on the whole path.

Binders may carry the SHAPE of their pattern as one extra trailing element (absent = the plain identifier):
  ('let', x, fn, [y], shape)  ('iflet', x, pfn, [y], shape) [the pattern is Some(shape)]  ('gen', x, gn, [y], shape)
  ('agg', out, an, bound, rel, args, shape)  ('p', x, shape)
  shape = ('hole',)  the variable | ('at', shape')  x @ shape' | ('wild',) | ('paren', shape) | ('ref', shape) | ('tuple', [shape])
"""
import re

from . import dl

PATTR_TEXT = {
    "measure_rule_times": "#![measure_rule_times]",
    "generate_run_timeout": "#![generate_run_timeout]",
    "inter_rule_parallelism": "#![inter_rule_parallelism]",
    "ds": "#![ds(ascent::rel)]",
    "unknown": "#![c15_unknown_attr]",
}
PATTR_COQ = {
    "measure_rule_times": "PMeasureRuleTimes", "generate_run_timeout": "PGenerateRunTimeout",
    "inter_rule_parallelism": "PInterRuleParallelism", "ds": "PDs", "unknown": "PUnknown",
}
RATTR_TEXT = {"ds": "#[ds(ascent::rel)]", "other": "#[c15_unknown_attr]", "known": "#[allow(dead_code)]",
              "allow": "#[allow(dead_code)]", "doc": '#[doc = "c15 doc"]', "cfg": "#[cfg(all())]"}
# outer attributes in front of a rule / macro definition / include_source! / the struct signature (a doc comment is this
# attribute, token for token)
OATTR_TEXT = {"doc": '#[doc = "c15 doc"]', "allow": "#[allow(dead_code)]", "cfg": "#[cfg(all())]", "ds": "#[ds(ascent::rel)]",
              "other": "#[c15_made_up]"}
OATTR_KINDS = sorted(OATTR_TEXT)
SIG_NAME = "C15Sig"

# ------------------------------------------------------------------ attributes as data
# segment numbers 0..3 of coq/Check/AttrPaths.v
RECOGNISED = ["measure_rule_times", "generate_run_timeout", "inter_rule_parallelism", "ds"]
FLAGS = RECOGNISED[:3]
CLOSE = {"(": ")", "[": "]", "{": "}"}
# token lists of a `ds` list: does syn parse them as DsAttributeContents = path (`:` tokens)?
DS_TOKENS = {"ascent::rel": True, "::ascent::rel": True, "": False, "1 + 2": False, '"c15"': False}


def sp(segs, lead=False, args=None):
    return ("sp", bool(lead), list(segs), args)


def is_sp(a):
    return isinstance(a, (list, tuple)) and len(a) == 4 and a[0] == "sp"


_LEGACY_SP = {
    "measure_rule_times": sp(["measure_rule_times"]), "generate_run_timeout": sp(["generate_run_timeout"]),
    "inter_rule_parallelism": sp(["inter_rule_parallelism"]), "ds": sp(["ds"], args=("list", "(", "ascent::rel")),
    "unknown": sp(["c15_unknown_attr"]),
    "known": sp(["allow"], args=("list", "(", "dead_code")), "allow": sp(["allow"], args=("list", "(", "dead_code")),
    "doc": sp(["doc"], args=("eq", '"c15 doc"')), "cfg": sp(["cfg"], args=("list", "(", "all()")),
}


def as_sp(a, other="c15_unknown_attr"):
    """the spelling of an attribute; `other` = the identifier the kinds 'other' / 'legacy' stand for at this position"""
    if is_sp(a):
        return ("sp", bool(a[1]), list(a[2]), None if a[3] is None else tuple(a[3]))
    if a in ("other", "legacy"):
        return sp([other])
    return _LEGACY_SP[a]


def sp_text(a, inner=False):
    _, lead, segs, args = a
    t = ("::" if lead else "") + "::".join(segs)
    if args is not None:
        t += ("%s%s%s" % (args[1], args[2], CLOSE[args[1]])) if args[0] == "list" else " = %s" % args[1]
    return ("#![%s]" if inner else "#[%s]") % t


def path_ident(a):
    """syn::Path::get_ident of the attribute's path: the identifier, or None (leading `::` or several segments)"""
    a = as_sp(a)
    return a[2][0] if (not a[1] and len(a[2]) == 1) else None


def is_named(a, name, other="c15_unknown_attr"):
    return path_ident(as_sp(a, other)) == name


def is_ds(a):
    return is_named(a, "ds")


def recognised(a):
    """AscentConfig::new's recognized_attrs test: the path IS one of the four identifiers"""
    return path_ident(a) in RECOGNISED


def args_form(a):
    a = as_sp(a)
    return "none" if a[3] is None else (a[3][1] if a[3][0] == "list" else "=")


def ds_list_ok(a):
    """a `ds` attribute whose arguments the macro accepts: a list (any delimiter) whose tokens parse as a provider path"""
    a = as_sp(a)
    return a[3] is not None and a[3][0] == "list" and DS_TOKENS[a[3][2]]


def pattr_text(a):
    return sp_text(as_sp(a), inner=True)


def rattr_text(a):
    return sp_text(as_sp(a, "c15_unknown_attr"))


def oattr_text(a, legacy="#[c15_made_up]"):
    if a == "legacy":
        return legacy
    return sp_text(as_sp(a, "c15_made_up"))


def item_attrs(it):
    """the attributes written in front of a rule / macro / include item, as a list of kinds"""
    a = it[1]
    return ["legacy"] * a if isinstance(a, int) else list(a)


def attrs_text(it, legacy):
    return "".join(oattr_text(a, legacy) + " " for a in item_attrs(it))


# ------------------------------------------------------------------ pattern shapes
# The first six kinds are the original vocabulary; the rest (gen/c15_ctx.py builds them) covers every arm of
# pattern_get_vars that recurses, one model constructor each (coq/Check/PatCtxModel.v xpat):
#   ('hole', mode)            ref x | mut x | ref mut x                                   XVar
#   ('var', w[, mode])        ANOTHER variable w                                         XVar
#   ('atn', w, shape)         w @ shape   (the name on top is not the variable of the binder)   XAt
#   ('lit',) ('rest',)        0i32   ..                                                  XWild
#   ('slice', [shape])        [p, ..]                                                    XSlice
#   ('tstruct', ctor, [shape])   ctor(p, ..)                                             XTupleStruct
#   ('struct', ctor, [(field | None, shape)], open)   ctor { field: p, .. }  (field None: the shorthand `x`)   XStruct
#   ('or', [shape])           p | q                                                      XOr

HOLE, WILD = ("hole",), ("wild",)
SEQ_KINDS = ("tuple", "slice", "tstruct", "struct", "or")


def shape_of(node):
    """the shape carried by a cond / gen / agg / pattern-argument node, or None (plain identifier)"""
    k = node[0]
    n = {"let": 4, "iflet": 4, "gen": 4, "agg": 6, "p": 2}.get(k)
    if n is not None and len(node) > n:
        return node[n]
    return None


def shape_children(shape):
    k = shape[0]
    if k in ("at", "paren", "ref"):
        return [shape[1]]
    if k == "atn":
        return [shape[2]]
    if k in ("tuple", "slice", "or"):
        return list(shape[1])
    if k == "tstruct":
        return list(shape[2])
    if k == "struct":
        return [q for _, q in shape[2]]
    return []


def _ident_text(mode, x):
    return (mode + " " if mode else "") + x


def pat_text(shape, x):
    k = shape[0]
    if k == "hole":
        return _ident_text(shape[1] if len(shape) > 1 else "", x)
    if k == "var":
        return _ident_text(shape[2] if len(shape) > 2 else "", shape[1])
    if k == "at":
        return "%s @ %s" % (x, pat_text(shape[1], x))
    if k == "atn":
        return "%s @ %s" % (shape[1], pat_text(shape[2], x))
    if k == "wild":
        return "_"
    if k == "lit":
        return "0i32"
    if k == "rest":
        return ".."
    if k == "paren":
        return "(%s)" % pat_text(shape[1], x)
    if k == "ref":
        return "&%s" % pat_text(shape[1], x)
    if k == "tuple":
        return "(%s%s)" % (", ".join(pat_text(q, x) for q in shape[1]), "," if (len(shape[1]) == 1 and shape[1][0][0] != "rest") else "")
    if k == "slice":
        return "[%s]" % ", ".join(pat_text(q, x) for q in shape[1])
    if k == "tstruct":
        return "%s(%s)" % (shape[1], ", ".join(pat_text(q, x) for q in shape[2]))
    if k == "struct":
        fs = [pat_text(q, x) if f is None else "%s: %s" % (f, pat_text(q, x)) for f, q in shape[2]]
        return "%s { %s }" % (shape[1], ", ".join(fs + ([".."] if shape[3] else [])))
    if k == "or":
        return " | ".join(pat_text(q, x) for q in shape[1])
    raise ValueError(shape)


def pat_expr(shape, e):
    """an expression the pattern matches irrefutably, the variable receiving the i32 value of e (meaningful for the typed
    shapes only: the others are used in programs that must not get as far as type checking)"""
    k = shape[0]
    if k in ("hole", "at"):
        return e
    if k == "atn":
        return pat_expr(shape[2], e)
    if k in ("wild", "lit", "var"):
        return "0i32"
    if k == "paren":
        return pat_expr(shape[1], e)
    if k == "ref":
        return "&(%s)" % pat_expr(shape[1], e)
    if k == "tuple":
        es = [pat_expr(q, e) for q in shape[1] if q[0] != "rest"]
        return "(%s%s)" % (", ".join(es), "," if len(es) == 1 else "")
    if k == "slice":
        # the elements of an array have one type: the fillers (_ / another variable) get the expression of the element that has structure
        main = [q for q in shape[1] if q[0] not in ("rest", "wild", "var", "lit")]
        return "[%s]" % ", ".join(pat_expr(main[0] if (main and q[0] in ("wild", "var")) else q, e) for q in shape[1] if q[0] != "rest")
    if k == "tstruct":
        return "%s(%s)" % (shape[1], ", ".join(pat_expr(q, e) for q in shape[2] if q[0] != "rest"))
    if k == "struct":
        return "%s { %s }" % (shape[1], ", ".join("%s: %s" % (f or "c15f", pat_expr(q, e)) for f, q in shape[2]))
    if k == "or":
        return pat_expr(shape[1][0], e)
    raise ValueError(shape)


def shape_hidden(shape, under=False):
    """the variable sits below a parenthesised sub-pattern"""
    k = shape[0]
    if k in ("hole", "at"):
        return under
    if k == "paren":
        return shape_hidden(shape[1], True)
    return any(shape_hidden(q, under) for q in shape_children(shape))


def shape_derefs(shape):
    """a & above the variable: the variable is bound to the value, not to a reference"""
    k = shape[0]
    if k == "ref":
        return True
    return any(shape_derefs(q) for q in shape_children(shape))


def shape_names(shape, x):
    """every identifier the pattern binds, in source order (the variable of the binder is x)"""
    k = shape[0]
    out = []
    if k in ("hole", "at"):
        out.append(x)
    elif k == "var":
        out.append(shape[1])
    elif k == "atn":
        out.append(shape[1])
    if k == "or":
        return shape_names(shape[1][0], x)
    for q in shape_children(shape):
        out += shape_names(q, x)
    return out


def coq_pat(shape, x, var):
    """the pattern as a PatCtxModel.xpat; var renders an identifier of the program"""
    k = shape[0]
    rec = lambda q: coq_pat(q, x, var)
    if k == "hole":
        return "XVar %s" % var(x)
    if k == "var":
        return "XVar %s" % var(shape[1])
    if k == "at":
        return "XAt %s (%s)" % (var(x), rec(shape[1]))
    if k == "atn":
        return "XAt %s (%s)" % (var(shape[1]), rec(shape[2]))
    if k in ("wild", "lit", "rest"):
        return "XWild"
    if k == "paren":
        return "XParen (%s)" % rec(shape[1])
    if k == "ref":
        return "XRef (%s)" % rec(shape[1])
    if k in SEQ_KINDS:
        con = {"tuple": "XTuple", "slice": "XSlice", "tstruct": "XTupleStruct", "struct": "XStruct", "or": "XOr"}[k]
        return "%s %s" % (con, clist(rec(q) for q in shape_children(shape)))
    raise ValueError(shape)


def coq_binds(shape, x, var, wrap_some=False):
    """the list of bound variables of a binder as the model sees it: what pattern_get_vars reports (pvi / pvn =
    PatCtxModel.xpat_vars with the model's parameter, on identifiers / on macro parameter indices; bound in the tie's prelude)"""
    if shape is None:
        return "[%s]" % var(x)
    pt = coq_pat(shape, x, var)
    if wrap_some:
        pt = "XTupleStruct [%s]" % pt
    return "(%s (%s))" % ("pvn" if var(x).isdigit() else "pvi", pt)


KINDS = ["ascent", "ascent_par", "ascent_run", "ascent_run_par"]
KIND_COQ = {"ascent": "KAscent", "ascent_par": "KAscentPar", "ascent_run": "KAscentRun", "ascent_run_par": "KAscentRunPar"}


# ------------------------------------------------------------------ Rust text

def rust_cond(c, kinds):
    sh = shape_of(c)
    if sh is None:
        return dl.rust_cond(c, kinds)
    if c[0] == "let":
        e = dl._subst(dl.FUNS[c[2]][2], [kinds.use(x) for x in c[3]])
        s = "let %s = %s" % (pat_text(sh, c[1]), pat_expr(sh, e))
    else:
        e = dl._subst(dl.PARTIALS[c[2]][2], [kinds.use(x) for x in c[3]])
        s = "if let Some(%s) = (%s).map(|c15v| %s)" % (pat_text(sh, c[1]), e, pat_expr(sh, "c15v"))
    kinds.k[c[1]] = "val"      # also when the binder REbinds the variable: in the generated Rust the new binding shadows the old one
    return s


def rust_clause(it, kinds):
    args = []
    for t in it[2]:
        if t[0] == "p":
            sh = shape_of(t)
            args.append("?" + (t[1] if sh is None else pat_text(sh, t[1])))
        else:
            args.append(dl.rust_term(t, kinds))
            if t[0] == "v":
                kinds.ref(t[1])
    for t in it[2]:
        if t[0] == "p":
            sh = shape_of(t)
            if sh is None:
                kinds.ref(t[1])
            else:
                kinds.k[t[1]] = "val" if shape_derefs(sh) else "ref"
    s = "%s(%s)" % (it[1], ", ".join(args))
    for c in it[3]:
        s += " " + rust_cond(c, kinds)
    return s


def rust_item(it, kinds):
    if it[0] == "clause":
        return rust_clause(it, kinds)
    if it[0] == "call":
        return "%s!(%s)" % (it[1], ", ".join(it[2]))
    sh = shape_of(it[1]) if it[0] == "cond" else shape_of(it)
    if sh is None:
        return dl.rust_item(it, kinds)
    if it[0] == "cond":
        return rust_cond(it[1], kinds)
    if it[0] == "gen":
        e = dl._subst(dl.GENS[it[2]][2], [kinds.use(x) for x in it[3]])
        s = "for %s in (%s).into_iter().map(|c15v| %s)" % (pat_text(sh, it[1]), e, pat_expr(sh, "c15v"))
        kinds.k[it[1]] = "val"
        return s
    if it[0] == "agg":
        # the result pattern of an aggregate: render with a place holder and put the pattern in its place
        s = dl.rust_item(("agg", "c15_pat_place_holder") + tuple(it[2:6]), kinds)
        kinds.k[it[1]] = "val"
        return s.replace("agg c15_pat_place_holder =", "agg %s =" % pat_text(sh, it[1]), 1)
    raise ValueError(it)


def rust_head(h, kinds):
    if h[0] == "hcall":
        return "%s!(%s)" % (h[1], ", ".join(h[2]))
    rel, args = h
    return "%s(%s)" % (rel, ", ".join(dl.rust_term(t, kinds, in_expr=(t[0] != "v")) for t in args))


def rust_rule(r):
    kinds = dl.Kinds()
    body = [rust_item(it, kinds) for it in r["body"]]
    heads = [rust_head(h, kinds) for h in r["heads"]]
    if not body:
        return "%s;" % ", ".join(heads)
    return "%s <-- %s;" % (", ".join(heads), ", ".join(body))


def rust_macro_body(params, body):
    """the body of a macro: parameters are written $p"""
    ren = {p: "$" + p for p in params}
    kinds = dl.Kinds()
    return ", ".join(rust_item(rename_item(it, ren), kinds) for it in body)


def rust_item_line(item):
    k = item[0]
    if k == "rel":
        _, name, tys, lat, attrs = item
        return "%s%s %s(%s);" % ("".join(rattr_text(a) + " " for a in attrs), "lattice" if lat else "relation", name, ", ".join(tys))
    if k == "rule":
        return attrs_text(item, "#[c15_rule_attr]") + rust_rule(item[2])
    if k == "macro":
        _, _attrs, name, params, body = item
        return attrs_text(item, "#[c15_macro_attr]") + "macro %s(%s) { %s }" % (name, ", ".join("$%s: ident" % p for p in params), rust_macro_body(params, body))
    if k == "include":
        return attrs_text(item, "#[c15_include_attr]") + "include_source!(%s);" % item[2]
    raise ValueError(item)


def sig_lines(p, name=SIG_NAME):
    """the struct signature with the outer attributes written in front of it ([] when the program has none)"""
    sig = p.get("sig")
    if sig is None:
        return []
    return ["".join(oattr_text(a) + " " for a in sig) + "pub struct %s;" % name]


def rust_lines(p):
    """one line per attribute / signature / item: the text between the braces of the macro"""
    return [pattr_text(a) for a in p["attrs"]] + sig_lines(p) + [rust_item_line(i) for i in p["items"]]


def rust_text(p):
    return "\n".join(rust_lines(p))


def rust_source_defs(p, prefix=""):
    """the ascent_source! definitions a crate needs in front of the program"""
    out = []
    for name, items in p.get("sources", {}).items():
        out.append("ascent::ascent_source! { %s%s:\n%s\n}" % (prefix, name, "\n".join(rust_item_line(i) for i in items)))
    return "\n".join(out)


def spliced(p):
    """the program rustc's chain of re-invocations finally hands to the macro: includes replaced by their source"""
    items = []
    for it in p["items"]:
        if it[0] == "include" and not item_attrs(it):      # an attributed include_source! is an error of the invocation that meets it
            items += list(p["sources"][it[2]])
        else:
            items.append(it)
    return dict(p, items=items)


def has_include(p):
    return any(i[0] == "include" for i in p["items"])


# ------------------------------------------------------------------ renaming (macro bodies, mutations)

def rename_term(t, ren):
    if t[0] == "v":
        return ("v", ren.get(t[1], t[1]))
    if t[0] == "p":
        return ("p", ren.get(t[1], t[1])) + tuple(t[2:])
    if t[0] == "f":
        return ("f", t[1], [ren.get(x, x) for x in t[2]])
    return t


def rename_cond(c, ren):
    if c[0] == "if":
        return ("if", c[1], [ren.get(x, x) for x in c[2]])
    if c[0] == "letc":
        return ("letc", ren.get(c[1], c[1]), c[2])
    return (c[0], ren.get(c[1], c[1]), c[2], [ren.get(x, x) for x in c[3]]) + tuple(c[4:])


def rename_item(it, ren):
    k = it[0]
    if k == "clause":
        return ("clause", it[1], [rename_term(t, ren) for t in it[2]], [rename_cond(c, ren) for c in it[3]])
    if k == "cond":
        return ("cond", rename_cond(it[1], ren))
    if k == "gen":
        return ("gen", ren.get(it[1], it[1]), it[2], [ren.get(x, x) for x in it[3]]) + tuple(it[4:])
    if k == "neg":
        return ("neg", it[1], [rename_term(t, ren) for t in it[2]])
    if k == "call":
        return ("call", it[1], [ren.get(x, x) for x in it[2]])
    if k == "agg":
        _, out, an, bound, rel, args = it[:6]
        na = []
        for a in args:
            if a[0] == "b":
                na.append(("b", ren.get(a[1], a[1])))
            elif a[0] == "k":
                na.append(("k", rename_term(a[1], ren)))
            else:
                na.append(a)
        return ("agg", ren.get(out, out) if out else out, an, [ren.get(x, x) for x in bound], rel, na) + tuple(it[6:])
    raise ValueError(it)


# ------------------------------------------------------------------ Coq term

class Tab:
    def __init__(self, first=0):
        self.d, self.first = {}, first

    def __call__(self, x):
        if x not in self.d:
            self.d[x] = len(self.d) + self.first
        return self.d[x]


class CoqNames:
    """relations, macros, types: nat; variables: ident (Base 0 is "expr_replaced")"""

    def __init__(self):
        self.rel, self.mac, self.ty, self.var = Tab(), Tab(), Tab(), Tab(1)
        self.var.d["expr_replaced"] = 0
        self.seg = Tab()                      # path segments of attributes: the recognised names are 0..3 (AttrPaths.v)
        for n in RECOGNISED:
            self.seg(n)

    def ident(self, x):
        m = re.fullmatch(r"(.+)_(|[1-9]\d*)", x)
        if m:
            return "(Suf %s %d)" % (self.ident(m.group(1)), int(m.group(2) or 0))
        return "(Base %d)" % self.var(x)

    def idents(self, xs):
        return clist(self.ident(x) for x in xs)


def clist(xs):
    return "[" + "; ".join(xs) + "]"


def coq_arg(t, var):
    if t[0] == "v":
        return "AVar %s" % var(t[1])
    if t[0] == "c":
        return "AExp []"
    if t[0] == "f":
        return "AExp %s" % clist(var(x) for x in t[2])
    if t[0] == "w":
        return "AWild"
    if t[0] == "p":
        return "APat %s" % coq_binds(shape_of(t), t[1], var)
    raise ValueError(t)


def coq_cond(c, var):
    if c[0] == "if":
        return "CIf"
    if c[0] in ("let", "letc"):
        return "CLet %s" % coq_binds(shape_of(c), c[1], var)
    if c[0] == "iflet":
        return "CIfLet %s" % coq_binds(shape_of(c), c[1], var, wrap_some=True)
    raise ValueError(c)


def coq_aarg(a, var):
    if a[0] == "w":
        return "GWild"
    if a[0] == "b":
        return "GVar %s" % var(a[1])
    if a[1][0] == "v":
        return "GVar %s" % var(a[1][1])
    return "GExp"


def coq_sitem(it, N, var):
    k = it[0]
    if k == "clause":
        return "SClause %d %s %s" % (N.rel(it[1]), clist(coq_arg(t, var) for t in it[2]), clist(coq_cond(c, var) for c in it[3]))
    if k == "neg":
        return "SNeg %d %d" % (N.rel(it[1]), len(it[2]))
    if k == "agg":
        _, out, an, bound, rel, args = it[:6]
        return "SAgg %s %s %d %s" % (coq_binds(shape_of(it), out, var) if out else "[]", clist(var(x) for x in bound), N.rel(rel), clist(coq_aarg(a, var) for a in args))
    if k == "cond":
        return "SCond (%s)" % coq_cond(it[1], var)
    if k == "gen":
        return "SGen %s" % coq_binds(shape_of(it), it[1], var)
    if k == "call":
        return "SCall %d %s" % (N.mac(it[1]), clist(var(x) for x in it[2]))
    raise ValueError(it)


def coq_hitem(h, N):
    if h[0] == "hcall":
        return "HCall %d %s" % (N.mac(h[1]), N.idents(h[2]))
    return "HClause %d %d" % (N.rel(h[0]), len(h[1]))


def coq_sattr(a, N, other="c15_unknown_attr"):
    """the attribute as an AttrPaths.sattr: its path and the form of its arguments"""
    _, lead, segs, args = as_sp(a, other)
    if args is None:
        ca = "ArgNone"
    elif args[0] == "list":
        ca = "ArgList %s" % ("true" if DS_TOKENS.get(args[2], False) else "false")
    else:
        ca = "ArgEq"
    return "{| sa_path := {| ap_lead := %s; ap_segs := %s |}; sa_args := %s |}" % ("true" if lead else "false", clist(str(N.seg(x)) for x in segs), ca)


def coq_rattrs(kinds, N, other="c15_unknown_attr"):
    return clist(coq_sattr(a, N, other) for a in kinds)


def coq_bare0(item, N):
    """(attributes written in front of the item, the item without them)"""
    k = item[0]
    if k == "rel":
        _, name, tys, lat, attrs = item
        # every attribute but ds is ROther for the macro (handed to the struct field); only rustc tells them apart
        return coq_rattrs(attrs, N), "BRel %d %s %s" % (N.rel(name), clist(str(N.ty(t)) for t in tys), "true" if lat else "false")
    if k == "rule":
        r = item[2]
        return coq_rattrs(item_attrs(item), N, "c15_made_up"), "BRule {| s_heads := %s; s_body := %s |}" % (
            clist(coq_hitem(h, N) for h in r["heads"]), clist(coq_sitem(it, N, N.ident) for it in r["body"]))
    if k == "macro":
        _, _attrs, name, params, body = item
        pidx = {p: i for i, p in enumerate(params)}
        # a variable of the body that is not a parameter cannot be expressed in the model (see CheckModel.v): index out of range
        pv = lambda x: str(pidx.get(x, len(params) + 7))
        return coq_rattrs(item_attrs(item), N, "c15_made_up"), "BMacro {| m_name := %d; m_nparams := %d; m_body := %s |}" % (
            N.mac(name), len(params), clist(coq_sitem(it, N, pv) for it in body))
    raise ValueError(item)


def coq_text(p, N=None):
    """the program as an AttrPaths.stext: inner attributes, signature and items, each attribute as it is spelled"""
    N = N or CoqNames()
    items = []
    for it in p["items"]:
        if it[0] == "include":
            src = []
            for s in p["sources"][it[2]]:
                if s[0] == "include":
                    src.append("(%s, B1Include)" % coq_rattrs(item_attrs(s), N, "c15_made_up"))
                else:
                    a, b = coq_bare0(s, N)
                    src.append("(%s, B1Plain (%s))" % (a, b))
            items.append("(%s, SBInclude %s)" % (coq_rattrs(item_attrs(it), N, "c15_made_up"), clist(src)))
        else:
            a, b = coq_bare0(it, N)
            items.append("(%s, SBPlain (%s))" % (a, b))
    sig = p.get("sig")
    return "{| st_attrs := %s; st_sig := %s; st_items := %s |}" % (
        clist(coq_sattr(a, N) for a in p["attrs"]), "None" if sig is None else "Some %s" % coq_rattrs(sig, N, "c15_made_up"), clist(items)), N


coq_program = coq_text
