"""C09 family `opt`: relations that NEVER receive a tuple ("optional inputs" nobody fills) under every packaging.

A relation of an ascent_run! / ascent_run_par! program can hold a tuple only through an initialiser (`relation r(..) = e`) or a rule that
fires with it in the head; the struct of ascent! + run() can be filled from the outside.  Whatever the packaging knows about a relation
being empty "for sure", the program must still be the logical program: `!r(..)`, `count()`, `sum(..)` (and any user aggregator that
yields on an empty input) over a relation without tuples DO fire (not() holds, count = 0, sum = 0), `min` / `max` and positive clauses
do not; everything derived downstream from such a rule must be there.

Logical programs (the oracle is the specification of the logical program, Engine/Strat.v strat_fix, evaluated by gen/engine_tie.py):
  * `strat`: gen_dl.gen_strat_program with some aggregates / negations re-targeted to fresh relations o0, o1 (same arity as the relation
    they replace) that are declared and never filled; optionally with producers that cannot fire (a rule over another never-filled
    relation, two never-filled relations feeding each other, a rule whose condition never holds) and extra rules count / sum over
    them whose result feeds a relation of the program;
  * `reach`: a small designed family — reachability over edge / start with optional inputs blk (blocked nodes) and w (weights) that stay
    empty; count / sum / min / negation over them inside the recursive rule and in later strata, downstream rules reading the results.

Packagings (packagings() below): every relation whose input is empty in ALL scripts of the case is declared BARE (no initialiser, no
rule over a captured local, the field of the struct is never touched); the others get their input the usual ways.
  d_base / d_par          ascent! / ascent_par! + run(), only the non-empty fields assigned
  d_run_init              ascent_run!      `relation r(..) = in_r;` for the relations that have input, bare otherwise
  d_runpar_init           ascent_run_par!  the same with expressions over the captured locals
  d_run_rules             ascent_run! / ascent_run_par!: the relations that have input are fed by rules over captured locals
  d_inc_lib_*             include_source!(lib): lib = the bare declarations of the optional / derived relations + ALL rules (a "library"
                          with optional inputs); the includer declares (and initialises / assigns) only the inputs it has
  d_user_agg              count / sum / negation spelled as USER aggregators defined next to the program (c09_size, c09_total, c09_none:
                          same meaning, other names), under ascent_run! / ascent_run_par! / ascent!
"""
from . import c09_pack, dl, gen_dl, lib

USER_AGGS = r'''
pub fn c09_total<'a, N>(inp: impl Iterator<Item = (&'a N,)>) -> impl Iterator<Item = N>
where N: 'a + Clone + std::iter::Sum<N> { std::iter::once(inp.map(|t| t.0.clone()).sum::<N>()) }
pub fn c09_size(inp: impl Iterator<Item = ()>) -> impl Iterator<Item = usize> { std::iter::once(inp.count()) }
pub fn c09_none(mut inp: impl Iterator<Item = ()>) -> impl Iterator<Item = ()> { (if inp.next().is_none() { Some(()) } else { None }).into_iter() }
'''
USER_NAMES = {"sum": "c09_total", "count": "c09_size", "not": "c09_none"}


def V(x):
    return ("v", x)


def clause(rel, *xs):
    return ("clause", rel, [V(x) if isinstance(x, str) else (("w",) if x is None else ("c", x)) for x in xs], [])


def rule(heads, body):
    return dict(heads=heads, body=body)


# ------------------------------------------------------------------ logical programs

def never_filled(p, inputs):
    """relations that provably stay empty: no input in any script and every rule with them in the head reads (positively, or through an
    aggregate that yields nothing on an empty input: min / max) a never-filled relation or has a condition lt(x, x).  Least fixed point
    from below of `may hold a tuple` (the analysis a dead-rule pass would do; here it only labels cases for the statistics)."""
    may = {n for n, _, _ in p["rels"] if any(inp.get(n) for inp in inputs)}
    changed = True
    while changed:
        changed = False
        for r in p["rules"]:
            ok = True
            for it in r["body"]:
                if it[0] == "clause" and it[1] not in may:
                    ok = False
                elif it[0] == "agg" and it[2] in ("min", "max") and it[4] not in may:
                    ok = False
                elif it[0] == "cond" and it[1][0] == "if" and it[1][1] == "lt" and it[1][2][0] == it[1][2][1]:
                    ok = False
            if ok:
                for h, _ in r["heads"]:
                    if h not in may:
                        may.add(h)
                        changed = True
    return [n for n, _, _ in p["rels"] if n not in may]


def dead_producers(rng, opts, live):
    """rules with an optional relation in the head that can never fire"""
    rules = []
    for (n, a, _) in opts:
        u = rng.random()
        vs = ["q%d" % i for i in range(a)]
        if u < 0.35:
            continue
        if u < 0.6 and len(opts) >= 2:
            # fed by another never-filled relation (joined with a live one)
            m, b, _ = rng.choice([o for o in opts if o[0] != n])
            ws = ["q%d" % i for i in range(b)]
            body = [("clause", m, [V(x) for x in ws], [])]
            if live:
                ln, la, _ = rng.choice(live)
                body.append(("clause", ln, [V(rng.choice(ws + ["z%d" % i])) for i in range(la)], []))
                rng.shuffle(body)
            bound = sorted({t[1] for it in body for t in it[2]})
            rules.append(rule([(n, [V(rng.choice(bound)) for _ in range(a)])], body))
        elif u < 0.8 and live:
            # a condition that never holds
            ln, la, _ = rng.choice([l for l in live if l[1] >= 1] or live)
            if la == 0:
                continue
            ws = ["q%d" % i for i in range(la)]
            x = rng.choice(ws)
            rules.append(rule([(n, [V(rng.choice(ws)) for _ in range(a)])], [("clause", ln, [V(w) for w in ws], []), ("cond", ("if", "lt", [x, x]))]))
        else:
            # recursive through itself only
            rules.append(rule([(n, [V(v) for v in reversed(vs)])], [("clause", n, [V(v) for v in vs], [])]))
    if len(opts) >= 2 and rng.random() < 0.3 and opts[0][1] == opts[1][1]:
        vs = ["q%d" % i for i in range(opts[0][1])]
        rules.append(rule([(opts[0][0], [V(v) for v in vs])], [("clause", opts[1][0], [V(v) for v in vs], [])]))
        rules.append(rule([(opts[1][0], [V(v) for v in vs])], [("clause", opts[0][0], [V(v) for v in vs], [])]))
    return rules


def gen_strat_opt(rng):
    """a program of the stratified generator with aggregates / negations re-targeted to never-filled relations"""
    for _ in range(50):
        p = gen_dl.gen_strat_program(rng)
        sites = [(ri, bi) for ri, r in enumerate(p["rules"]) for bi, it in enumerate(r["body"]) if it[0] in ("agg", "neg")]
        if sites:
            break
    ar = {n: a for n, a, _ in p["rels"]}
    rules = [dict(heads=list(r["heads"]), body=list(r["body"])) for r in p["rules"]]
    opts = []
    rng.shuffle(sites)
    # count / sum sites first: they are the ones that must keep firing
    if rng.random() < 0.7:
        sites.sort(key=lambda s: 0 if (rules[s[0]]["body"][s[1]][0] == "agg" and rules[s[0]]["body"][s[1]][2] in ("count", "sum")) else 1)
    ntarget = rng.choice([1, 1, 2, 3])
    for ri, bi in sites[:ntarget]:
        it = rules[ri]["body"][bi]
        old = it[4] if it[0] == "agg" else it[1]
        same = [o for o in opts if o[1] == ar[old]]
        if same and (len(opts) >= 2 or rng.random() < 0.5):
            o = rng.choice(same)
        elif len(opts) < 2:
            o = ("o%d" % len(opts), ar[old], "rel")
            opts.append(o)
        else:
            continue
        rules[ri]["body"][bi] = it[:4] + (o[0],) + it[5:] if it[0] == "agg" else ("neg", o[0], it[2])
    if not opts:
        opts.append(("o0", rng.choice([1, 2]), "rel"))
    # extra rules: count / sum over an optional relation feeding a relation of the program (a level >= 1 keeps the strata)
    heads = [r for r in p["rels"] if not r[0].startswith("l0_")] or p["rels"]
    base = [r for r in p["rels"] if r[0].startswith("l0_")]
    for _ in range(rng.choice([0, 1, 1, 2])):
        o = rng.choice(opts)
        h = rng.choice(heads)
        kind = rng.choice(["count", "count", "sum"]) if o[1] >= 1 else "count"
        body, bound = [], []
        if base and rng.random() < 0.6:
            b = rng.choice(base)
            bound = ["k%d" % i for i in range(b[1])]
            body.append(("clause", b[0], [V(x) for x in bound], []))
        col = rng.randrange(o[1]) if kind == "sum" else None
        args = [("b", "sv") if i == col else (("k", V(rng.choice(bound))) if bound and rng.random() < 0.6 else ("w",)) for i in range(o[1])]
        body.append(("agg", "n0", kind, ["sv"] if kind == "sum" else [], o[0], args))
        res = ("f", "asi32", ["n0"]) if kind == "count" else V("n0")
        hargs = [res if (i == 0 or not bound) else V(rng.choice(bound)) for i in range(h[1])]
        rng.shuffle(hargs)
        rules.append(rule([(h[0], hargs)], body))
    rules += dead_producers(rng, opts, base)
    rng.shuffle(rules)
    rels = list(p["rels"]) + opts
    return dict(rels=rels, rules=rules, shape="stratified"), [o[0] for o in opts]


def gen_reach_opt(rng):
    """reachability with optional inputs blk (blocked nodes, arity 1 or 2) and w (weights) that nobody fills"""
    ba = rng.choice([1, 1, 2])
    rels = [("edge", 2, "rel"), ("start", 1, "rel"), ("blk", ba, "rel"), ("w", 2, "rel"), ("reach", 1, "rel")]
    rules = [rule([("reach", [V("x")])], [clause("start", "x")])]

    def blk_guard(y):
        # an item that holds for every y while blk is empty
        u = rng.random()
        if u < 0.4:
            return [("agg", "c", "count", [], "blk", [("k", V(y))] + [("w",)] * (ba - 1))]
        if u < 0.6 and ba == 2:
            return [("agg", "t", "sum", ["bv"], "blk", [("k", V(y)), ("b", "bv")]), ("cond", ("if", "le", ["t", y]))]
        if u < 0.8:
            return [("neg", "blk", [V(y)] + [("w",)] * (ba - 1))]
        return [("agg", "t", "sum", ["wv"], "w", [("k", V(y)), ("b", "wv")]), ("cond", ("if", "le", ["t", y]))]
    body = [clause("reach", "x"), clause("edge", "x", "y")] + blk_guard("y")
    rules.append(rule([("reach", [V("y")])], body))
    extra = []
    if rng.random() < 0.8:
        rels.append(("nblk", 1, "rel"))
        rules.append(rule([("nblk", [("f", "asi32", ["n"])])], [("agg", "n", "count", [], "blk", [("w",)] * ba)]))
        extra.append("nblk")
    if rng.random() < 0.8:
        rels.append(("cost", 2, "rel"))
        rules.append(rule([("cost", [V("x"), V("t")])], [clause("reach", "x"), ("agg", "t", "sum", ["wv"], "w", [("k", V("x")), ("b", "wv")])]))
        extra.append("cost")
    if rng.random() < 0.6:
        rels.append(("lo", 2, "rel"))
        kind = rng.choice(["min", "max"])
        rules.append(rule([("lo", [V("x"), V("m")])], [clause("reach", "x"), ("agg", "m", kind, ["wv"], "w", [("k", V("x")), ("b", "wv")])]))
        extra.append("lo")
    if rng.random() < 0.6:
        rels.append(("open", 1, "rel"))
        o = rng.choice(["blk", "w"])
        rules.append(rule([("open", [V("x")])], [clause("reach", "x"), ("neg", o, [V("x")] + [("w",)] * ((ba if o == "blk" else 2) - 1))]))
        extra.append("open")
    # downstream readers of the results
    if "cost" in extra and rng.random() < 0.8:
        rels.append(("cheap", 1, "rel"))
        b = [clause("cost", "x", "t"), ("cond", ("if", "le", ["t", "x"]))]
        if "lo" in extra and rng.random() < 0.6:
            b.append(("neg", "lo", [V("x"), ("w",)]))
        rules.append(rule([("cheap", [V("x")])], b))
        if rng.random() < 0.5:
            rels.append(("far", 2, "rel"))
            rules.append(rule([("far", [V("x"), V("y")])], [clause("cheap", "x"), clause("edge", "x", "y"), clause("cheap", "y")]))
    if "nblk" in extra and rng.random() < 0.8:
        rels.append(("free", 2, "rel"))
        rules.append(rule([("free", [V("x"), V("k")])], [clause("nblk", "k"), clause("reach", "x"), ("cond", ("if", "le", ["k", "x"]))]))
        if rng.random() < 0.5:
            rels.append(("nfree", 1, "rel"))
            rules.append(rule([("nfree", [("f", "asi32", ["n"])])], [("agg", "n", "count", [], "free", [("w",), ("w",)])]))
    if "open" in extra and rng.random() < 0.5:
        rels.append(("nopen", 1, "rel"))
        rules.append(rule([("nopen", [("f", "asi32", ["n"])])], [("agg", "n", "count", [], "open", [("w",)])]))
    if "lo" in extra and rng.random() < 0.5:
        rels.append(("nolo", 1, "rel"))
        rules.append(rule([("nolo", [V("x")])], [clause("start", "x"), ("neg", "lo", [V("x"), ("w",)])]))
    opts = [r for r in rels if r[0] in ("blk", "w")]
    rules += dead_producers(rng, opts, [r for r in rels if r[0] in ("edge", "start")])
    rng.shuffle(rules)
    order = list(range(len(rels)))
    rng.shuffle(order)
    return dict(rels=[rels[i] for i in order], rules=rules, shape="stratified"), ["blk", "w"]


def gen_cases(tier, seed, prop="C09"):
    rng = lib.rng_for(seed, prop, "opt")
    n = 8 if tier == "quick" else 24
    cases = []
    for i in range(n):
        if i % 2 == 0:
            p, opts = gen_reach_opt(rng)
            inputs = []
            for _ in range(2):
                nn = rng.choice([3, 4, 6])
                edges = list(dict.fromkeys((rng.randrange(nn), rng.randrange(nn)) for _ in range(rng.choice([2, 4, 6, 9]))))
                starts = list(dict.fromkeys((rng.randrange(nn),) for _ in range(rng.choice([1, 1, 2]))))
                inputs.append({r[0]: (edges if r[0] == "edge" else starts if r[0] == "start" else []) for r in p["rels"]})
        else:
            p, opts = gen_strat_opt(rng)
            inputs = []
            for _ in range(2):
                inp = gen_dl.gen_input(rng, p["rels"], style=rng.choice(["small", "mixed", "sparse_chain", "dense"]))[0]
                for n_, a, _ in p["rels"]:
                    if n_ in opts:
                        inp[n_] = []
                    elif not n_.startswith("l0_") and rng.random() < 0.6:
                        inp[n_] = []          # derived relations mostly start empty
                    elif n_.startswith("l0_") and not inp[n_]:
                        inp[n_] = [tuple(rng.choice(gen_dl.DOM) for _ in range(a))]
                inputs.append(inp)
            # a relation is "without input" only if it is so in every script
            for n_, _, _ in p["rels"]:
                if any(inp[n_] for inp in inputs) and not all(inp[n_] for inp in inputs) and rng.random() < 0.5:
                    for inp in inputs:
                        inp[n_] = []
        cases.append(dict(id="c09_o%d" % i, prog=p, inputs=inputs, origin="generated-opt", opt_family=True, optional=opts, sub=("reach" if i % 2 == 0 else "strat"),
                          never_filled=never_filled(p, inputs)))
    return cases


def empty_agg_sites(p, inputs):
    """[(rule index, aggregator name, relation)]: aggregates / negations over relations that provably stay empty"""
    nf = set(never_filled(p, inputs))
    out = []
    for ri, r in enumerate(p["rules"]):
        for it in r["body"]:
            if it[0] == "agg" and it[4] in nf:
                out.append((ri, it[2], it[4]))
            elif it[0] == "neg" and it[1] in nf:
                out.append((ri, "not", it[1]))
    return out


# ------------------------------------------------------------------ packagings

def rust_rule_user(r, names):
    """dl.rust_rule with count / sum / negation spelled as the user aggregators `names`"""
    kinds = dl.Kinds()
    body = []
    for it in r["body"]:
        if it[0] == "neg" and "not" in names:
            body.append("agg () = %s() in %s(%s)" % (names["not"], it[1], ", ".join(dl.rust_term(t, kinds) for t in it[2])))
            continue
        s = dl.rust_item(it, kinds)
        if it[0] == "agg" and it[2] in names:
            s = s.replace("ascent::aggregators::" + it[2], names[it[2]], 1)
        body.append(s)
    heads = ["%s(%s)" % (rel, ", ".join(dl.rust_term(t, kinds, in_expr=(t[0] != "v")) for t in args)) for rel, args in r["heads"]]
    if not body:
        return "%s;" % ", ".join(heads)
    return "%s <-- %s;" % (", ".join(heads), ", ".join(body))


def struct_script(rels, inp, fed, macro):
    body = ["let mut flags: Vec<bool> = vec![];", "let mut p = Prog::default();"]
    body += c09_pack.set_fields([r for r in rels if r[0] in fed], inp, macro=macro)          # the other fields are never touched
    body += ["p.run();", "(vec![snap!(p)], flags)"]
    return "\n".join("      " + l for l in body)


def packagings(rng, cid, p, inputs, tier, full=True):
    """packaging jobs in which every relation without input (in all scripts) is declared bare.  full=False: only the two ascent_run!
    forms (used for the ordinary cases of gen/props/c09.py that happen to have such a relation)"""
    rels = p["rels"]
    decls, rules = c09_pack.program_items(p)
    fed = {n for n, _, _ in rels if any(inp.get(n) for inp in inputs)}
    bare = [n for n, _, _ in rels if n not in fed]
    kind_of = {n: k for n, _, k in rels}
    jobs = []
    thorough = tier != "quick"
    note = "without input, declared bare: %s" % bare

    def from_local(n, m):
        return "in_%s.iter().cloned()%s.collect()" % (n, c09_pack.wrap(kind_of[n], m))

    def cap_rule(n, a):
        vs = ["c%d" % i for i in range(a)]
        return "%s(%s) <-- for (%s) in in_%s.iter();" % (n, ", ".join("*" + v for v in vs), "".join(v + ", " for v in vs), n)

    def add(kind, macro, items, scripts, desc=""):
        jobs.append(dict(id="%s_%s" % (cid, kind), kind=kind, macro=macro, items=items, scripts=scripts, desc=(desc + "; " if desc else "") + note, rels=rels,
                         script_input=list(range(len(scripts))), expect_flags=[[] for _ in scripts], family="opt"))

    def go_scripts():
        return [c09_pack.go_script(rels, inp) for inp in inputs]

    def init_lines(m, simple):
        return [c09_pack.init_decl(d, ("in_%s" % n) if simple else from_local(n, m)) if n in fed else d for d, (n, _, _) in zip(decls, rels)]

    # ascent_run! / ascent_run_par! with initialisers for the relations that have input
    add("d_run_init", "ascent_run", [c09_pack.go_fn("ascent_run", rels, [], init_lines("ascent_run", True) + rules)], go_scripts())
    # ... fed by rules over the captured locals
    caps = [cap_rule(n, a) for n, a, _ in rels if n in fed]
    m = rng.choice(["ascent_run", "ascent_run_par"]) if full else "ascent_run"
    k = rng.randint(0, len(rules))
    add("d_run_rules", m, [c09_pack.go_fn(m, rels, rng.choice([[], ["pub struct Prog;"]]), decls + rules[:k] + rng.sample(caps, len(caps)) + rules[k:])], go_scripts())
    if not full:
        return finish(jobs, rels)
    add("d_runpar_init", "ascent_run_par", [c09_pack.go_fn("ascent_run_par", rels, ["pub struct Prog;"], init_lines("ascent_run_par", False) + rules)], go_scripts())
    # the struct packagings: fields without input never touched
    add("d_base", "ascent", [c09_pack.macro_call("ascent", ["pub struct Prog;"], decls + rules)], [struct_script(rels, inp, fed, "ascent") for inp in inputs])
    if thorough or rng.random() < 0.5:
        add("d_par", "ascent_par", [c09_pack.macro_call("ascent_par", ["pub struct Prog;"], decls + rules)], [struct_script(rels, inp, fed, "ascent_par") for inp in inputs])
    # a library (include_source!) with optional inputs: bare declarations of everything that has no input here + all the rules
    macros = ["ascent_run", "ascent_run_par", "ascent", "ascent_par"]
    chosen = macros if thorough else [rng.choice(macros[:2]), rng.choice(macros)]
    for m in dict.fromkeys(chosen):
        kind = "d_inc_lib_%s" % m.replace("ascent", "a")
        lib_lines = [d for d, (n, _, _) in zip(decls, rels) if n not in fed] + rules
        if rng.random() < 0.5:
            rng.shuffle(lib_lines)
        blk, path = c09_pack.source_block("src_%s_%s_a" % (cid, kind), lib_lines, doc=(rng.random() < 0.3), nested=(rng.random() < 0.4))
        inc = "include_source!(%s);" % path
        if m.startswith("ascent_run"):
            own = [c09_pack.init_decl(d, from_local(n, m)) for d, (n, _, _) in zip(decls, rels) if n in fed]
            lines = [inc] + own if rng.random() < 0.5 else own + [inc]
            add(kind, m, [blk, c09_pack.go_fn(m, rels, rng.choice([[], ["pub struct Prog;"]]), lines)], go_scripts(), "library = bare declarations + all rules")
        else:
            own = [d for d, (n, _, _) in zip(decls, rels) if n in fed]
            lines = [inc] + own if rng.random() < 0.5 else own + [inc]
            add(kind, m, [blk, c09_pack.macro_call(m, ["pub struct Prog;"], lines)], [struct_script(rels, inp, fed, m) for inp in inputs], "library = bare declarations + all rules")
    # count / sum / negation as user aggregators
    urules = [rust_rule_user(r, USER_NAMES) for r in p["rules"]]
    if urules != rules:
        m = rng.choice(["ascent_run", "ascent_run", "ascent_run_par", "ascent"]) if not thorough else rng.choice(["ascent_run", "ascent_run_par"])
        if m == "ascent":
            add("d_user_agg", m, [USER_AGGS, c09_pack.macro_call(m, ["pub struct Prog;"], decls + urules)], [struct_script(rels, inp, fed, m) for inp in inputs],
                "count / sum / not spelled as user aggregators c09_size / c09_total / c09_none")
        else:
            add("d_user_agg", m, [USER_AGGS, c09_pack.go_fn(m, rels, [], init_lines(m, False) + urules)], go_scripts(),
                "count / sum / not spelled as user aggregators c09_size / c09_total / c09_none")
        if thorough:
            add("d_user_agg_base", "ascent", [USER_AGGS, c09_pack.macro_call("ascent", ["pub struct Prog;"], decls + urules)],
                [struct_script(rels, inp, fed, "ascent") for inp in inputs], "user aggregators")
    return finish(jobs, rels)


def finish(jobs, rels):
    for j in jobs:
        j["src"] = c09_pack.module_text(j["id"], rels, j.pop("items"), j["scripts"], par=j["macro"].endswith("par"))
        j["nscripts"] = len(j.pop("scripts"))
    return jobs


def stats(cases, jobs, okc):
    sites = {}
    for c in cases:
        for _, an, _ in empty_agg_sites(c["prog"], c["inputs"]):
            sites[an] = sites.get(an, 0) + 1
    return dict(programs=len(cases), programs_from_the_stratified_generator=sum(1 for c in cases if c.get("sub") == "strat"),
                never_filled_relations=sum(len(never_filled(c["prog"], c["inputs"])) for c in cases),
                aggregates_over_never_filled_relations=sites,
                packaging_jobs=len(jobs), scripts_agreeing=okc)
