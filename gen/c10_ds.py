"""C10, DS half: operation histories against the real eqrel provider types (harness/ds_eqrel) vs the Coq
model (Byods/EqRelModel.v, vm_compute) vs the explicit equivalence closure (python), with the provider
laws P1-P5 of Byods/Provider.v evaluated directly on the real provider's answers.

history = dict(suite='bin'|'par'|'ter', dom, nk, ops=[op])
  op = ['i', k, x, y] | ['h', k, x, y] | ['m'] | ['M'] | ['r'] | ['p', seed, [[ [x, y], .. ], ..]]
"""
import itertools
import os
import shutil

from . import lib

PRELUDE = ("From Coq Require Import List ZArith.\nFrom AV Require Import Byods.EqRelModel.\n"
           "Import ListNotations.\nOpen Scope Z_scope.\n")
M63 = (1 << 63) - 1


def fp(nums):
    h = 7
    for v in nums:
        h = (h * 131105 + (v & M63) + 1) & M63
    return h


# ------------------------------------------------------------------ harness

def harness_binary():
    """build harness/ds_eqrel against lib.REPO (a copy with rewritten paths for a scratch worktree)"""
    if lib.REPO == "/repo":
        b, log = lib.harness_build("ds_eqrel")
    else:
        import hashlib
        tag = hashlib.sha1(lib.REPO.encode()).hexdigest()[:8]
        src = os.path.join(lib.VERIF, "harness", "ds_eqrel")
        d = os.path.join(lib.BUILD, "ds_eqrel_" + tag)
        if os.path.exists(d):
            shutil.rmtree(d)
        shutil.copytree(src, d)
        toml = open(os.path.join(d, "Cargo.toml")).read().replace('"/repo/', '"%s/' % lib.REPO)
        open(os.path.join(d, "Cargo.toml"), "w").write(toml)
        tdir = os.path.join(lib.BUILD, "target_ds_eqrel_" + tag)
        open(os.path.join(d, ".cargo", "config.toml"), "w").write('[net]\noffline = true\n[build]\ntarget-dir = "%s"\n' % tdir)
        shutil.copy(os.path.join(lib.REPO, "Cargo.lock"), os.path.join(d, "Cargo.lock"))
        rc, log = lib.cargo_build(d)
        b = None if rc else os.path.join(tdir, "debug", "ds_eqrel")
    if not b:
        raise lib.Infra("harness ds_eqrel does not build against %s:\n%s" % (lib.REPO, log[-3000:]))
    return b


def op_str(c, o):
    t = c["suite"] == "ter"
    if o[0] in ("i", "h"):
        return "%s:%s" % (o[0], ":".join(str(v) for v in (o[1:4] if t else o[2:4])))
    if o[0] == "p":
        return "p:%d:%s" % (o[1], "/".join("+".join("%d.%d" % (x, y) for x, y in task) for task in o[2]))
    return o[0]


def case_line(c):
    return "%d %d %s" % (c["dom"], c["nk"], " ".join(op_str(c, o) for o in c["ops"]))


def nver(c):
    if c["suite"] == "bin":
        return 20
    if c["suite"] == "par":
        return 40
    return 19 * (c["nk"] + 1) + 21


def parse_line(c, line):
    """-> list of steps: int (insert result) | ('p', [[..]..]) | ('d', D numbers, T numbers) | ('panic', msg)"""
    out = []
    if not line:
        return out
    for st in line.split(";"):
        if st.startswith("panic:"):
            out.append(("panic", st[6:]))
        elif st.startswith("D "):
            body, _, e = st[2:].partition(" E ")
            d, t = body.split(" T ")
            dn, tn = [int(v) for v in d.split()], [int(v) for v in t.split()]
            assert len(dn) == nver(c) and len(tn) == nver(c), (c["suite"], len(dn), nver(c))
            en = [int(v) for v in e.split()]
            # is_empty() of every view of delta, then of total (not part of the model's dump: checked as a law on the real answers)
            out.append(("d", dn, tn, en[:len(en) // 2], en[len(en) // 2:]))
        elif st.startswith("p "):
            out.append(("p", [[int(ch) for ch in t] for t in st[2:].split("/")]))
        else:
            out.append(int(st))
    return out


def step_nums(st):
    if isinstance(st, int):
        return [st]
    if st[0] == "p":
        return []
    if st[0] == "panic":
        return [-1]
    return st[1] + st[2]


def impl_fp(steps):
    return fp([fp(step_nums(s)) for s in steps])


# ------------------------------------------------------------------ Coq side

def coq_op(o):
    if o[0] == "i":
        return "OIns %d %d %d" % (o[1], o[2], o[3])
    if o[0] == "h":
        return "OHead %d %d %d" % (o[1], o[2], o[3])
    if o[0] == "m":
        return "OMerge"
    if o[0] == "M":
        return "OMergeCommon"
    if o[0] == "r":
        return "ORestart"
    if o[0] == "p":
        return "OPar [%s]" % "; ".join("[%s]" % "; ".join("(%d, %d)" % (x, y) for x, y in t) for t in o[2])
    raise ValueError(o)


def coq_trace(c):
    h = "[" + "; ".join(coq_op(o) for o in c["ops"]) + "]"
    if c["suite"] == "bin":
        return "bin_trace %d b_init %s" % (c["dom"] + 1, h)
    if c["suite"] == "par":
        return "par_trace %d p_init %s" % (c["dom"] + 1, h)
    return "ter_trace %d %d%%nat t_init %s" % (c["dom"] + 1, c["nk"], h)


def model_fps(cases, tag="c10ds"):
    exprs = ["fp_trace (%s)" % coq_trace(c) for c in cases]
    return lib.coq_eval(tag, PRELUDE, exprs, per_shard=120)


def model_full(cases, tag="c10full"):
    return lib.coq_eval(tag, PRELUDE, [coq_trace(c) for c in cases], per_shard=20)


# ------------------------------------------------------------------ layouts

def split_version(c, nums):
    """numbers of one version -> {view: dict(some=, get=[masks], get_dups=, all=[masks], all_dups=, ck=[masks])}"""
    if c["suite"] in ("bin", "par"):
        def one(v):
            return dict(
                f=dict(get=[v[0]], badcnt=v[1], ck=[v[2]], all=[v[3]], all_dups=v[4], get_dups=0, some=None),
                i0=dict(some=v[5], get=[v[6]], get_dups=v[7], all=[v[8]], all_dups=v[9]),
                i1=dict(some=v[10], get=[v[11]], get_dups=v[12], all=[v[13]], all_dups=v[14]),
                n=dict(some=v[15], get=[v[16]], get_dups=v[17], all=[v[18]], all_dups=v[19]))
        res = one(nums[:20])
        if c["suite"] == "par":
            for k, v in one(nums[20:40]).items():
                res["c_" + k] = v
        return res
    K = c["nk"] + 1
    pos = [0]

    def take(n):
        r = nums[pos[0]:pos[0] + n]
        pos[0] += n
        return r
    res = {}
    g, bad, ck, al, ad = take(K), take(1)[0], take(K), take(K), take(1)[0]
    res["f"] = dict(get=g, badcnt=bad, ck=ck, all=al, all_dups=ad, get_dups=0, some=None)
    for name, nsome in (("i0", 1), ("i1", 1), ("i2", 1), ("i01", K), ("i02", K), ("i12", 1), ("n", 1)):
        some = take(nsome)
        g, gd, al, ad = take(K), take(1)[0], take(K), take(1)[0]
        res[name] = dict(some=some, get=g, get_dups=gd, all=al, all_dups=ad, panic=(gd == -1))
    assert pos[0] == len(nums)
    return res


# ------------------------------------------------------------------ specification: explicit closure

def closure_mask(pairs, d1):
    """equivalence closure (reflexive on mentioned elements) of a list of pairs, as a bit mask"""
    parent = {}

    def find(a):
        while parent[a] != a:
            parent[a] = parent[parent[a]]
            a = parent[a]
        return a
    for x, y in pairs:
        parent.setdefault(x, x)
        parent.setdefault(y, y)
        rx, ry = find(x), find(y)
        if rx != ry:
            parent[rx] = ry
    m = 0
    for a in parent:
        for b in parent:
            if find(a) == find(b):
                m |= 1 << (a * d1 + b)
    return m


def closure_naive(pairs, d1):
    """the same closure computed from the three explicit rules (self-check of closure_mask)"""
    rel = set()
    for x, y in pairs:
        rel |= {(x, y), (x, x), (y, y)}
    ch = True
    while ch:
        ch = False
        for (a, b) in list(rel):
            if (b, a) not in rel:
                rel.add((b, a))
                ch = True
            for (c, d) in list(rel):
                if b == c and (a, d) not in rel:
                    rel.add((a, d))
                    ch = True
    m = 0
    for a, b in rel:
        m |= 1 << (a * d1 + b)
    return m


def bits(m, d1, k=None):
    out = []
    i = 0
    while m:
        if m & 1:
            out.append((i // d1, i % d1) if k is None else (k, i // d1, i % d1))
        m >>= 1
        i += 1
    return out


def show(masks, d1, ter):
    out = []
    for k, m in enumerate(masks):
        out += bits(m, d1, k if ter else None)
    return out[:8]


LAW_TEXT = {
    "P1": "P1: insert_if_not_present(new, t) returned false although t is not in the closure of what new holds",
    "P2a": "P2: total or delta serves a tuple outside the closure of the inserted tuples",
    "P2b": "P2: a tuple of the closure of the inserted tuples is served neither by total nor by delta",
    "P3a": "P3: total serves a tuple that was served neither by total nor by delta before the merge (never offered as delta)",
    "P3b": "P3: a tuple served by total or delta before the merge is not served by total after it",
    "P4c": "P4: a keyed view misses a tuple of its version",
    "P4s": "P4: a keyed view serves a tuple outside total+delta (or under the wrong key)",
    "P4m": "P4: a view of total serves a tuple twice",
    "P5": "P5: contains_key disagrees with the version's content",
    "EMPTY": "is_empty() of a view returned true although the view serves tuples (generated code skips a rule whose body relation reports empty)",
    "PANIC": "the provider panicked",
    "LIN": "concurrent inserts: no sequential order of the atomic steps explains the returned booleans",
}


def check_laws(c, steps):
    """-> list of dict(law, op, view, ver, what, extra/missing) for the first failing law of each kind"""
    d1 = c["dom"] + 1
    ter = c["suite"] == "ter"
    K = c["nk"] + 1 if ter else 1
    gt = [[] for _ in range(K)]
    gd = [[] for _ in range(K)]
    pend = [[] for _ in range(K)]
    e_t = [0] * K
    e_td = [0] * K
    viol = []
    seen = set()

    flags = dict(double=False)

    def add(law, i, view, ver, detail):
        # one report per law and view group of a history (the groups are what the known classes distinguish)
        grp = "i12_all" if view == "i12_all" else ("rev" if view.split("_")[0] in ("i1", "i2", "i12") else "other")
        key = (law, grp, ver)
        if key in seen:
            return
        seen.add(key)
        viol.append(dict(law=law, op=i, view=view, ver=ver, text=LAW_TEXT[law], detail=detail, double=flags["double"],
                         merge=c["ops"][i][0] if i < len(c["ops"]) else None))
    for i, (o, st) in enumerate(zip(c["ops"], steps)):
        if isinstance(st, tuple) and st[0] == "panic":
            add("PANIC", i, "-", "-", "op #%d %s: %s" % (i, op_str(c, o), st[1]))
            break
        if o[0] in ("i", "h"):
            k = o[1] if ter else 0
            x, y = o[2], o[3]
            b = 1 << (x * d1 + y)
            if o[0] == "h":
                if (st == 2) != bool(e_td[k] & b):
                    add("P5", i, "f", "T+D", "head update of %s: contains_key(total) || contains_key(delta) = %s, closure says %s" % (o[1:], st == 2, bool(e_td[k] & b)))
                if st == 2:
                    continue
            if st == 0 and not (closure_mask(pend[k], d1) & b):
                add("P1", i, "f", "N", "insert %s returned false; new holds %s" % (o[1:], pend[k]))
            pend[k].append((x, y))
        elif o[0] == "p":
            res = st[1]
            tasks = o[2]
            if not linearizable(tasks, res, e_td[0], pend[0], d1):
                add("LIN", i, "f", "N", "tasks %s results %s" % (tasks, res))
            for task, rs in zip(tasks, res):
                for (x, y), r in zip(task, rs):
                    if r != 2:
                        pend[0].append((x, y))
        else:
            if o[0] == "r":
                gd = [list(g) for g in gt]
                gt = [[] for _ in range(K)]
            else:
                reps = 1
                for _ in range(reps):
                    gt = [list(g) for g in gd]
                    gd = [gd[k] + pend[k] for k in range(K)]
            pend = [[] for _ in range(K)]
            e_t = [closure_mask(g, d1) for g in gt]
            e_td = [closure_mask(g, d1) for g in gd]
            e_d = [e_td[k] & ~e_t[k] for k in range(K)]
            D, T = split_version(c, st[1]), split_version(c, st[2])
            if len(st) > 3:
                names = ["f", "i0", "i1", "i2", "i01", "i02", "i12", "n"] if ter else ["f", "i0", "i1", "n"]
                for ver, V, fl in (("D", D, st[3]), ("T", T, st[4])):
                    for nm, b in zip(names, fl):
                        if b == 2:
                            add("PANIC", i, nm, ver, "is_empty() of view %s panicked" % nm)
                        elif b == 1 and (any(m > 0 for m in V[nm]["all"]) or any(m > 0 for m in V[nm]["get"])):
                            add("EMPTY", i, nm, ver, "view %s of %s: is_empty() = true, iter_all serves %s" % (nm, "delta" if ver == "D" else "total", V[nm]["all"]))
            pre = "n" if "n" in T else "c_n"
            r_t, r_d = T[pre]["get"], D[pre]["get"]

            def sub(a, b):
                return [a[k] & ~b[k] for k in range(K)]

            def union(a, b):
                return [a[k] | b[k] for k in range(K)]
            # the answers are exactly those of a provider that merged twice: everything inserted is already in
            # total and delta serves nothing
            flags["double"] = o[0] == "m" and any(e_d) and r_t == e_td and not any(r_d)
            x = sub(union(r_t, r_d), e_td)
            if any(x):
                add("P2a", i, "n", "T+D", "not in the closure: %s" % show(x, d1, ter))
            x = sub(e_td, union(r_t, r_d))
            if any(x):
                add("P2b", i, "n", "T+D", "missing: %s" % show(x, d1, ter))
            x = sub(r_t, e_t)
            if any(x):
                add("P3a", i, "n", "T", "in total without having been delta: %s" % show(x, d1, ter))
            x = sub(e_t, r_t)
            if any(x):
                add("P3b", i, "n", "T", "lost from total: %s" % show(x, d1, ter))
            for ver, V, low in (("T", T, e_t), ("D", D, e_d)):
                for view, f in V.items():
                    if f.get("panic"):
                        add("PANIC", i, view, ver, "reading the view panicked (Option::unwrap on None in the reverse-map lookup)")
                        continue
                    for kind in ("get", "all"):
                        x = sub(low, f[kind])
                        if any(x):
                            add("P4c", i, "%s_%s" % (view, kind), ver, "missing: %s" % show(x, d1, ter))
                        x = sub(f[kind], e_td)
                        if any(x):
                            add("P4s", i, "%s_%s" % (view, kind), ver, "outside total+delta: %s" % show(x, d1, ter))
                        if ver == "T" and f[kind + "_dups"]:
                            add("P4m", i, "%s_%s" % (view, kind), ver, "%d duplicate / out-of-range entries" % f[kind + "_dups"])
                    if view.endswith("f"):
                        if f["badcnt"]:
                            add("P4m", i, view + "_get", ver, "full index returned a number of values other than one")
                        ckl = f["ck"]
                        if ver == "T" and ckl != e_t:
                            add("P5", i, view + "_ck", "T", "contains_key(total) true on %s, total is %s" % (show(ckl, d1, ter), show(e_t, d1, ter)))
                        if ver == "D" and (any(sub(e_d, ckl)) or any(sub(ckl, e_td))):
                            add("P5", i, view + "_ck", "D", "contains_key(delta) true on %s, delta is %s" % (show(ckl, d1, ter), show(e_d, d1, ter)))
    return viol


def linearizable(tasks, res, e_td, pend, d1):
    """is there an interleaving of the tasks (program order kept) under which every head update returns
    what was observed: 2 if the tuple is in total+delta, else 1 iff it was not in the closure of new"""
    n = len(tasks)
    seen = set()

    def go(pos, cur):
        if all(pos[t] == len(tasks[t]) for t in range(n)):
            return True
        key = (tuple(pos), tuple(sorted(cur)))
        if key in seen:
            return False
        seen.add(key)
        for t in range(n):
            if pos[t] < len(tasks[t]):
                x, y = tasks[t][pos[t]]
                b = 1 << (x * d1 + y)
                r = res[t][pos[t]]
                if e_td & b:
                    want = 2
                else:
                    want = 0 if closure_mask(list(cur), d1) & b else 1
                if want != r:
                    continue
                np = list(pos)
                np[t] += 1
                if go(np, cur if want == 2 else cur + ((x, y),)):
                    return True
        return False
    return go([0] * n, tuple(pend))


# ------------------------------------------------------------------ generation

def rand_round_bin(rng, dom, maxins, head_prob):
    ops = []
    for _ in range(rng.randint(0, maxins)):
        x, y = rng.randrange(dom), rng.randrange(dom)
        if rng.random() < 0.12:
            y = x
        ops.append(["h" if rng.random() < head_prob else "i", 0, x, y])
    return ops


def rand_hist_bin(rng, suite):
    dom = rng.choice([3, 4, 5, 5, 6])
    ops = []
    nstrata = rng.choice([1, 1, 2, 3])
    head_prob = rng.choice([0.0, 0.5, 1.0, 1.0])
    for s in range(nstrata):
        looping = rng.random() < 0.7
        nrounds = rng.randint(1, 5) if looping else 1
        for r in range(nrounds):
            if suite == "par" and rng.random() < 0.5:
                nt = rng.randint(2, 3)
                tasks = [[[rng.randrange(dom), rng.randrange(dom)] for _ in range(rng.randint(1, 3))] for _ in range(nt)]
                ops.append(["p", rng.randrange(1 << 30), tasks])
            else:
                ops += rand_round_bin(rng, dom, 4, head_prob)
            ops.append(["m"])
        # the loop leaves after a round without change / a non-looping stratum merges twice
        ops.append(["m"])
        if rng.random() < 0.15:
            ops += rand_round_bin(rng, dom, 2, head_prob)      # unmerged leftovers are dropped by the boundary
        if s + 1 < nstrata or rng.random() < 0.5:
            ops.append(["r"])
    return dict(suite=suite, dom=dom, nk=0, ops=ops, src="random")


def rand_hist_ter(rng, merge_op):
    dom = rng.choice([4, 4, 5])
    nk = rng.choice([2, 2, 3])
    ops = []
    nstrata = rng.choice([1, 1, 2])
    head_prob = rng.choice([0.0, 1.0, 1.0])
    # keys pause and resume: every round works on a random subset of the keys
    for s in range(nstrata):
        nrounds = rng.randint(1, 5)
        for r in range(nrounds):
            active = [k for k in range(nk) if rng.random() < 0.6] or [rng.randrange(nk)]
            for _ in range(rng.randint(0, 4)):
                k = rng.choice(active)
                x, y = rng.randrange(dom), rng.randrange(dom)
                if rng.random() < 0.1:
                    y = x
                ops.append(["h" if rng.random() < head_prob else "i", k, x, y])
            ops.append([merge_op])
        ops.append([merge_op])
        if s + 1 < nstrata or rng.random() < 0.4:
            ops.append(["r"])
    return dict(suite="ter", dom=dom, nk=nk, ops=ops, src="random")


def exhaustive_bin(suite, rounds, per_round, last=None):
    """all histories over 3 values: `rounds` rounds of at most `per_round` inserts out of the 6 pairs x <= y"""
    pairs = [(x, y) for x in range(3) for y in range(x, 3)]
    choices = [()]
    for n in range(1, per_round + 1):
        choices += list(itertools.product(pairs, repeat=n))
    lastc = choices if last is None else [c for c in choices if len(c) <= last]
    out = []
    for combo in itertools.product(*([choices] * (rounds - 1) + [lastc])):
        ops = []
        for rnd in combo:
            ops += [["i", 0, x, y] for x, y in rnd]
            ops.append(["m"])
        ops.append(["m"])
        out.append(dict(suite=suite, dom=3, nk=0, ops=ops, src="exhaustive"))
    return out


def exhaustive_ter(merge_op, rounds):
    """2 keys x 3 values: per round at most one insert per key out of (0,1) (1,2) (2,2); then a final merge"""
    pairs = [None, (0, 1), (1, 2), (2, 2)]
    per = [(a, b) for a in pairs for b in pairs]
    out = []
    for combo in itertools.product(per, repeat=rounds):
        ops = []
        for a, b in combo:
            if a:
                ops.append(["i", 0, a[0], a[1]])
            if b:
                ops.append(["i", 1, b[0], b[1]])
            ops.append([merge_op])
        ops.append([merge_op])
        out.append(dict(suite="ter", dom=3, nk=2, ops=ops, src="exhaustive"))
    return out


def gen_histories(tier, seed, prop="C10"):
    rng = lib.rng_for(seed, prop, "ds")
    quick = tier == "quick"
    cases = []
    cases += exhaustive_bin("bin", 2 if quick else 3, 2, None if quick else 1)
    cases += exhaustive_bin("par", 2, 1 if quick else 2)
    cases += exhaustive_ter("m", 2 if quick else 3)
    cases += exhaustive_ter("M", 2 if quick else 3)
    nb, npar, nt = (500, 250, 250) if quick else (20000, 6000, 9000)
    for _ in range(nb):
        cases.append(rand_hist_bin(rng, "bin"))
    for _ in range(npar):
        cases.append(rand_hist_bin(rng, "par"))
    for _ in range(nt):
        cases.append(rand_hist_ter(rng, "m"))
    for _ in range(nt):
        cases.append(rand_hist_ter(rng, "M"))
    return cases


def oracle_crosscheck(seed, n=150):
    """the python closure oracle against Closure.eqv (proved equal to the explicit rules) on random pair lists"""
    rng = lib.rng_for(seed, "C10", "oracle")
    lists = []
    for _ in range(n):
        d = rng.randint(2, 6)
        lists.append((d, [(rng.randrange(d), rng.randrange(d)) for _ in range(rng.randint(0, 7))]))
    prelude = PRELUDE.replace("Byods.EqRelModel.", "Byods.EqRelModel.\nFrom AV Require Import Byods.Closure.")
    exprs = ["mask2 %d (eqv [%s])" % (d + 1, "; ".join("(%d, %d)" % p for p in l)) for d, l in lists]
    vals = lib.coq_eval("c10or", prelude, exprs, per_shard=80)
    bad = []
    for (d, l), v in zip(lists, vals):
        if not (closure_mask(l, d + 1) == closure_naive(l, d + 1) == v):
            bad.append((l, closure_mask(l, d + 1), closure_naive(l, d + 1), v))
    if bad:
        raise lib.Infra("closure oracle disagrees with Closure.eqv: %s" % bad[:2])
    return len(lists)


# ------------------------------------------------------------------ running

def run_impl(binary, cases):
    out = [None] * len(cases)
    for suite in ("bin", "par", "ter"):
        idx = [i for i, c in enumerate(cases) if c["suite"] == suite]
        lines = lib.ds_run(binary, suite, [case_line(cases[i]) for i in idx])
        for i, l in zip(idx, lines):
            out[i] = parse_line(cases[i], l)
    return out


def classify(c, v):
    """known-finding key of a law violation: none — the five classes found by this check (ternary merge dropping
    deltas, double merge through the full index, unsound [1,2] iter_all, missing [2] view, parallel key type) are
    fixed in /repo, so every law violation is reported"""
    return None


def shrink(binary, c, pred):
    """drop operations while pred(case, steps) still holds"""
    cur = dict(c, ops=list(c["ops"]))
    changed = True
    while changed and len(cur["ops"]) > 1:
        changed = False
        for i in range(len(cur["ops"])):
            cand = dict(cur, ops=cur["ops"][:i] + cur["ops"][i + 1:])
            steps = run_impl(binary, [cand])[0]
            if pred(cand, steps):
                cur = cand
                changed = True
                break
    return cur


def tie_ds(cases, binary=None, tag="c10ds"):
    """-> (mismatches, stats)"""
    binary = binary or harness_binary()
    impl = run_impl(binary, cases)
    mfp = model_fps(cases, tag)
    mism = []
    stats = dict(histories=len(cases), by_suite={}, by_src={}, merges=0, dumps_compared=0, law_violations={}, panics=0)
    differ = []
    nontrivial = set()
    for c, steps, m in zip(cases, impl, mfp):
        stats["by_suite"][c["suite"]] = stats["by_suite"].get(c["suite"], 0) + 1
        stats["by_src"][c["src"]] = stats["by_src"].get(c["src"], 0) + 1
        nd = sum(1 for s in steps if isinstance(s, tuple) and s[0] == "d")
        stats["dumps_compared"] += nd
        if nd >= 2 and any(o[0] in ("i", "h", "p") for o in c["ops"]):
            nontrivial.add(case_line(c) + c["suite"])
        if impl_fp(steps) != m:
            differ.append((c, steps))
        for v in check_laws(c, steps):
            k = classify(c, v)
            stats["law_violations"][v["law"]] = stats["law_violations"].get(v["law"], 0) + 1
            mism.append(dict(case=dict(c, line=case_line(c)), impl=dict(law=v["law"], view=v["view"], version=v["ver"], op=v["op"], detail=v["detail"]),
                             model=None, spec=v["text"], kind="impl_violates_spec", known=k,
                             what="%s provider, %s [view %s of %s after op #%d %s]: %s" % (
                                 c["suite"], v["text"], v["view"], v["ver"], v["op"], v.get("merge") or "", v["detail"])))
    if differ:
        full = model_full([c for c, _ in differ[:40]], tag + "f")
        for (c, steps), mt in zip(differ[:40], full):
            it = [step_nums(s) for s in steps]
            mt = [list(x) for x in mt]
            j = next((k for k in range(max(len(it), len(mt))) if k >= len(it) or k >= len(mt) or it[k] != mt[k]), None)
            mism.append(dict(case=dict(c, line=case_line(c)), impl=it[j] if j is not None and j < len(it) else None,
                             model=mt[j] if j is not None and j < len(mt) else None, spec=None, kind="model_differs", known=None,
                             what="correspondence Byods/EqRelModel.v (%s_trace) vs real provider: first difference at op #%s %s" % (
                                 c["suite"], j, op_str(c, c["ops"][j]) if j is not None and j < len(c["ops"]) else "")))
    stats["distinct_nontrivial"] = len(nontrivial)
    return mism, stats
