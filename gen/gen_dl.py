"""Seeded generators of ascent programs (python ASTs of gen/dl.py) and input databases."""
from . import dl

DOM = list(range(0, 6))


class RuleGen:
    def __init__(self, rng, rels, opts):
        self.rng, self.rels, self.o = rng, rels, opts
        self.bound = []          # variables bound so far (in order)
        self.nv = 0

    def fresh(self):
        self.nv += 1
        return "x%d" % self.nv

    def some_bound(self, k):
        return [self.rng.choice(self.bound) for _ in range(k)]

    def expr(self, avail):
        f = self.rng.choice(sorted(dl.FUNS))
        return ("f", f, [self.rng.choice(avail) for _ in range(dl.FUNS[f][1])])

    def cond_if(self, avail):
        p = self.rng.choice(sorted(dl.PREDS))
        return ("if", p, [self.rng.choice(avail) for _ in range(dl.PREDS[p][1])])

    def clause(self, rel=None):
        rng = self.rng
        name, arity, _ = rel or rng.choice(self.rels)
        args, here = [], []
        for _ in range(arity):
            u = rng.random()
            if u < 0.42 or (not self.bound and not here and u < 0.8):
                x = self.fresh()
                args.append(("v", x))
                here.append(x)
            elif u < 0.70 and self.bound:
                args.append(("v", rng.choice(self.bound)))
            elif u < 0.76 and here and self.o.get("repeat", True):
                args.append(("v", rng.choice(here)))            # repeated variable inside the clause
            elif u < 0.84:
                args.append(("c", rng.choice(DOM)))
            elif u < 0.90 and self.bound and self.o.get("exprs", True):
                args.append(self.expr(self.bound))
            elif u < 0.93 and here and self.o.get("same_clause_exprs", False):
                args.append(self.expr(here))
            elif self.o.get("wild", True):
                args.append(("w",))
            else:
                x = self.fresh()
                args.append(("v", x))
                here.append(x)
        conds = []
        avail = self.bound + here
        if avail and rng.random() < self.o.get("p_clause_cond", 0.15):
            conds.append(self.cond_if(avail if rng.random() < 0.5 or not here else here))
        self.bound += [x for x in here if x not in self.bound]
        return ("clause", name, args, conds)

    def item(self):
        rng = self.rng
        u = rng.random()
        if not self.bound and rng.random() < self.o.get("p_leading_binder", 0.12):
            # rules starting with let / for: the variable is bound before the first clause
            x = self.fresh()
            self.bound.append(x)
            if rng.random() < 0.6:
                return ("cond", ("letc", x, rng.choice(DOM)))
            return ("gen", x, "range3", [])
        if not self.bound or u < self.o.get("p_clause", 0.68):
            return self.clause()
        if u < 0.80:
            return ("cond", self.cond_if(self.bound))
        if u < 0.88:
            f = rng.choice(sorted(dl.FUNS))
            x = self.fresh()
            it = ("cond", ("let", x, f, self.some_bound(dl.FUNS[f][1])))
            self.bound.append(x)
            return it
        if u < 0.93:
            f = rng.choice(sorted(dl.PARTIALS))
            x = self.fresh()
            it = ("cond", ("iflet", x, f, self.some_bound(dl.PARTIALS[f][1])))
            self.bound.append(x)
            return it
        g = rng.choice(sorted(dl.GENS))
        x = self.fresh()
        it = ("gen", x, g, self.some_bound(dl.GENS[g][1]))
        self.bound.append(x)
        return it

    def head(self, rel):
        rng = self.rng
        name, arity, _ = rel
        args = []
        for _ in range(arity):
            u = rng.random()
            if self.bound and u < 0.74:
                args.append(("v", rng.choice(self.bound)))
            elif self.bound and u < 0.88 and self.o.get("exprs", True):
                args.append(self.expr(self.bound))
            else:
                args.append(("c", rng.choice(DOM)))
        return (name, args)


def gen_rule(rng, rels, opts, head_rels=None, first=None):
    g = RuleGen(rng, rels, opts)
    nbody = rng.choice(opts.get("body_sizes", [1, 2, 2, 2, 3, 3, 4]))
    body = []
    if first is None and rng.random() < opts.get("p_binder_join", 0.10):
        # a binder before the first clause, then two clauses, the second one using the bound variable
        # (the shape that decides whether a simple join may be reordered)
        x = g.fresh()
        g.bound.append(x)
        body.append(("cond", ("letc", x, rng.choice(DOM))) if rng.random() < 0.6 else ("gen", x, "range3", []))
        c1 = g.clause()
        if c1[2] and all(t[0] == "v" and t[1] != x for t in c1[2]) and len({t[1] for t in c1[2]}) == len(c1[2]) and not c1[3]:
            body.append(c1)
            name, arity, _ = rng.choice([r for r in rels if r[1] >= 1] or rels)
            vs1 = [t[1] for t in c1[2]]
            args = [("v", x)] + [("v", rng.choice(vs1)) if rng.random() < 0.6 else ("v", g.fresh()) for _ in range(arity - 1)]
            rng.shuffle(args)
            if len({a[1] for a in args}) == len(args):
                g.bound += [a[1] for a in args if a[1] not in g.bound]
                body.append(("clause", name, args, []))
                nbody = max(nbody, 3)
        else:
            body.append(c1)
    if first is not None:
        body.append(g.clause(first))
    while len(body) < nbody:
        body.append(g.item())
    nheads = 2 if rng.random() < opts.get("p_two_heads", 0.12) else 1
    hr = head_rels or rels
    heads = [g.head(rng.choice(hr)) for _ in range(nheads)]
    return dict(heads=heads, body=body)


def gen_program(rng, opts=None):
    """a core-language program (C01 language) with some recursion structure"""
    opts = dict(opts or {})
    nrel = rng.choice(opts.get("nrels", [2, 3, 3, 4, 5]))
    rels = [("r%d" % i, rng.choice(opts.get("arities", [0, 1, 1, 2, 2, 2, 2, 3, 3])), "rel") for i in range(nrel)]
    nrules = rng.choice(opts.get("nrules", [1, 2, 3, 3, 4, 5, 6]))
    rules = []
    shape = rng.choice(["free", "free", "linear", "nonlinear", "mutual", "chain"])
    for k in range(nrules):
        if shape == "linear" and k == 0:
            r = rng.choice(rels)
            rules.append(gen_rule(rng, rels, opts, head_rels=[r], first=r))
        elif shape == "nonlinear" and k == 0:
            r = rng.choice(rels)
            o2 = dict(opts, body_sizes=[2, 3])
            rule = gen_rule(rng, [r], o2, head_rels=[r], first=r)
            rules.append(rule)
        elif shape == "mutual" and k < 2 and nrel >= 2:
            a, b = rels[0], rels[1]
            rules.append(gen_rule(rng, rels, opts, head_rels=[b if k == 0 else a], first=(a if k == 0 else b)))
        elif shape == "chain":
            src = rels[k % nrel]
            dst = rels[(k + 1) % nrel]
            rules.append(gen_rule(rng, rels, opts, head_rels=[dst], first=src))
        else:
            rules.append(gen_rule(rng, rels, opts))
    if rng.random() < opts.get("p_multihead_recursive", 0.3) and nrel >= 2:
        # a recursive rule with several heads, one of which ("log") is read by no rule at all: a write-only head of a
        # looping SCC — e.g. reach(y), entered(y) <-- reach(x), edge(x, y) — whose tuples get re-derived iterations apart
        log = ("wlog", rng.choice([1, 2]), "rel")
        rels.append(log)
        rec = rng.choice([r for r in rels if r[0] != "wlog"])
        g = RuleGen(rng, [r for r in rels if r[0] != "wlog"], dict(opts, p_clause_cond=0.0))
        body = [g.clause(rec), g.clause()]
        heads = [g.head(rec), g.head(log)]
        if rng.random() < 0.5:
            heads.append(g.head(log))
        rng.shuffle(heads)
        if rng.random() < 0.6:
            heads = [h for h in heads if h[0] != "wlog"] + [h for h in heads if h[0] == "wlog"]   # log never the first head
        rules.append(dict(heads=heads, body=body))
        if rng.random() < opts.get("p_wlog_reader", 0.6):
            # ... and is read by a LATER stratum only: what that stratum sees is what the looping SCC handed over at its exit
            wout = ("wout", log[1], "rel")
            rels.append(wout)
            vs = ["y%d" % i for i in range(log[1])]
            rules.append(dict(heads=[("wout", [("v", v) for v in vs])], body=[("clause", "wlog", [("v", v) for v in vs], [])]))
    if rng.random() < 0.2:   # a body-less fact rule
        name, arity, _ = rng.choice(rels)
        rules.append(dict(heads=[(name, [("c", rng.choice(DOM)) for _ in range(arity)])], body=[]))
    rng.shuffle(rules)
    return dict(rels=rels, rules=rules, shape=shape)


def gen_input(rng, rels, style=None):
    """{rel: [tuple]} — empty relations, singletons, very unequal sizes, dense / sparse"""
    style = style or rng.choice(["small", "mixed", "unequal", "dense", "sparse_chain"])
    inp = {}
    for i, (name, arity, _) in enumerate(rels):
        if style == "some_empty" and rng.random() < 0.45:
            inp[name] = []
            continue
        if style == "small":
            n = rng.choice([0, 1, 1, 2, 3])
        elif style == "mixed":
            n = rng.choice([0, 1, 3, 6, 10])
        elif style == "unequal":
            n = 14 if i % 2 == 0 else rng.choice([0, 1])
        elif style == "dense":
            n = rng.choice([8, 12, 18])
        else:
            n = rng.choice([3, 5, 6])
        ts = []
        if style == "sparse_chain" and arity == 2:
            start = rng.choice([0, 1])
            ts = [(k, k + 1) for k in range(start, start + n)]
        else:
            for _ in range(n):
                ts.append(tuple(rng.choice(DOM) for _ in range(arity)))
        # inputs are sets here; caller-supplied duplicates are generated by C05's tie
        seen, out = set(), []
        for t in ts:
            if t not in seen:
                seen.add(t)
                out.append(t)
        inp[name] = out
    return inp, style


def program_features(p):
    f = set()
    for r in p["rules"]:
        if not r["body"]:
            f.add("fact")
        ncl = 0
        for it in r["body"]:
            f.add(it[0] if it[0] != "cond" else it[1][0])
            if it[0] == "clause":
                ncl += 1
                kinds = [t[0] for t in it[2]]
                for k in kinds:
                    f.add("arg_" + k)
                vs = [t[1] for t in it[2] if t[0] == "v"]
                if len(vs) != len(set(vs)):
                    f.add("repeated_var")
                if it[3]:
                    f.add("clause_cond")
        f.add("clauses_%d" % min(ncl, 4))
        if len(r["heads"]) > 1:
            f.add("multi_head")
    return f


# ------------------------------------------------------------------ stratified programs (C04)

def gen_agg_item(rng, g, lower):
    """an aggregate / negation over a relation of a lower level; g: RuleGen (for bound variables)"""
    name, arity, _ = rng.choice(lower)
    kind = rng.choice(["count", "count", "sum", "min", "max", "neg", "neg"])
    if kind == "neg":
        args = []
        for _ in range(arity):
            u = rng.random()
            if g.bound and u < 0.6:
                args.append(("v", rng.choice(g.bound)))
            elif u < 0.75:
                args.append(("c", rng.choice(DOM)))
            elif g.bound and u < 0.85:
                args.append(g.expr(g.bound))
            else:
                args.append(("w",))
        return ("neg", name, args)
    out = g.fresh()
    args, bound = [], []
    agg_col = rng.randrange(arity) if kind != "count" else None
    for i in range(arity):
        if i == agg_col:
            v = g.fresh()
            bound.append(v)
            args.append(("b", v))
            continue
        u = rng.random()
        if g.bound and u < 0.5:
            args.append(("k", ("v", rng.choice(g.bound))))
        elif u < 0.62:
            args.append(("k", ("c", rng.choice(DOM))))
        elif g.bound and u < 0.7:
            args.append(("k", g.expr(g.bound)))
        else:
            args.append(("w",))
    it = ("agg", out, kind, bound, name, args)
    if kind == "count":
        g.count_vars = getattr(g, "count_vars", []) + [out]      # usize: only usable in heads (as i32)
    else:
        g.bound.append(out)
    return it


def gen_strat_program(rng, opts=None):
    """relations on levels; rules of level L aggregate / negate only relations of lower levels"""
    opts = dict(opts or {})
    nlev = rng.choice([2, 2, 3])
    rels, level = [], {}
    for L in range(nlev):
        for k in range(rng.choice([1, 2])):
            r = ("l%d_%d" % (L, k), rng.choice([1, 2, 2]), "rel")
            rels.append(r)
            level[r[0]] = L
    rules = []
    for L in range(nlev):
        here = [r for r in rels if level[r[0]] == L]
        upto = [r for r in rels if level[r[0]] <= L]
        lower = [r for r in rels if level[r[0]] < L]
        for _ in range(rng.choice([1, 2, 2, 3])):
            g = RuleGen(rng, upto, opts)
            body = []
            n = rng.choice([1, 2, 2, 3, 3, 4])
            nagg = 0
            many_clauses = rng.random() < 0.35     # several positive clauses next to the aggregate (any-empty skip path)
            for i in range(n):
                if many_clauses and i < n - 1:
                    body.append(g.clause())
                    continue
                if lower and (rng.random() < 0.55 or (i == n - 1 and nagg == 0 and L > 0)):
                    body.append(gen_agg_item(rng, g, lower))
                    nagg += 1
                else:
                    body.append(g.item())
            # results of count need a conversion in the head
            h = rng.choice(here)
            args = []
            for _ in range(h[1]):
                cands = list(g.bound) + getattr(g, "count_vars", [])
                if cands and rng.random() < 0.85:
                    x = rng.choice(cands)
                    is_count = any(it[0] == "agg" and it[1] == x and it[2] == "count" for it in body)
                    args.append(("f", "asi32", [x]) if is_count else ("v", x))
                else:
                    args.append(("c", rng.choice(DOM)))
            rules.append(dict(heads=[(h[0], args)], body=body))
    # a rule with several positive clauses next to a negation / count over a lower relation: with that relation
    # EMPTY the rule must still fire (not() holds, count is 0) — the any-relation-empty shortcut must not apply to it
    if rng.random() < 0.5 and nlev >= 2:
        L = rng.randrange(1, nlev)
        here = [r for r in rels if level[r[0]] == L]
        lower = [r for r in rels if level[r[0]] < L]
        g = RuleGen(rng, lower, dict(opts, wild=False, p_clause_cond=0.0))
        # a chain join over plain variables (derives something on most inputs)
        body, prev = [], g.fresh()
        g.bound.append(prev)
        for _ in range(rng.choice([2, 3, 3])):
            name, arity, _ = rng.choice(lower)
            args = [("v", prev)]
            for _ in range(arity - 1):
                prev = g.fresh()
                g.bound.append(prev)
                args.append(("v", prev))
            body.append(("clause", name, args, []))
        # the aggregated / negated relation is one that the chain does not read (so it can be empty on its own)
        used = {it[1] for it in body}
        cands = [r for r in lower if r[0] not in used]
        if not cands:
            zr = ("l0_z", rng.choice([1, 2]), "rel")
            rels.append(zr)
            level[zr[0]] = 0
            cands = [zr]
        name, arity, _ = rng.choice(cands)
        if rng.random() < 0.5:
            body.append(("neg", name, [("v", rng.choice(g.bound)) if rng.random() < 0.7 else ("w",) for _ in range(arity)]))
            extra = None
        else:
            out = g.fresh()
            body.append(("agg", out, "count", [], name, [("k", ("v", rng.choice(g.bound))) if rng.random() < 0.6 else ("w",) for _ in range(arity)]))
            extra = out
        h = rng.choice(here)
        args = []
        for _ in range(h[1]):
            if extra and rng.random() < 0.4:
                args.append(("f", "asi32", [extra]))
            else:
                args.append(("v", rng.choice(g.bound)))
        rules.append(dict(heads=[(h[0], args)], body=body))
    # an aggregate BEFORE the first clause whose result is an argument of the second of two plain clauses: whether those two
    # clauses may be evaluated in either order (simple join) depends on the variables bound before them — the aggregate's
    # RESULT pattern, not its aggregated columns
    agg_join = None
    if rng.random() < opts.get("p_agg_then_join", 0.4) and nlev >= 2:
        L = rng.randrange(1, nlev)
        here = [r for r in rels if level[r[0]] == L]
        lower = [r for r in rels if level[r[0]] < L]
        upto = [r for r in rels if level[r[0]] <= L]
        name, arity, _ = rng.choice(lower)
        col = rng.randrange(arity)
        kind = rng.choice(["max", "min", "sum", "max"])
        aggit = ("agg", "m0", kind, ["v0"], name, [("b", "v0") if i == col else ("w",) for i in range(arity)])
        a = rng.choice(upto)
        b = rng.choice([r for r in upto if r[1] >= 1])
        avars = ["a%d" % i for i in range(a[1])]
        bargs = [("v", rng.choice(avars)) if rng.random() < 0.7 else ("v", "b%d" % i) for i in range(b[1])]
        bargs[rng.randrange(b[1])] = ("v", "m0")
        body = [aggit, ("clause", a[0], [("v", x) for x in avars], []), ("clause", b[0], bargs, [])]
        scope = avars + [t[1] for t in bargs]
        h = rng.choice(here)
        rules.append(dict(heads=[(h[0], [("v", rng.choice(scope)) for _ in range(h[1])])], body=body))
        agg_join = dict(first=a[0], second=b[0], aggregated=name, col=col, kind=kind)
    rng.shuffle(rules)
    return dict(rels=rels, rules=rules, shape="stratified", agg_join=agg_join)


def agg_join_inputs(rng, p):
    """inputs aimed at the rule of the agg-then-join shape: the two joined relations very unequal in size, both ways (the run-time
    choice of the join order), the second one holding rows with and without the aggregate's value"""
    info = p.get("agg_join")
    out = []
    if not info:
        return out
    ar = {n: a for n, a, _ in p["rels"]}
    for big_first in (True, False):
        inp, _ = gen_input(rng, p["rels"], style=rng.choice(["small", "mixed"]))
        agg_rows = inp.get(info["aggregated"]) or [tuple(rng.choice(DOM) for _ in range(ar[info["aggregated"]]))]
        inp[info["aggregated"]] = agg_rows
        vals = [t[info["col"]] for t in agg_rows]
        m = {"max": max(vals), "min": min(vals), "sum": sum(vals)}[info["kind"]]
        n1, n2 = (rng.choice([9, 12, 16]), rng.choice([2, 3])) if big_first else (rng.choice([1, 2, 3]), rng.choice([9, 12]))
        if info["first"] != info["second"]:
            def rows(rel, n):
                ts = [tuple(rng.choice(DOM + [m]) for _ in range(ar[rel])) for _ in range(n)]
                return list(dict.fromkeys(ts + (inp.get(rel, []) if rel == info["aggregated"] else [])))
            for rel, n in ((info["first"], n1), (info["second"], n2)):
                if rel != info["aggregated"]:
                    inp[rel] = rows(rel, n)
        out.append(inp)
    return out


def aggregated_rels(p):
    out = []
    for r in p["rules"]:
        for it in r["body"]:
            if it[0] == "agg" and it[4] not in out:
                out.append(it[4])
            elif it[0] == "neg" and it[1] not in out:
                out.append(it[1])
    return out
