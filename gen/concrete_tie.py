"""Tie of the engine on the CONCRETE index types (coq/Engine/ConcreteEval.v: every index field a value of the C19 model types
IndexModel.hvec / fmap, every step a C19 model operation) to the REAL index fields of generated programs.

Programs and histories are those of gen/indexed_tie.py (same generators, same seed stream), reduced to the steps ConcreteEval.run_script_c
has: set (first step) / push / run (overwrite and run_timeout steps are dropped from a history; what remains is a push / re-run history).
The real side (PROG harness, dump of every index field through iter_all / index_get / len_estimate around every run()) is indexed_tie's.
The model side evaluates, on the plan dumped by the real front end,

   run_script_c sh std_interp dec FUEL plan steps (c_init_state decls [])       (encoding enc_list / dec_list)

for (sh, dec) in (sh_id, real_swap_dec), (sh_rev, real_swap_dec), (sh_rev, oracle_dec std_swap): the decision of the generated code
(`len_estimate() <= len_estimate()` on the model's own hv_len / fm_len / comb_len) under two iteration orders, and the oracle decision.

Compared after every run(), order-insensitively (the real hash order is arbitrary; the models' orders differ from each other):
   rows of every relation as a multiset; every index field: multiset of (key, value) entries (value = the columns outside the index,
   as the real Direct value type), and len_estimate (= number of keys of the model value: hv_len / fm_len).
kind = model_differs for every difference (the specification oracle on the real data is run by indexed_tie itself).

   python3 -m gen.concrete_tie quick|thorough [seed]        (exit code 1 on any mismatch)
   run_tie(tier, seed) -> dict(evaluations, distinct_nontrivial, mismatches, coverage, rule)
"""
import collections
import json
import os
import sys
import time

from . import dl, lib, prog
from . import indexed_tie as it

PRELUDE = ("From Coq Require Import List ZArith Bool.\n"
           "From AV Require Import Index.IndexModel.\n"
           "From AV Require Import Engine.Core Engine.Sem Engine.Eval Engine.Vocab Engine.IndexedEval Engine.ConcreteEval.\n"
           "Import ListNotations.\nOpen Scope Z_scope.\n")
FUEL = it.FUEL
VARIANTS = [("sh_id", "real_swap_dec"), ("sh_rev", "real_swap_dec"), ("sh_rev", "(oracle_dec std_swap)")]


def reduce_steps(steps):
    out = []
    for st in steps:
        if st[0] == "set" and not out:
            out.append(st)
        elif st[0] in ("push", "run"):
            out.append(st)
    return out


def gen_cases(tier, seed):
    cases = it.gen_cases("quick" if tier == "quick" else "thorough", seed)
    if tier == "quick":
        cases = cases[:48]
    out = []
    for c in cases:
        hists, seen = [], set()
        for h in c["hists"]:
            steps = reduce_steps(h["steps"])
            key = json.dumps(steps, sort_keys=True, default=list)
            if key in seen or not any(st[0] == "run" for st in steps):
                continue
            seen.add(key)
            hists.append(dict(kind="push", steps=steps))
        if hists:
            out.append(dict(c, id="cx_" + c["id"], hists=hists))
    return out


def coq_steps(steps, p, R):
    out = []
    for st in steps:
        if st[0] in ("set", "push"):
            out.append("CPush %s" % dl.coq_facts(it.facts_of_input(st[1], p["rels"]), R))
        else:
            out.append("CRun")
    return dl.coq_list(out)


def model_expr(p, dump, hists):
    R = dl.Names()
    for name, _, _ in p["rels"]:
        R(name)
    plan, _ = dl.coq_plan(dump, R)
    decls = it.coq_decls(dump, R)
    hs = []
    for h in hists:
        st = coq_steps(h["steps"], p, R)
        hs.append(dl.coq_list("run_script_c %s std_interp %s %d%%nat pl %s (c_init_state ds [])" % (sh, dcs, FUEL, st) for sh, dcs in VARIANTS))
    e = "let pl := %s in let ds := %s in %s" % (plan, decls, dl.coq_list(hs))
    inv = {v: k for k, v in R.d.items()}
    return e, inv


def compare(r, mvals, inv, stats):
    mism = []
    c = r["case"]
    rels = c["prog"]["rels"]
    arity = {rd["name"]: rd["arity"] for rd in r["dump"]["relations"]}
    base = dict(program=r["text"], id=c["id"], family=c["family"], prog_ast=c["prog"])
    for k, h in enumerate(c["hists"]):
        steps = h["steps"]
        ncall = sum(1 for st in steps if st[0] == "run")
        cs = dict(base, history=steps, history_text=it.describe(steps))
        iv = r["impl"][k]
        if "snaps" not in iv or len(iv["snaps"]) != 4 * ncall:
            mism.append(dict(case=cs, impl=iv, model=None, spec=None, kind="impl_violates_spec", known=None,
                             what="implementation did not complete the history: %s" % json.dumps(iv)[:400]))
            continue
        stats["histories"] += 1
        for vi, (shn, dcs) in enumerate(VARIANTS):
            mh = mvals[k][vi]
            vname = "%s / %s" % (shn, dcs)
            if mh == "None":
                mism.append(dict(case=cs, impl="completed", model="None", spec=None, kind="model_differs", known=None,
                                 what="ConcreteEval.run_script_c (%s) did not terminate within fuel %d" % (vname, FUEL)))
                continue
            mh = mh[1]
            for j in range(ncall):
                rows = prog.rows_snap(iv["snaps"][4 * j + 2])
                real = {ix["field"]: ix for ix in iv["snaps"][4 * j + 3]["indices"]}
                mrows_l, midx_l, mlens_l = mh[j]
                after = "after call #%d of [%s], model variant %s" % (j + 1, it.describe(steps, j), vname)
                stats["snapshots"] += 1
                m_rows = collections.defaultdict(list)
                for (rid, t) in mrows_l:
                    m_rows[inv[rid]].append(tuple(t))
                for name, _, _ in rels:
                    rr, mr = rows.get(name, []), m_rows.get(name, [])
                    stats["row_checks"] += 1
                    if collections.Counter(rr) != collections.Counter(mr):
                        mism.append(dict(case=dict(cs, call=j + 1), impl=dict(rows=sorted(rr)), model=dict(rows=sorted(mr)), spec=None, kind="model_differs", known=None,
                                         what="%s: the rows of %s differ from the model's (as multisets): real only %s, model only %s"
                                              % (after, name, sorted((collections.Counter(rr) - collections.Counter(mr)).elements())[:6],
                                                 sorted((collections.Counter(mr) - collections.Counter(rr)).elements())[:6])))
                    if rr != mr:
                        stats["row_order_differs"] += 1
                mlens = {it.field_name(inv[rid], cols): n for (rid, cols, n) in mlens_l}
                for (rid, cols, ents) in midx_l:
                    name = inv[rid]
                    f = it.field_name(name, cols)
                    ix = real.get(f)
                    if ix is None:
                        raise lib.Infra("index field %s missing from the dump of %s" % (f, c["id"]))
                    got = collections.Counter()
                    for key, vals in ix["ents"]:
                        for v in vals:
                            got[(tuple(key), tuple(v))] += 1
                    exp = collections.Counter()
                    for key, t in ents:
                        kk, vv = it.split_entry(cols, arity[name], tuple(t))
                        exp[(tuple(key), vv)] += 1
                        if tuple(key) != kk:
                            mism.append(dict(case=dict(cs, call=j + 1, index=f), impl=None, model=dict(entry=[key, t]), spec=None, kind="model_differs", known=None,
                                             what="%s: model entry of %s whose key is not the index columns of its row" % (after, f)))
                    stats["indices"] += 1
                    stats["entries"] += sum(got.values())
                    if len(cols) != arity[name] and got:
                        stats["nonfull_nonempty"] += 1
                    d = it.multiset_diff(exp, got)
                    if any(d) or ix["len"] != mlens.get(f):
                        why = it.fmt_diff(d[0], d[1], d[2], "model")
                        if ix["len"] != mlens.get(f):
                            why += "; len_estimate %s, model %s" % (ix["len"], mlens.get(f))
                        mism.append(dict(case=dict(cs, call=j + 1, index=f), impl=dict(index=ix), model=dict(entries=ents, len=mlens.get(f)), spec=None,
                                         kind="model_differs", known=None,
                                         what="%s: index field %s differs from the C19 model value: %s" % (after, f, why.strip("; "))))
    return mism


def run_tie(tier="quick", seed=1, tag=None):
    tag = tag or "concrete_%s" % tier
    cases = gen_cases(tier, seed)
    t0 = time.time()
    results, timing = it.run_cases(cases, tag)
    groups, gids, invs = [], [], {}
    for r in results:
        c = r["case"]
        if r["front_status"] != "ok" or r["parse_error"] or r["impl"] is None:
            continue
        e, inv = model_expr(c["prog"], r["dump"], c["hists"])
        invs[c["id"]] = inv
        groups.append([e])
        gids.append(c["id"])
    t1 = time.time()
    vals = lib.coq_eval_groups("%s_c_%d" % (tag, os.getpid()), PRELUDE, groups, timeout=90)
    t2 = time.time()
    byid = dict(zip(gids, vals))
    stats = collections.Counter()
    mism = []
    for r in results:
        cid = r["case"]["id"]
        # indexed_tie's own comparison (real data vs its oracle and vs IndexedEval) on the same runs
        mism += it.compare_result(r, collections.Counter())
        if cid not in byid:
            continue
        if byid[cid] is None:
            stats["coq_timeouts"] += 1
            continue
        stats["programs"] += 1
        mism += compare(r, byid[cid][0], invs[cid], stats)
    return dict(evaluations=stats["snapshots"], distinct_nontrivial=stats["nonfull_nonempty"],
                rule="index-field comparisons (after a run(), per model variant) of a non-full index holding at least one entry",
                mismatches=mism, coverage=dict(stats, cases=len(cases), variants=["%s/%s" % v for v in VARIANTS],
                                               wall=dict(real_and_indexed=t1 - t0, coq_concrete=t2 - t1, **timing)))


def main(argv=None):
    argv = argv or sys.argv[1:]
    tier = argv[0] if argv else "quick"
    seed = int(argv[1]) if len(argv) > 1 else 1
    res = run_tie(tier, seed)
    print(json.dumps(res["coverage"], indent=1, sort_keys=True, default=str))
    print("evaluations=%d distinct_nontrivial=%d mismatches=%d" % (res["evaluations"], res["distinct_nontrivial"], len(res["mismatches"])))
    for m in res["mismatches"][:8]:
        print("MISMATCH", m["kind"], m["what"][:600])
    return 1 if res["mismatches"] else 0


if __name__ == "__main__":
    sys.exit(main())
