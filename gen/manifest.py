"""writes MANIFEST.json from the table below (run: python3 -m gen.manifest)"""
import json
import os

VERIF = os.path.dirname(os.path.dirname(os.path.abspath(__file__)))

CHECKS = {
    "C17": dict(
        text="Theorems (Coq, all finite inputs, all p, all legal size hints): each aggregator of the model equals its list specification, is permutation invariant and percentile never panics; the model is tied to ascent/src/aggregators.rs by running both on the same inputs (exhaustive small lists + random long ones, 4 iterator shapes) — that half is differential testing.",
        note="Trusted: Coq kernel + VM; hand-written Gallina mirror of aggregators.rs (tied by correspondence runs, not verified); values as unbounded Z (sum overflow outside the statement); f64 arithmetic exact on the inputs used; Iterator::size_hint contract.",
        technique="Coq proof over executable model + model/impl correspondence (ds_driver)",
        ref="5/C17"),
}

NOT_YET = {}


def main():
    props = [json.loads(l) for l in open(os.path.join(VERIF, "properties.jsonl"))]
    checks = []
    na = []
    for p in props:
        i = p["id"]
        if i in CHECKS:
            c = CHECKS[i]
            checks.append(dict(
                property_id=i, quick_cmd="./check %s quick" % i, thorough_cmd="./check %s thorough" % i,
                evidence_file="evidence/%s.json" % i, replay_cmd_template="./check %s --replay {path}" % i,
                engine="coq+harness",
                level_claimed=dict(category="proof", text=c["text"], design_ref=c["ref"]),
                level_note=c["note"], technique=c["technique"]))
        else:
            na.append(dict(property_id=i, reason=NOT_YET.get(i, "not claimed yet: machinery for this property is still being built (see DESIGN.md section 8 build order); not a statement that proof cannot apply")))
    man = dict(
        version=1, setup_cmd="./setup.sh",
        hooks=dict(guard="verif_hooks (cargo feature)", enable="harness crates depend on /repo crates with features=[\"verif_hooks\"] where a hook is needed",
                   baseline_off_cmd="cd /repo && cargo test --workspace --no-fail-fast --offline",
                   source_commits=HOOK_COMMITS, add_only=True),
        engines=[dict(name="coq", path="coq/", serves_properties=sorted(CHECKS), kind_free_text="Coq 8.16.1 development: executable Gallina models + theorems; property files coq/Props/Cxx.v"),
                 dict(name="ds_driver", path="harness/ds_driver", serves_properties=[i for i in sorted(CHECKS) if i in ("C16", "C17", "C18", "C19", "C10", "C11", "C12", "C20")], kind_free_text="Rust driver running case tables / operation histories against the real data structures of /repo")],
        checks=checks, not_applicable=na,
        notes="Every check = (1) rebuild + audit of the Coq property file (Print Assumptions, forbidden vernacular, obligations==discharged) and (2) correspondence of the executable model with the implementation rebuilt from /repo's working tree. See DESIGN.md.")
    open(os.path.join(VERIF, "MANIFEST.json"), "w").write(json.dumps(man, indent=1) + "\n")


HOOK_COMMITS = []

if __name__ == "__main__":
    main()
