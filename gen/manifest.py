"""writes MANIFEST.json from the table below (run: python3 -m gen.manifest)"""
import json
import os

VERIF = os.path.dirname(os.path.dirname(os.path.abspath(__file__)))

CHECKS = {
    "C14": dict(
        text="Theorems (Coq, every clock oracle = every point at which the deadline can be observed, every program without aggregates, every accepted plan, every input): whatever run_timeout returns, the program value holds the input rows in place and only derivable tuples (below every closed superset of the input), each added once; `true` means the least model; calling run() afterwards — or run_timeout again, any number of times — completes to the least model of the ORIGINAL input; a clock that never fires makes run_timeout equal run. Tie: programs compiled with #![generate_run_timeout] under the hook's virtual clock (run_timeout(k s) fires exactly at its k-th deadline check): all k, pairs and triples of interruptions, each followed by run(); implementation = model (returned flag and rows after every call) and every state checked against the specification.",
        note="Trusted: as C01 plus the virtual-clock hook (feature verif_hooks) standing in for web_time::Instant. PARTIAL: aggregation / lattices are in the tie but not in the theorems; wall-clock behaviour of the real Instant is not modelled (it only selects which check fires).",
        technique="Coq proof (loop invariant at every exit + least-model interpolation) + correspondence under a deterministic virtual clock",
        ref="5/C14"),
    "C15": dict(
        text="Theorems (Coq, every program / violation position / macro kind / state of the process-wide name counters): acceptance is sound (check = Accept -> well-formed), rejection is complete with the detection order (parse < macro expansion < rules < program attributes < relation attributes < stratification) and sound (every reported error is a genuine violation of that class), a single-class violation is reported with exactly its class, stratification = reachability in the rule dependency graph, include_source deferral, a well-formed program is accepted unless the macro panics, panic freedom under a decidable guard, and the unguarded statement is refuted by the F9 witness (known finding). Tie: generated well-formed programs mutated by one (12%: two) of 14 violation classes under all four macros through the REAL ascent_impl in-process: model verdict = implementation verdict = injected class; a rustc sample confirms the error is reported at the program and covers the rustc-only classes (unknown attribute on a relation, recursive macros).",
        note="Trusted: Coq kernel + VM; hand-written Gallina mirror of the parse / desugar / HIR / MIR decision logic and of the failing unwrap in codegen (tied, not verified); expressions opaque; macro bodies over parameters only; no disjunctions in the model; rustc diagnostics sampled. Known finding: fresh_ident name capture makes the macro panic on a well-formed program (F9).",
        technique="Coq proof over an executable checker model with a declarative violation predicate + FRONT differential tie + rustc sample",
        ref="5/C15"),
    "C16": dict(
        text="Theorems (Coq, by induction on the syntax of the shipped lattice types: all nestings, tuple/Product arities >= 1, array lengths, integer ranges, bounds, Ord element types): partial_cmp is a partial order, join = least upper bound, meet = greatest lower bound, hence commutative / associative / idempotent / absorbing and a <= b iff join = b iff meet = a; join_mut / meet_mut equal join / meet and the changed flag is exact; Dual and Reverse swap the operations; top / bottom extremal. The Gallina mirror of every impl is tied to ascent_base by differential runs on 73 concrete Rust types (exhaustive pairs / triples over small carriers) — that half is testing.",
        note="Trusted: Coq kernel + VM; the hand-written mirror Lattice/LatModel.v (tied, not verified); ds_lat and gen/props/c16.py renderers / law oracle; Rust std (BTreeSet, derived Option / tuple orders, Ord::min / max, Rc / Arc glue); integers as Z restricted to a range.",
        technique="Coq proof by induction over lattice-type syntax + model/impl correspondence (ds_lat)",
        ref="5/C16"),
    "C17": dict(
        text="Theorems (Coq, all finite inputs, all p, all legal size hints): each aggregator of the model equals its list specification, is permutation invariant and percentile never panics; the model is tied to ascent/src/aggregators.rs by running both on the same inputs (exhaustive small lists + random long ones, 4 iterator shapes) — that half is differential testing.",
        note="Trusted: Coq kernel + VM; hand-written Gallina mirror of aggregators.rs (tied by correspondence runs, not verified); values as unbounded Z (sum overflow outside the statement); f64 arithmetic exact on the inputs used; Iterator::size_hint contract.",
        technique="Coq proof over executable model + model/impl correspondence (ds_driver)",
        ref="5/C17"),
    "C01": dict(
        text="Theorem (Coq, every interpretation of the expression symbols, every program without aggregates, every plan accepted by the validator, every finite input, every run-time join-order oracle, unbounded sizes / iterations): the rows after run() are the least model of the rules over the input (contain the input in place, closed under every rule, contained in every closed superset), appended rows are new and duplicate free. The model executes the plan that the REAL macro computed (dumped on every run through the verif_hooks front-end driver and checked by the proved-sound Gallina validator), so the theorem is re-checked against what the front end says now; code generation from the plan is a hand-written executable model tied to the compiled program by running both (and the specification oracle, proved to compute the least model) on generated programs x inputs.",
        note="Trusted: Coq kernel + VM; FRONT hook printer and gen/dl.py translation of the dump into the Coq plan; the hand-written model of the generated code (Engine/Eval.v) is tied by correspondence runs, not verified; rustc; hashbrown/std collections; termination is a hypothesis (fuel) discharged by the runs; values are small i32 (no overflow).",
        technique="Coq proof (semi-naive invariant + evaluator/specification equivalence) over the dumped plan validated in Gallina + model/impl/spec correspondence (FRONT + PROG)",
        ref="5/C01"),
    "C02": dict(
        text="Theorems (Coq, relations without aggregates): one iteration of the parallel head update is schedule independent — for every distribution of the derived facts over workers and every interleaving of their atomic steps that lets all workers finish, `new` holds exactly what the serial head update adds, each fact once, each pushed exactly once, __changed set iff something was added; an unfinished state always has an enabled worker (no deadlock in the modelled discipline); every parallel run (any distribution and schedule in every iteration of every SCC) computes the least model, hence the same relations as the serial run. Tie: every program as ascent_par! with / without #![inter_rule_parallelism] in rayon pools of 1, 2, 3, 8, 16 threads under seeded perturbation schedules vs the serial reference (impl = model = spec).",
        note="Trusted: as C01 plus the perturbation hook. PARTIAL: aggregation and lattices (key mutex + re-check) are in the tie, not in the theorems. RESIDUE (no executable model can exhibit it): real DashMap / RwLock / Mutex / boxcar implementations, rayon work stealing, visibility of the Relaxed __changed store after the scope join — assumed linearizable; the real schedule space is sampled, not enumerated.",
        technique="Coq proof (interleaving invariant over atomic steps + relational parallel engine = least model) + seeded schedule perturbation of the real binary",
        ref="5/C02"),
    "C04": dict(
        text="Theorem (Coq): for every plan accepted by the validator, every duplicate-free input and every interpretation whose aggregators are permutation invariant (proved for the shipped ones), the rows after run() are the stratified model: strata respect the dependencies (aggregated / negated relations are complete before use), each stratum is the least set closed under its rules that extends the lower strata and leaves the aggregated relations fixed; an aggregate ranges over the distinct matching tuples, each once, and the rule continues once per returned value. The first formulation (unconstrained least model) is refuted in Coq with a computed witness. Tie: stratified programs with count/sum/min/max/negation at several levels through FRONT+PROG vs model vs stratified oracle.",
        note="Trusted: as C01; aggregator semantics as modelled in Agg/AggModel.v (C17); inputs are sets (duplicate input rows are outside the statement); python Tarjan stratification for the oracle is re-checked inside Coq (Strat.stratified).",
        technique="Coq proof (stratified semi-naive invariant with multiplicity-one indices) + correspondence (FRONT + PROG)",
        ref="5/C04"),
    "C05": dict(
        text="Theorems (Coq, serial engine): input rows are an unmodified prefix of the result; appended rows are pairwise distinct and absent from the input (any program, aggregates included); with a duplicate-free input the rows are duplicate free. Tie: programs x inputs (incl. caller-supplied duplicates) through the real macro; rows observed in Vec order. Parallel half: proved at the index level in C19 (one insert_if_not_present winner per key for every interleaving) and exercised by C02's tie; lattice keys: C03.",
        note="Trusted: as C01. PARTIAL: the parallel and lattice halves of the statement are not theorems about the engine model here.",
        technique="Coq proof (corollary of the engine invariants) + correspondence on row order / multiplicity",
        ref="5/C05"),
    "C06": dict(
        text="Theorems (Coq): the least model depends only on the SET of rules and the SET of input facts; two validator-accepted plans for two permutations of the rules run on two permutations of the input with any join-order oracles compute the same relations. Tie: every base program with 3-5 variants (permuted rules / declarations / heads / inputs, swapped independent body clauses, alpha-renamed variables and relations, constants mapped injectively to large i64 and to Strings) through the real macro and rustc; all must equal the base program's least model mapped through the renaming.",
        note="Trusted: as C01 plus the variant generator. PARTIAL: head-clause / independent-body-item permutation, alpha renaming and injective constant renaming are exercised by the tie but are not yet theorems.",
        technique="Coq proof (corollaries of the engine theorem) + metamorphic correspondence through the real macro",
        ref="5/C06"),
    "C09": dict(
        text="Theorems (Coq): after deduplication the struct has one field per relation name, from the LAST declaration — the one rules resolve to; ascent_run! (default value, initialisers, one index build, SCCs) = Default + run() = run() on exactly the initialisers' tuples, hence by C01 the least model over them; run_timeout(Duration::MAX) returns true and equals run() for every clock; the rule-time / scc-time wrappers and run_rule under segment-codegen leave rows and indices unchanged; the include_source re-invocation chain ends on exactly the pasted text for every token list and any number / position of includes (positional split; the old span-based split is refuted in Coq and was repaired by 9a74b6c); name resolution is transparent unless a source mentions a captured local (known finding: rejected by rustc, never a wrong result). Tie: every logical program in 17-22 real packagings (ascent! / ascent_run! / _par, include_source at start / middle / end / twice / through a re-spanning proc macro, initialisers, re-declarations, generic signatures, measure_rule_times, generate_run_timeout) x {segment-codegen off, on}; all relations = the specification oracle.",
        note="Trusted: Coq kernel + VM; hand-written models of the packaging logic (tied end to end, not verified); rustc / macro_rules / span printing / cargo features are exercised, not modelled; generic signatures and par = serial are carried only by the tie; gen/c09_pack.py renderer.",
        technique="Coq proofs over executable models of dedup / include splitting / run code paths + metamorphic correspondence through the real macros and rustc",
        ref="5/C09"),
    "C11": dict(
        text="Theorems (Coq): the inner semi-naive merge loop of TrRelIndCommon terminates and computes the transitive closure; for every head-update-protocol history total + delta equals the transitive closure of the inserted tuples, pairs (x,x) implied by cycles included (unguarded since fix 2cd049f); provider laws P1-P5 (insert result, reads = closure, nothing reaches total without having been delta, views, contains); the ternary form lifts per key and its reverse-map views [1], [2], [1,2] of total AND delta never panic and return exactly the restriction of the version (since fixes 0ce9ae6, 72c0385); the pre-fix behaviours are kept as *_before_fix refutations on the model with the old parameters. Tie: histories insert* ; merge ; read every view (binary, ternary with / without reverse maps; acyclic, cyclic, self loops, several keys, pause / resume) real provider vs Coq model vs python closure + laws evaluated on the real answers; programs with a tagged relation vs the same program with the explicit closure rule through the real macro vs the specification oracle.",
        note="Trusted: Coq kernel + VM; hand-written mirror of trrel_binary_ind / trrel_ternary_ind (tied, not verified); BinaryRel abstracted to its pair set; hash order not modelled; histories follow the head-update protocol; serial only (no parallel provider exists). The engine-level reading (C01 with the closure rule plugged in) is carried by the PROG half of the tie, not proved.",
        technique="Coq proof over an executable model of the provider as written + three-way differential tie (provider / model / explicit closure; tagged vs explicit program)",
        ref="5/C11"),
    "C13": dict(
        text="Theorems (Coq, programs without aggregation): a second run() on an unmodified program value leaves the rows unchanged (even their order); after pushing further facts into any relation, run() yields the relations of a fresh run on the union of all inputs; a run depends only on the rows (indices left by earlier runs are irrelevant). Tie: histories run;run / run;push;run;push;run / run(empty);push;run;run on positive and stratified programs, every snapshot compared with model and specification.",
        note="Trusted: as C01; Engine/Rerun.v models the program value between runs. PARTIAL: idempotence with aggregation / lattices is exercised by the tie, not yet a theorem. The defect that made aggregates double on a second run was repaired (fix commit 949309d).",
        technique="Coq proof (least-model idempotence / monotonicity over the engine theorem) + history correspondence",
        ref="5/C13"),
    "C18": dict(
        text="Theorems (Coq, all finite histories, after every operation): UnionFind (add / find / union, raw ids included) never errs — every unchecked index is in bounds, find terminates on fuel = number of elements, no assertion fails —, two items are in the same class exactly when connected by the unions performed, and the structure's own ok() holds; TrRelUnionFind never panics, both assert_* checks hold, and contains / iter_all / set_of / rev_set_of / count_exact / is_empty equal the reflexive transitive closure of the added pairs on mentioned elements (sound AND complete, across class collapses). Nothing partial. Tie: Gallina models vs uf.rs / trrel_union_find.rs incl. complete internal state (63-bit fingerprint per history, refetch on mismatch) and an independent python closure oracle, exhaustive small + random long histories.",
        note="Trusted: Coq kernel + VM; ds_uf harness (an include! copy of uf.rs run in lockstep for the private ok(); state read through derived Debug); gen/props/c18.py encoders / oracles; the 63-bit fingerprint; hashbrown / std collections; HashSet iteration order not modelled (commuting updates); EqRel (private module) is covered under C10.",
        technique="Coq proof (invariant + refinement to the reference closure, induction over histories) + model/impl/oracle correspondence after every operation (ds_uf)",
        ref="5/C18"),
    "C19": dict(
        text="Theorems (Coq, every iteration-order oracle, every shard placement, every interleaving of atomic steps): each index type of the model refines the abstract multimap / set — insert, insert_if_not_present (true iff absent), lookup (exact values with multiplicity), iteration (each entry once), move_index_contents whichever side is larger, merge (total'=total+delta, delta'=new, new'=empty), freeze/unfreeze identity, combined view = sum; concurrent inserts all retained, exactly one insert_if_not_present winner per racing key; whole-history theorems for RelIndexType1 and the CRelIndex stratum protocol; CRelNoIndex merge under the explicit equal-shard-count precondition, conservation otherwise, the equation refuted for unequal counts (reproduced on the real code; C20's subject). Tie: implementation vs model vs independent python oracle on exhaustive-small + random histories, races under rayon pools 1/2/3/8 and std threads.",
        note="Trusted: Coq kernel + VM; hand-written Gallina mirror of the index sources (tied, not verified); DashMap shard locks / RwLock / hashbrown / std collections atomic and as documented; real schedules are sampled, not enumerated; CRelIndex::len_estimate only tied.",
        technique="Coq refinement proof over executable model (order/hash oracles and interleavings universally quantified) + model/impl/oracle correspondence (ds_index)",
        ref="5/C19"),
    "C20": dict(
        text="Theorems (Coq): the life of a CRelNoIndex-backed index across a run (reset + re-index at run start, take / Default / insert from any worker / zip-merge / swap per SCC, any number of SCC visits, any thread indices, any order of inserts) loses and duplicates nothing for EVERY value stored in the struct (any shard count, left by construction or by a run in any pool), never panics, and ends with the run pool's shard count; index_insert is always in bounds (thread index modulo shard count); without the reset at run start a value left by a run in a LARGER pool loses rows (refuted with a computed witness and reproduced on the real type — the pre-fix behaviour); all DashMap-based indices share the process-constant shards_count. Isolation in the model is the absence of shared state, checked against the source on every run by a scan of every static / thread_local / lazy_static against a reviewed allow-list (statistics counters must stay write-only). Tie: instances constructed in one pool, run in another, re-run in a third, nested installs; all jobs of a binary (different generated types, serial and parallel) running at once on OS threads plus two instances of one type racing; each equals the instance run alone; index-level protocol on the real type vs the Coq model.",
        note="Trusted: as C01/C19; the source scan is regular-expression based; rayon gives the run() thread one fixed registry for the duration of the call. RESIDUE: data races on the `static mut` statistics are UB in principle (not observable in results); real scheduling is sampled.",
        technique="Coq proof over the pool protocol model + source scan for shared state + program-level and index-level correspondence across pools",
        ref="5/C20"),
}

NOT_YET = {}


def main():
    props = [json.loads(l) for l in open(os.path.join(VERIF, "properties.jsonl"))]
    checks = []
    na = []
    for p in props:
        i = p["id"]
        if i in CHECKS:
            c = CHECKS[i]
            checks.append(dict(
                property_id=i, quick_cmd="./check %s quick" % i, thorough_cmd="./check %s thorough" % i,
                evidence_file="evidence/%s.json" % i, replay_cmd_template="./check %s --replay {path}" % i,
                engine="coq+harness",
                level_claimed=dict(category="proof", text=c["text"], design_ref=c["ref"]),
                level_note=c["note"], technique=c["technique"]))
        else:
            na.append(dict(property_id=i, reason=NOT_YET.get(i, "not claimed yet: machinery for this property is still being built (see DESIGN.md section 8 build order); not a statement that proof cannot apply")))
    man = dict(
        version=1, setup_cmd="./setup.sh",
        hooks=dict(guard="verif_hooks (cargo feature)", enable="harness crates depend on /repo crates with features=[\"verif_hooks\"] where a hook is needed",
                   baseline_off_cmd="cd /repo && cargo test --workspace --no-fail-fast --offline",
                   source_commits=HOOK_COMMITS, add_only=True),
        engines=[dict(name="coq", path="coq/", serves_properties=sorted(CHECKS), kind_free_text="Coq 8.16.1 development: executable Gallina models + theorems; property files coq/Props/Cxx.v"),
                 dict(name="ds_driver", path="harness/ds_driver", serves_properties=[i for i in sorted(CHECKS) if i in ("C17",)], kind_free_text="Rust driver running case tables against the real aggregators of /repo"),
                 dict(name="ds_index / ds_lat / ds_uf", path="harness/", serves_properties=[i for i in sorted(CHECKS) if i in ("C11", "C16", "C18", "C19")], kind_free_text="Rust drivers running operation histories against the real index types, lattices and union-find structures"),
                 dict(name="FRONT", path="/repo/ascent_macro/src/verif_hook.rs", serves_properties=[i for i in sorted(CHECKS) if i in ("C01", "C02", "C04", "C05", "C06", "C09", "C13", "C14", "C15", "C20")], kind_free_text="in-process front-end driver (cargo feature verif_hooks): runs the real ascent_impl passes on program texts and dumps the MIR plan"),
                 dict(name="PROG", path="gen/prog.py", serves_properties=[i for i in sorted(CHECKS) if i in ("C01", "C02", "C04", "C05", "C06", "C09", "C11", "C13", "C14", "C15", "C20")], kind_free_text="generated crates of ascent programs compiled by rustc against /repo and run on embedded inputs / histories")],
        checks=checks, not_applicable=na,
        notes="Every check = (1) rebuild + audit of the Coq property file (Print Assumptions, forbidden vernacular, obligations==discharged) and (2) correspondence of the executable model with the implementation rebuilt from /repo's working tree. See DESIGN.md.")
    open(os.path.join(VERIF, "MANIFEST.json"), "w").write(json.dumps(man, indent=1) + "\n")


HOOK_COMMITS = ["33cd3e7", "a76ee5e", "5299877", "56580ad"]

if __name__ == "__main__":
    main()
