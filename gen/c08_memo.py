"""C08 — designed family: ONE inner macro invoked with IDENTICALLY SPELLED arguments from DIFFERENT ORIGINS.

What an invocation `step!(x, y)` expands to is a function of its argument TOKENS, not of their spelling: the renaming pass of
an enclosing macro recognises its own locals by the span of each identifier (MacroModel.ren: org_is).  The same inner macro
is therefore invoked here
  (a) directly by a rule, with call-site variables,
  (b) inside the body of one or two OUTER macros, with a local of the outer macro (and / or its parameters),
so that after the substitution of the outer macro's parameters (a) and (b) — or the (b) of two outer macros, or of two
invocations of one outer macro, or of two levels of outer macros — are spelled alike: `step!(x, y)` at the call site and
`step!($x, y)` in `macro two($x, $z) { step!($x, y), step!(y, $z) }` invoked as `two!(x, w)`.  The identically spelled
invocations stand in one rule (either order, inside a disjunction) or in two rules of the program (either order); the designed
input is a chain WITH BRANCHES (a second root, dead ends, a loop), on which the call-site `y` (a successor of x) and the local `y` (the midpoint) take different
values, and the tie's sensitivity check (`leak`: the hand expansion in which the outer locals keep their spelling) holds.
Any treatment of an invocation by the spelling of its arguments — an expansion cache keyed by the printed tokens, an
interning of argument identifiers, a `first occurrence wins` table — makes an outer macro lose (or wrongly gain) a local.

Oracle: unchanged (python hand expansion through the real macro, Coq hygienic reference, Coq model).  The Coq side of the
class is Macros/MacroMemo.v: expand_prog_memo (the REFUTED expansion that memoises by macro and argument spelling) and the
lemma that the faithful expansion of an invocation depends on the ORIGINS of its argument identifiers."""
import copy

from . import c08_gen as G

par, lid, cid, tv = G.par, G.lid, G.cid, G.tv

# the inner macro m0 ("step"): parameter kinds and body
INNERS = ["expr_expr", "ident_ident", "ident_expr", "with_filter", "own_local_of_that_spelling"]
# the outer macro(s): where the inner invocation that mentions the local stands
OUTERS = ["two_hops", "hop_then_clause", "clause_then_hop", "both_arguments_local", "hop_in_disjunction", "hop_negation_hop",
          "two_levels", "two_levels_twice", "local_inside_expression_argument"]
# where the identically spelled invocations stand
RSHAPES = ["call_site_first_same_rule", "call_site_after_same_rule", "call_site_in_earlier_rule", "call_site_in_later_rule",
           "call_site_in_earlier_rule_variable_reused", "call_site_inside_disjunction", "two_outer_macros_same_rule",
           "two_outer_macros_reversed", "two_outer_macros_across_rules", "same_outer_twice", "call_site_and_two_outer_macros",
           "outer_inside_disjunction_after_call_site", "other_spelling"]
CONTROL_SHAPES = {"other_spelling"}          # no two invocations of the inner macro are spelled alike across origins
# groups of outer kinds whose inner invocations can be made to coincide in spelling with one another
FIRST = ["two_hops", "hop_then_clause", "hop_in_disjunction", "hop_negation_hop", "two_levels", "two_levels_twice"]       # step!($x, v)
SECOND = ["two_hops", "clause_then_hop"]                                                                                  # step!(v, $z)


def _inner(kind, A, K, v):
    P0, P1 = par(0), par(1)
    if kind == "expr_expr":
        return dict(name=0, params=[[0, False], [1, False]], body=[["clause", A, [tv(P0), tv(P1)], []]])
    if kind == "ident_expr":
        return dict(name=0, params=[[0, True], [1, False]], body=[["clause", A, [tv(P0), tv(P1)], []]])
    if kind == "with_filter":
        return dict(name=0, params=[[0, True], [1, True]], body=[["clause", A, [tv(P0), tv(P1)], []], ["clause", K, [tv(P1)], []]])
    if kind == "own_local_of_that_spelling":
        # the inner macro has a local of its own spelled like the outer macro's local (renamed at the inner level)
        return dict(name=0, params=[[0, True], [1, True]],
                    body=[["clause", A, [tv(P0), tv(lid(v, 0))], []], ["clause", A, [tv(P0), tv(P1)], [["if", "le", [P1, lid(v, 0)]]]]])
    return dict(name=0, params=[[0, True], [1, True]], body=[["clause", A, [tv(P0), tv(P1)], []]])


def _outer(kind, k, names, v, s, A, Ao, B, K, macros, swap=False):
    """body of an outer macro named k (an outer macro invokes only macros defined before it; two_levels adds its middle macro
    to `macros` first and returns the index it really gets).  v, s: the spellings of its locals.  swap: the direct clauses of
    the body read the other binary relation (the second outer macro of a program is not a copy of the first)."""
    P0, P1 = par(0), par(1)
    D = Ao if swap else A

    def S(x, y):
        return ["inv", 0, [tv(x), tv(y)]]
    if kind == "two_hops":
        L = lid(v, k)
        return k, [S(P0, L), S(L, P1)]
    if kind == "hop_then_clause":
        L = lid(v, k)
        return k, [S(P0, L), ["clause", D, [tv(L), tv(P1)], []]]
    if kind == "clause_then_hop":
        L = lid(v, k)
        return k, [["clause", D, [tv(P0), tv(L)], []], S(L, P1)]
    if kind == "both_arguments_local":
        L, W = lid(v, k), lid(s, k)
        return k, [["clause", D, [tv(P0), tv(W)], []], S(W, L), ["clause", D, [tv(L), tv(P1)], []]]
    if kind == "hop_in_disjunction":
        L = lid(v, k)
        return k, [["disj", [[S(P0, L)], [["clause", Ao if not swap else A, [tv(P0), tv(L)], []]]]], S(L, P1)]
    if kind == "hop_negation_hop":
        L = lid(v, k)
        return k, [S(P0, L), ["neg", B, [tv(L)]], ["cond", ["if", "ne", [P0, L]]], S(L, P1)]
    if kind in ("two_levels", "two_levels_twice"):
        # the middle macro and the top macro have a local of the SAME spelling: inside one top-level invocation
        # `step!(v, v)` occurs with (middle, top) origins, and for two_levels_twice again with (top, middle') origins
        mid = k
        L1 = lid(v, mid)
        macros.append(dict(name=mid, params=[[0, True], [1, True]], body=[S(P0, L1), S(L1, P1)]))
        top = mid + 1
        L2 = lid(v, top)
        second = ["inv", mid, [tv(L2), tv(P1)]] if kind == "two_levels_twice" else S(L2, P1)
        return top, [["inv", mid, [tv(P0), tv(L2)]], second]
    if kind == "local_inside_expression_argument":
        # the local stands INSIDE an expression argument of the inner invocation (the inner macro's second parameter is `expr`)
        L = lid(v, k)
        return k, [["clause", K, [tv(L)], []], ["inv", 0, [tv(P0), ["f", "incs", [L]]]], ["clause", D, [tv(L), tv(P1)], []]]
    raise ValueError(kind)


def _spelled(macros, m, acts, out):
    """the invocations of macro 0 reached from m!(acts), their arguments AS SPELLED after the substitution of the parameters,
    every identifier re-tagged as a call-site identifier (what a rule has to write to be spelled like them)"""
    d = [x for x in macros if x["name"] == m][-1]
    env = {p: a for (p, _), a in zip(d["params"], acts)}

    def var(x):
        if x[0] == "par":
            a = env[x[1]]
            assert a[0] == "v"
            return a[1]
        return cid(x[1])

    def term(t):
        if t[0] == "v":
            return env[t[1][1]] if t[1][0] == "par" else ["v", cid(t[1][1])]
        if t[0] == "c":
            return t
        return [t[0], t[1], [var(x) for x in t[2]]]

    def walk(items):
        for it in items:
            if it[0] == "disj":
                for alt in it[1]:
                    walk(alt)
            elif it[0] == "inv":
                a2 = [term(t) for t in it[2]]
                if it[1] == 0:
                    out.append(a2)
                else:
                    _spelled(macros, it[1], a2, out)
    walk(d["body"])
    return out


def _key(acts):
    return repr(acts)


def _mentions(acts, names):
    ids = []
    for t in acts:
        ids += [t[1][1]] if t[0] == "v" else [x[1] for x in t[2]] if t[0] in ("f", "x") else []
    return any(n in ids for n in names)


def _vars(acts):
    out = []
    for t in acts:
        for x in ([t[1]] if t[0] == "v" else t[2] if t[0] in ("f", "x") else []):
            if x[1] not in out:
                out.append(x[1])
    return out


def gen_memo_pattern(rng, inner, outer, rshape):
    """-> (program, designed input, leak, facts about the program: dict)"""
    A, Ao = rng.choice([("e0", "e1"), ("e1", "e0")])          # A: the chain with branches; Ao: shortcuts
    B, K = rng.choice([("u0", "u1"), ("u1", "u0")])           # B: a filter (even values); K: every value
    v, s = rng.sample(G.POOL, 2)                              # the spellings of the outer macros' locals
    x, w, c, u = rng.sample([n for n in G.POOL if n not in (v, s)], 4)
    if outer == "local_inside_expression_argument" and inner not in ("expr_expr", "ident_expr"):
        inner = rng.choice(["expr_expr", "ident_expr"])
    macros = [_inner(inner, A, K, v)]
    top, body = _outer(outer, 1, None, v, s, A, Ao, B, K, macros)
    macros.append(dict(name=top, params=[[0, True], [1, True]], body=body))
    leak = [[top, v]] + ([[top - 1, v]] if outer.startswith("two_levels") else []) + ([[top, s]] if outer == "both_arguments_local" else [])

    def T(m, p, q):
        return ["inv", m, [tv(cid(p)), tv(cid(q))]]
    spelled = _spelled(macros, top, [tv(cid(x)), tv(cid(w))], [])
    # the call-site invocation: spelled like a nested invocation that mentions a local of an outer macro
    cands = [a for a in spelled if _mentions(a, (v, s))]
    direct_acts = copy.deepcopy(rng.choice(cands))
    if rshape == "other_spelling":
        def resp(y):
            return cid(u) if y[1] == v else y
        direct_acts = [["v", resp(t[1])] if t[0] == "v" else t if t[0] == "c" else [t[0], t[1], [resp(y) for y in t[2]]] for t in direct_acts]
    direct = ["inv", 0, direct_acts]
    dv = _vars(direct_acts)
    # the call-site variables of the direct invocation that no clause of the rule binds otherwise (an expression argument
    # binds nothing): bind them first
    pre = [["clause", K, [tv(cid(n))], []] for n in dv if not any(t[0] == "v" and t[1][1] == n for t in direct_acts)]
    dhead = ["h", "d2", [tv(cid(dv[0])), tv(cid(dv[1]))]] if len(dv) >= 2 else ["h", "d1", [tv(cid(dv[0]))]]
    main_head = ["h", "d0", [tv(cid(x)), tv(cid(w))]]
    two_outers = rshape in ("two_outer_macros_same_rule", "two_outer_macros_reversed", "two_outer_macros_across_rules", "call_site_and_two_outer_macros")
    alt_kind = None
    if two_outers:
        # a second outer macro whose local has the same spelling, invoked so that one of its inner invocations is spelled like
        # one of the first outer macro's
        if outer in ("both_arguments_local", "local_inside_expression_argument"):
            alt_kind = outer
        else:
            group = [g for g in (FIRST, SECOND) if outer in g]
            alt_kind = rng.choice([k2 for k2 in rng.choice(group) if not k2.startswith("two_levels")])
        atop, abody = _outer(alt_kind, len(macros), None, v, s, A, Ao, B, K, macros, swap=True)
        macros.append(dict(name=atop, params=[[0, True], [1, True]], body=abody))
        leak.append([atop, v])
        if alt_kind == "both_arguments_local":
            leak.append([atop, s])
        keys = {_key(a) for a in cands}
        options = []
        for (p, q) in ((x, c), (c, w), (x, w)):
            sp = [a for a in _spelled(macros, atop, [tv(cid(p)), tv(cid(q))], []) if _mentions(a, (v, s))]
            if any(_key(a) in keys for a in sp):
                options.append((p, q))
        assert options, (outer, alt_kind)
        ap, aq = rng.choice(options)
        alt_inv = T(atop, ap, aq)
        alt_head = ["h", "d2", [tv(cid(ap)), tv(cid(aq))]]
    main = T(top, x, w)
    if rshape in ("call_site_first_same_rule", "other_spelling"):
        rules = [dict(heads=[main_head, dhead], body=pre + [direct, main])]
    elif rshape == "call_site_after_same_rule":
        rules = [dict(heads=[main_head, dhead], body=pre + [main, direct])]
    elif rshape in ("call_site_in_earlier_rule", "call_site_in_later_rule", "call_site_in_earlier_rule_variable_reused"):
        r1 = dict(heads=[dhead], body=pre + [direct])
        b2 = [main]
        if rshape == "call_site_in_earlier_rule_variable_reused":
            # the second rule has a call-site variable spelled like the local, bound by the relation the first rule derives
            b2 = [["clause", dhead[1], dhead[2], []], main]
        r2 = dict(heads=[main_head] + ([["h", "d1", [tv(cid(dv[-1]))]]] if len(b2) == 2 else []), body=b2)
        rules = [r2, r1] if rshape == "call_site_in_later_rule" else [r1, r2]
    elif rshape == "call_site_inside_disjunction":
        if len(dv) >= 2 and all(t[0] == "v" for t in direct_acts):
            dj = ["disj", [[direct], [["clause", Ao, [tv(cid(dv[0])), tv(cid(dv[1]))], []]]]]
        else:
            dj = ["disj", [[direct], [direct]]]
        rules = [dict(heads=[main_head, dhead], body=pre + [dj, main])]
    elif rshape == "outer_inside_disjunction_after_call_site":
        rules = [dict(heads=[main_head, dhead], body=pre + [["clause", K, [tv(cid(x))], []], ["clause", K, [tv(cid(w))], []], direct,
                                                            ["disj", [[main], [["clause", Ao, [tv(cid(x)), tv(cid(w))], []]]]]])]
    elif rshape == "two_outer_macros_same_rule":
        rules = [dict(heads=[main_head, alt_head], body=[main, alt_inv])]
    elif rshape == "two_outer_macros_reversed":
        rules = [dict(heads=[main_head, alt_head], body=[alt_inv, main])]
    elif rshape == "two_outer_macros_across_rules":
        rules = [dict(heads=[main_head], body=[main]), dict(heads=[alt_head], body=[alt_inv])]
        if rng.random() < 0.5:
            rules.reverse()
    elif rshape == "same_outer_twice":
        # two invocations of ONE outer macro whose nested invocations are spelled alike (the same first / second actual)
        second = T(top, x, c) if outer in FIRST or outer in ("both_arguments_local", "local_inside_expression_argument") else T(top, c, w)
        rules = [dict(heads=[main_head, ["h", "d2", second[2]]], body=[main, second])]
        if rng.random() < 0.4:
            rules = [dict(heads=[main_head], body=[main]), dict(heads=[["h", "d2", second[2]]], body=[second])]
    elif rshape == "call_site_and_two_outer_macros":
        order = [direct, main, alt_inv]
        rng.shuffle(order)
        rules = [dict(heads=[main_head, alt_head] + ([["h", "d1", [tv(cid(dv[-1]))]]]), body=pre + order)]
    else:
        raise ValueError(rshape)
    p = dict(rels=copy.deepcopy(G.RELS), macros=macros, rules=rules, head_macros=[])
    # designed input: the chain 0 -> 1 -> .. -> 6 with a second ROOT (7 -> 2), two dead ends (0 -> 8, 2 -> 9) and a loop (3 -> 3): the
    # call-site variable and the outer local of its spelling take different values (a successor that leads nowhere, a predecessor
    # that nothing leads to); Ao: part of the chain and shortcuts; B = the even values, K = every value
    designed = {A: [(k, k + 1) for k in range(6)] + [(7, 2), (0, 8), (2, 9), (3, 3)],
                Ao: [(k, k + 1) for k in range(5)] + [(0, 3), (2, 5), (1, 1), (8, 2)],
                B: [(0,), (2,), (4,), (6,), (8,)], K: [(k,) for k in range(10)], "d0": [], "d1": [], "d2": []}
    info = dict(inner=inner, outer=outer, rule=rshape, second_outer=alt_kind)
    return p, designed, leak, info


def plan(tier, rng):
    """(inner, outer, rule shape) triples of a run.  quick: every outer kind with the README shape of the class (call site
    first, same rule / earlier rule) and with two more rule shapes rotating from a random offset, so that every rule shape
    occurs on every run; inner kinds rotating.  thorough: every (outer, rule shape) pair, two draws"""
    if tier != "quick":
        return [(INNERS[(i + j + r) % len(INNERS)], o, sh) for r in range(2) for i, o in enumerate(OUTERS) for j, sh in enumerate(RSHAPES)]
    off = rng.randrange(len(RSHAPES))
    ioff = rng.randrange(len(INNERS))
    out = []
    for i, o in enumerate(OUTERS):
        out.append((INNERS[(ioff + i) % len(INNERS)], o, RSHAPES[0] if i % 2 == 0 else RSHAPES[2]))
        out.append((INNERS[(ioff + i + 1) % len(INNERS)], o, RSHAPES[(off + 2 * i) % len(RSHAPES)]))
        out.append((INNERS[(ioff + i + 2) % len(INNERS)], o, RSHAPES[(off + 2 * i + 1) % len(RSHAPES)]))
    return out


# ------------------------------------------------------------------ structural feature (of ANY program of the C08 AST)

def equal_spelling_feats(p):
    """features of a program: does it contain two invocations of one macro whose arguments are spelled alike after the
    substitution of the enclosing macros' parameters while an argument identifier differs in ORIGIN (call site / the body of
    macro k / another invocation of macro k), within a rule or across rules"""
    defs = {}
    for d in p["macros"]:
        defs[d["name"]] = d
    feats = set()
    seen = {}          # (macro, spelling of the arguments) -> set of (origins, rule index)
    counter = [0]

    def spell(t):
        if t[0] == "v":
            return ("v", t[1][1])
        if t[0] == "c":
            return ("c", t[1])
        return (t[0], repr(t[1]), tuple(y[1] for y in t[2]))

    def orgs(t):
        if t[0] == "v":
            return (t[1][2],)
        if t[0] == "c":
            return ()
        return tuple(y[2] for y in t[2])

    def walk(items, env, scope, ri, depth):
        if depth > 12:
            return
        for it in items:
            if it[0] == "disj":
                for alt in it[1]:
                    walk(alt, env, scope, ri, depth + 1)
            elif it[0] == "inv":
                acts = []
                ok = True
                for t in it[2]:
                    if t[0] == "v" and t[1][0] == "par":
                        a = env.get(t[1][1])
                        if a is None:
                            ok = False
                            break
                        acts.append(a)
                    elif t[0] == "v":
                        acts.append(["v", ["id", t[1][1], scope]])
                    elif t[0] == "c":
                        acts.append(t)
                    else:
                        ys = []
                        for y in t[2]:
                            if y[0] == "par":
                                a = env.get(y[1])
                                if a is None or a[0] != "v":
                                    ok = False
                                    break
                                ys.append(a[1])
                            else:
                                ys.append(["id", y[1], scope])
                        acts.append([t[0], t[1], ys])
                if not ok or it[1] not in defs:
                    continue
                key = (it[1], tuple(spell(a) for a in acts))
                og = tuple(orgs(a) for a in acts)
                for (og2, ri2) in seen.get(key, ()):
                    if og2 != og:
                        feats.add("equal_spelling_other_origin:" + ("same_rule" if ri2 == ri else "across_rules"))
                        if any((o1 is None) != (o2 is None) for b1, b2 in zip(og, og2) for o1, o2 in zip(b1, b2)):
                            feats.add("equal_spelling_other_origin:call_site_vs_macro_local")
                        else:
                            feats.add("equal_spelling_other_origin:two_macro_bodies_or_invocations")
                seen.setdefault(key, set()).add((og, ri))
                d = defs[it[1]]
                if len(d["params"]) != len(acts):
                    continue
                counter[0] += 1
                walk(d["body"], {q: a for (q, _), a in zip(d["params"], acts)}, (d["name"], counter[0]), ri, depth + 1)
    for ri, r in enumerate(p["rules"]):
        walk(r["body"], {}, None, ri, 0)
    return feats
