"""C19 CONTENTION family: ONE big concurrent fill of one concurrent index value, then freeze and a complete read-out.

Blind spot this family covers: the concurrent phases of the histories in gen/props/c19.py are tiny (1-8 tasks of 0-4 inserts), so two
inserts practically never overlap inside one shard / one per-key vector, no shard table is grown or rehashed while another thread
inserts, and when the (undefined) behaviour of a broken insert path killed the driver the whole batch of ~270 histories was lost
("tie did not run", no failing input).  Anything that is only wrong under real write contention - a push without the shard lock, a
check-then-insert that is not atomic, an insert that gives up on a locked shard - is invisible there.

Here: 10^5-4*10^5 inserts from 4-16 threads into FEW shards / few keys, for every concurrent index type
(CRelIndex, CRelFullIndex, CLatIndex, CRelNoIndex):
  * the inserting threads are plain std threads released together by a barrier (none of them a rayon worker), or the workers of a rayon
    pool that is LARGER than the pool inside which the index value was created (CRelNoIndex sizes itself by the creating pool; the
    DashMap types take 4 x the size of the pool that first asked for `shards_count()`, a process constant: pool of 1 or 2 = 4 / 8 shards);
    control shape: the workers of the creating pool itself (the only shape generated code produces);
  * index_insert of distinct / repeated values under 1, 2, 8 keys (all threads push into the same per-key vectors / sets) or under
    10^4-10^5 keys (shard tables grow and rehash under contention; one shape has all threads walk the same key sequence, so that the
    FIRST insert of every key is raced); insert_if_not_present with ALL threads walking the same key
    sequence (every key is raced by every thread), optionally over serially pre-inserted keys; optionally on top of a serially
    built prefix (a big existing vector: no reallocation during the concurrent fill);
  * one process per case (harness/ds_index, `ds_index p<S> contend ...`, src/contend.rs), one case at a time.

Oracle = the specification, computed here from the case parameters (the driver checks nothing):
  multiset types (CRelIndex, CRelNoIndex): after freeze, lookup and iteration return every inserted value exactly as often as it was inserted;
  set type (CLatIndex): exactly the set of inserted (key, value);
  map type (CRelFullIndex): exactly the inserted keys, one value each, a value inserted under that key; insert_if_not_present returned
      true exactly once per absent key, never for a present key, and the winner's value is the one kept.
A broken insert path under contention is a data race: lost values, OR a crash / abort / hang of the process.  The driver process dying
(signal, abort, non-zero exit, time-out) on a case is therefore reported as a failing input of that case too.

    run(binary, tier, seed) -> dict(mismatches, evaluations, distribution)      (mismatches in the format of gen/runner.py)
    replay(binary, case)    -> the same for ROUNDS_REPLAY runs of one case       (the schedule is not reproducible)
"""
import collections
import signal
import subprocess
import time

from . import lib

FAMILY = "contention"
TYPES = ["cni", "cri", "cfi", "clat"]
TIMEOUT = 60           # seconds per process; a case takes 0.05-2.5 s (load average 33)
ROUNDS_REPLAY = 8
SHARDS = {1: 4, 2: 8}  # pool size that first evaluates shards_count() -> DashMap shards


def describe(c):
    who = ("%d std threads" % c["T"]) if c["mode"] == "std" else ("the %d workers of a rayon pool" % c["T"])
    made = "index created inside a rayon pool of %d" % c["npool"]
    if c["type"] != "cni":
        made += ", %d DashMap shards" % SHARDS[c["spool"]]
    if c["kind"] == "n":
        what = "each calling insert_if_not_present on the same %d keys in the same order, %d calls per thread" % (c["nkeys"], c["m"])
        if c["pre"]:
            what += " (keys 0..%d inserted serially before)" % (c["pre"] - 1)
    else:
        vals = "distinct values" if not c["vdom"] else "values mod %d" % c["vdom"]
        what = "each calling index_insert %d times (%s under %d key%s)" % (c["m"], vals, c["nkeys"], "" if c["nkeys"] == 1 else "s")
        if c["pre"]:
            what += " on top of %d serial inserts" % c["pre"]
    return "%s: %s, %s; %s; then freeze, lookup and iterate" % (c["type"], made, who, what)


def argv(c):
    return ["p%d" % c["spool"], "contend", c["type"], str(c["npool"]), c["mode"], str(c["T"]), str(c["m"]), str(c["nkeys"]),
            c["kind"], str(c["vdom"]), str(c["pre"])]


def case_line(c):
    return "ds_index " + " ".join(argv(c))


# ------------------------------------------------------------------ generation

def mk(t, spool, npool, mode, T, m, nkeys, kind="i", vdom=0, pre=0, shape=""):
    return dict(family=FAMILY, type=t, suite="p%d" % spool, spool=spool, npool=npool, mode=mode, T=T, m=m, nkeys=nkeys, kind=kind,
                vdom=vdom, pre=pre, shape=shape)


def gen_cases(tier, seed):
    rng = lib.rng_for(seed, "C19/contention")
    quick = tier == "quick"
    total = 200000 if quick else 800000

    def tm(T, tot=None):
        return max(1, (tot or total) // T)

    cases = []
    rep = 1 if quick else 3
    for _ in range(rep):
        # ---- CRelNoIndex: shard = current_thread_index().unwrap_or(0) % shards
        for T in rng.sample([4, 8, 16], 2):
            cases.append(mk("cni", 1, rng.choice([1, 2, 3]), "std", T, tm(T), 1, shape="outside threads"))
        T = rng.choice([4, 8, 16])
        cases.append(mk("cni", 1, rng.choice([1, 2, 3]), "ray", T, tm(T), 1, shape="pool larger than the creating pool"))
        T = rng.choice([8, 12, 16])
        cases.append(mk("cni", 1, rng.choice([4, 5, 6]), "ray", T, tm(T), 1, shape="pool larger than the creating pool"))
        T = rng.choice([2, 4, 8])
        cases.append(mk("cni", 1, T, "ray", T, tm(T), 1, shape="creating pool (control)"))
        # on top of a big serially built vector: no reallocation during the concurrent fill
        T = rng.choice([4, 8])
        cases.append(mk("cni", 1, 1, "std", T, tm(T, 60000), 1, pre=70000 + rng.randrange(1000), shape="outside threads, big prefix"))
        T = rng.choice([4, 8])
        cases.append(mk("cni", 1, 2, "ray", T, tm(T, 60000), 1, pre=70000 + rng.randrange(1000), shape="pool larger than the creating pool, big prefix"))
        # ---- CRelIndex: DashMap<K, Vec<V>>
        for nkeys in (1, rng.choice([2, 3, 8]), rng.choice([5000, 40000])):
            T = rng.choice([4, 8, 16])
            mode = rng.choice(["std", "ray"])
            cases.append(mk("cri", rng.choice([1, 2]), rng.choice([1, 2]), mode, T, tm(T), nkeys, vdom=rng.choice([0, 0, 1000]),
                            pre=rng.choice([0, 0, 5000]), shape="few keys" if nkeys <= 8 else "many keys"))
        # every thread walks the SAME key sequence (nkeys = m: item j of every thread has key j): the first insert of every key is raced
        T = rng.choice([4, 8, 16])
        cases.append(mk("cri", rng.choice([1, 2]), 1, rng.choice(["std", "ray"]), T, tm(T), tm(T), shape="many keys, first insert of every key raced"))
        T = rng.choice([4, 8, 16])
        cases.append(mk("clat", rng.choice([1, 2]), 1, rng.choice(["std", "ray"]), T, tm(T), tm(T), shape="many keys, first insert of every key raced"))
        # ---- CLatIndex: DashMap<K, HashSet<V>>
        for nkeys, vdom in ((rng.choice([1, 2, 4]), 0), (rng.choice([2, 8]), rng.choice([64, 4096])), (rng.choice([5000, 40000]), 0)):
            T = rng.choice([4, 8, 16])
            mode = rng.choice(["std", "ray"])
            cases.append(mk("clat", rng.choice([1, 2]), rng.choice([1, 2]), mode, T, tm(T), nkeys, vdom=vdom,
                            pre=rng.choice([0, 0, 5000]), shape="few keys" if nkeys <= 8 else "many keys"))
        # ---- CRelFullIndex: DashMap<K, V>
        T = rng.choice([4, 8, 16])
        m = tm(T)
        cases.append(mk("cfi", rng.choice([1, 2]), 1, rng.choice(["std", "ray"]), T, m, m, kind="n", shape="every key raced by every thread"))
        T = rng.choice([4, 8, 16])
        m = tm(T)
        cases.append(mk("cfi", rng.choice([1, 2]), 1, rng.choice(["std", "ray"]), T, m, m, kind="n", pre=rng.choice([100, 3000]),
                        shape="every key raced by every thread, some present"))
        T = rng.choice([8, 16])
        cases.append(mk("cfi", 1, 1, "std", T, tm(T), rng.choice([8, 64, 1000]), kind="n", shape="few keys raced repeatedly"))
        T = rng.choice([4, 8, 16])
        cases.append(mk("cfi", rng.choice([1, 2]), 1, rng.choice(["std", "ray"]), T, tm(T), T * tm(T), kind="i", shape="index_insert, distinct keys"))
        T = rng.choice([4, 8, 16])
        cases.append(mk("cfi", rng.choice([1, 2]), 1, rng.choice(["std", "ray"]), T, tm(T), rng.choice([16, 5000]), kind="i", shape="index_insert, overwriting"))
    return cases


# ------------------------------------------------------------------ running

def run_case(binary, c):
    """one process; a time-out or a SIGKILL (the kernel's OOM killer; never raised by the code under test) may be the loaded machine's
    doing, not the code's: the case is run once more and only the second outcome counts (a hang has to reproduce); crashes by any
    other signal count at once (a data race does not reproduce on demand)"""
    res = run_case_once(binary, c)
    if res["timeout"] or res["rc"] == -signal.SIGKILL:
        first = "time-out" if res["timeout"] else "SIGKILL"
        res = run_case_once(binary, c)
        res["retried_after"] = first
        if res["rc"] == -signal.SIGKILL:
            raise lib.Infra("contention driver killed by SIGKILL twice (out of memory?): %s" % case_line(c))
    return res


def run_case_once(binary, c):
    t0 = time.time()
    try:
        p = subprocess.run([binary] + argv(c), stdout=subprocess.PIPE, stderr=subprocess.PIPE, text=True, timeout=TIMEOUT)
        rc, out, err, to = p.returncode, p.stdout, p.stderr, False
    except subprocess.TimeoutExpired as e:
        rc, out, err, to = None, "", (e.stderr or b"").decode("utf-8", "replace") if isinstance(e.stderr, bytes) else (e.stderr or ""), True
    return dict(rc=rc, out=out, err=err[-400:], timeout=to, wall=time.time() - t0)


def parse_vals(s):
    s = s.strip()
    return [] if s in ("-", "") else [int(x) for x in s.split(",")]


def parse_out(out):
    """-> dict(w=[x..], n=int, b=bool, g=[None | [v..] ..], it={k: [v..]}, end=None|'panic'|'unsup') or raises Infra"""
    r = dict(w=None, n=None, b=None, g=[], it=None, end=None)
    for line in out.splitlines():
        h, _, rest = line.partition(" ")
        if line in ("panic", "unsup"):
            r["end"] = line
        elif h == "w":
            r["w"] = parse_vals(rest)
        elif h == "n":
            r["n"] = int(rest)
        elif h == "b":
            r["b"] = rest.strip() == "1"
        elif h == "g":
            r["g"].append(None if rest.strip() == "none" else parse_vals(rest))
        elif h == "it":
            it = collections.defaultdict(list)
            for e in rest.split("|") if rest.strip() else []:
                k, _, vs = e.partition("=")
                it[int(k)] += parse_vals(vs)      # CRelNoIndex: one entry per shard-chain, same key
            r["it"] = dict(it)
        else:
            raise lib.Infra("contention driver: unparsable line %r" % line[:200])
    return r


# ------------------------------------------------------------------ specification

def val(c, x):
    return x % c["vdom"] if c["vdom"] else x


def diff_multiset(got, exp, label):
    g, e = collections.Counter(got), collections.Counter(exp)
    if g == e:
        return None
    miss, extra = e - g, g - e
    nm, nx = sum(miss.values()), sum(extra.values())
    s = "%s returned %d values for %d inserted" % (label, len(got), len(exp))
    if nm:
        s += ": %d lost (e.g. %s)" % (nm, sorted(miss)[:4])
    if nx:
        s += ": %d never inserted / duplicated (e.g. %s)" % (nx, sorted(extra)[:4])
    return s


def check(c, res):
    """reason (str) why the run violates the specification, or None"""
    if res["timeout"]:
        return "the process did not finish within %d s, twice (hang)" % TIMEOUT
    rc = res["rc"]
    if rc != 0:
        if rc < 0:
            try:
                nm = signal.Signals(-rc).name
            except ValueError:
                nm = "signal %d" % -rc
            return "the process was killed by %s during the concurrent fill / read-out (stderr: %s)" % (nm, res["err"].strip()[-160:] or "-")
        if rc == 2:
            raise lib.Infra("contention driver rejected its arguments: %s: %s" % (case_line(c), res["err"]))
        return "the process exited with status %d (stderr: %s)" % (rc, res["err"].strip()[-160:] or "-")
    r = parse_out(res["out"])
    if r["end"]:
        return "%s inside the freeze protocol (insert into unfrozen / read of frozen index; `panic` includes a c_index_get / c_iter_all answer that differs from index_get / iter_all)" % r["end"]
    if r["it"] is None or r["w"] is None:
        raise lib.Infra("contention driver: incomplete output for %s" % case_line(c))
    t, T, m, nk, pre = c["type"], c["T"], c["m"], c["nkeys"], c["pre"]
    N = T * m
    probes = list(range(0, min(nk, 8) + 1))
    if len(r["g"]) != len(probes):
        raise lib.Infra("contention driver: %d lookups for %d probes" % (len(r["g"]), len(probes)))
    it = r["it"]
    if c["kind"] == "i":
        xs = range(N + pre)
        if r["w"]:
            return "index_insert phase reported insert_if_not_present winners %r" % r["w"][:5]
        if t == "cni":
            exp = [val(c, x) for x in xs]
            got = [v for vs in it.values() for v in vs]
            d = diff_multiset(got, exp, "iteration after freeze")
            if d:
                return d
            if r["g"][0] is None:
                return "lookup returned None"
            return diff_multiset(r["g"][0], exp, "lookup after freeze")
        if t == "cri":
            exp = collections.Counter((x % nk, val(c, x)) for x in xs)
            got = collections.Counter((k, v) for k, vs in it.items() for v in vs)
            if got != exp:
                return diff_multiset(list(got.elements()), list(exp.elements()), "iteration after freeze")
            keys = set(k for k, _ in exp)
            for k, g in zip(probes, r["g"]):
                e = sorted(v for (kk, v), n in exp.items() if kk == k for _ in range(n)) if nk <= 8 or k in keys else []
                if k not in keys:
                    if g is not None:
                        return "lookup of absent key %d returned %d values" % (k, len(g))
                elif g is None or sorted(g) != e:
                    return diff_multiset(g or [], e, "lookup of key %d" % k)
            if r["b"] != (len(keys) == 0):
                return "is_empty %r with %d keys" % (r["b"], len(keys))
            return None
        if t == "clat":
            exp = set((x % nk, val(c, x)) for x in xs)
            gl = [(k, v) for k, vs in it.items() for v in vs]
            if len(gl) != len(set(gl)) or set(gl) != exp:
                return diff_multiset(gl, list(exp), "iteration after freeze")
            keys = set(k for k, _ in exp)
            for k, g in zip(probes, r["g"]):
                e = sorted(v for (kk, v) in exp if kk == k)
                if k not in keys:
                    if g is not None:
                        return "lookup of absent key %d returned %d values" % (k, len(g))
                elif g is None or sorted(g) != e:
                    return diff_multiset(g or [], e, "lookup of key %d" % k)
            if r["n"] != len(keys):
                return "len_estimate %d, distinct keys %d" % (r["n"], len(keys))
            if r["b"] != (len(keys) == 0):
                return "is_empty %r with %d keys" % (r["b"], len(keys))
            return None
        # cfi, index_insert: one value per key, one of those inserted under it
        adm = collections.defaultdict(set)
        for x in xs:
            adm[x % nk].add(val(c, x))
        if set(it) != set(adm):
            return diff_multiset(sorted(it), sorted(adm), "iteration after freeze (keys)")
        for k, vs in it.items():
            if len(vs) != 1 or vs[0] not in adm[k]:
                return "key %d holds %r, inserted under it: %s" % (k, vs[:4], sorted(adm[k])[:6])
        for k, g in zip(probes, r["g"]):
            if k not in adm:
                if g is not None:
                    return "lookup of absent key %d returned %r" % (k, g[:4])
            elif g is None or g != it[k]:
                return "lookup of key %d returned %r, iteration %r" % (k, g, it[k])
        if r["n"] != len(adm):
            return "len_estimate %d, distinct keys %d" % (r["n"], len(adm))
        if r["b"] != (len(adm) == 0):
            return "is_empty %r with %d keys" % (r["b"], len(adm))
        return None
    # ---- insert_if_not_present (cfi): thread ti, call j: key j mod nk, value ti*m + j
    if t != "cfi":
        raise lib.Infra("insert_if_not_present on %s" % t)
    tried = set(j % nk for j in range(m)) if m < nk else set(range(nk))
    prek = set(range(pre))
    wins = collections.defaultdict(list)
    for x in r["w"]:
        if not (0 <= x < N):
            return "winner number %d was never issued" % x
        wins[(x % m) % nk].append(x)
    for k in sorted(tried | prek):
        w = wins.get(k, [])
        if k in prek:
            if w:
                return "insert_if_not_present returned true for key %d that was present before the phase (%d winners)" % (k, len(w))
        elif len(w) != 1:
            return "insert_if_not_present racing on absent key %d: %d winners (%s), expected exactly one" % (k, len(w), w[:4])
    if set(wins) - tried:
        return "winners for keys never tried: %s" % sorted(set(wins) - tried)[:4]
    if set(it) != (tried | prek):
        return diff_multiset(sorted(it), sorted(tried | prek), "iteration after freeze (keys)")
    for k, vs in it.items():
        e = -1 - k if k in prek else wins[k][0]
        # the winner's first winning call need not be the first call on that key of that thread: any call of the winner thread on k
        if len(vs) != 1:
            return "key %d holds %d values" % (k, len(vs))
        if vs[0] != e:
            return "key %d holds %d, the call that returned true inserted %d" % (k, vs[0], e)
    for k, g in zip(probes, r["g"]):
        if k not in it:
            if g is not None:
                return "lookup of absent key %d returned %r" % (k, g[:4])
        elif g is None or g != it[k]:
            return "lookup of key %d returned %r, iteration %r" % (k, g, it[k])
    if r["n"] != len(it):
        return "len_estimate %d, distinct keys %d" % (r["n"], len(it))
    return None


def winner_threads(c, res):
    if c["kind"] != "n" or res["rc"] != 0:
        return None
    w = parse_out(res["out"])["w"] or []
    return len(set(x // c["m"] for x in w))


# ------------------------------------------------------------------ entry points

def mismatch(c, res, reason, rounds=None):
    impl = dict(rc=res["rc"], timeout=res["timeout"], stderr=res["err"], stdout_head=res["out"][:300], wall=round(res["wall"], 2))
    if rounds:
        impl["rounds"] = rounds
    return dict(case=c, impl=impl, model=None, spec=reason, kind="impl_violates_spec", known=None,
                what="index type %s under contention: %s  [case: %s; run: %s]" % (c["type"], reason, describe(c), case_line(c)))


def run(binary, tier, seed):
    cases = gen_cases(tier, seed)
    mism = []
    dist = collections.Counter()
    walls = []
    inserts = 0
    multi_winner = 0
    samples = []
    for c in cases:
        res = run_case(binary, c)
        walls.append(res["wall"])
        if res.get("retried_after"):
            dist["retried after " + res["retried_after"]] += 1
        dist["%s/%s/%s" % (c["type"], c["mode"], c["shape"])] += 1
        inserts += c["T"] * c["m"] + c["pre"]
        reason = check(c, res)
        if reason:
            mism.append(mismatch(c, res, reason))
        wt = winner_threads(c, res)
        if wt and wt > 1:
            multi_winner += 1
        if len(samples) < 4 and not reason:
            samples.append(dict(case=case_line(c), impl="rc=0; " + res["out"][:160].replace("\n", " ; "), model="(not modelled at this size: specification only)"))
    return dict(mismatches=mism, evaluations=len(cases), cases=cases, samples=samples,
                distribution=dict(by_shape=dict(dist), total_inserts=inserts, wall_s=round(sum(walls), 1), max_case_wall_s=round(max(walls or [0]), 2),
                                  np_cases_with_several_winner_threads=multi_winner))


def replay(binary, c):
    mism = []
    rounds = []
    first = None
    for _ in range(ROUNDS_REPLAY):
        res = run_case(binary, c)
        reason = check(c, res)
        rounds.append(reason or "ok")
        if reason and first is None:
            first = (res, reason)
    if first:
        mism.append(mismatch(c, first[0], first[1] + "  (%d of %d rounds failed)" % (sum(1 for r in rounds if r != "ok"), len(rounds)), rounds))
    return dict(mismatches=mism, evaluations=len(rounds), cases=[c], samples=[], distribution=dict(rounds=rounds))
