"""python3 -m gen.seed_recheck <seed-name> [tier] — apply a stored seeded change (seeded/<name>/patch.diff) to a scratch worktree of
/repo under /tmp, run the property's check against it (VERIF_REPO), record the outcome in seeded/<name>/meta.json, remove the worktree."""
import json
import os
import subprocess
import sys
import time

from . import lib


def main():
    name = sys.argv[1]
    tier = sys.argv[2] if len(sys.argv) > 2 else "quick"
    d = os.path.join(lib.VERIF, "seeded", name)
    meta = json.load(open(os.path.join(d, "meta.json")))
    prop = meta["property"]
    wt = "/tmp/recheck_%s" % name
    subprocess.run("git -C /repo worktree remove --force %s 2>/dev/null; git -C /repo worktree add -f %s HEAD && git -C %s apply %s/patch.diff && cp /repo/Cargo.lock %s/Cargo.lock" % (wt, wt, wt, d, wt),
                   shell=True, check=True, stdout=subprocess.DEVNULL, stderr=subprocess.STDOUT)
    try:
        t0 = time.time()
        env = dict(os.environ, VERIF_REPO=wt)
        p = subprocess.run(["./check", prop, tier], cwd=lib.VERIF, env=env, stdout=subprocess.PIPE, stderr=subprocess.STDOUT, text=True, timeout=6000)
        viol = [l for l in p.stdout.splitlines() if l.startswith("VIOLATION")]
        meta["check"] = dict(cmd="VERIF_REPO=%s ./check %s %s" % (wt, prop, tier), rc=p.returncode, violation_lines=viol,
                             wall_s=round(time.time() - t0, 1), tail=p.stdout[-500:], rechecked_at=time.strftime("%Y-%m-%d %H:%M:%S"),
                             repo_head=subprocess.run("git -C /repo rev-parse --short HEAD", shell=True, stdout=subprocess.PIPE, text=True).stdout.strip())
        meta["caught"] = bool(viol)
        meta["caught_with_failing_input"] = bool(viol and "no-failing-input-found" not in viol[0])
        json.dump(meta, open(os.path.join(d, "meta.json"), "w"), indent=1)
        print(name, "rc=%d" % p.returncode, viol)
    finally:
        subprocess.run("git -C /repo worktree remove --force %s" % wt, shell=True)


if __name__ == "__main__":
    main()
