"""Tie of the PLANNER model coq/Plan/PlanModel.v `compile_model` to the plan the macro computes.

For every program: the FRONT dump (gen/prog.py front_run: desugared HIR rules + MIR plan) is translated to a core program
(gen/dl.py parse_hir_rule) and its SCC partition (the distinct `hir` rule indices of each dumped SCC, in order); both are fed
to `compile_model` inside Coq (vm_compute) and the resulting plan is compared structurally with the DUMPED plan:
per SCC the variants as a multiset of (rule, version vector + index columns per body item, simple-join start, reorderable),
the set of dynamic relations, the looping flag.  A difference is a mismatch kind='model_differs' (correspondence broken).

    check(records, dumps) -> list of mismatches          records = [(id, macro kind, program text)], dumps = front_run(records)
    check_cases(cases, macro) -> list of mismatches      cases = [dict(id, prog=<dl AST>)] (what engine_tie.run takes); runs front_run itself
    run(tier, seed)        -> dict(evaluations=..., mismatches=[...], ...)
    python3 -m gen.plan_model quick|thorough [seed]
"""
import json
import os
import sys
import time

from . import c07_gen, dl, gen_dl, lib, prog

PRELUDE = ("From Coq Require Import List ZArith Bool.\n"
           "From AV Require Import Engine.Core Engine.Eval Engine.Validate.\n"
           "From AV Require Import Plan.PlanModel Plan.PlanShow Plan.PlanWf.\n"
           "Import ListNotations.\nOpen Scope Z_scope.\n")
CORPUS = os.path.join(lib.VERIF, "corpus", "PLAN.jsonl")
VER = {"total": 0, "delta": 1, "total+delta": 2}
WHAT = "correspondence Plan/PlanModel.v compile_model vs ascent_hir.rs / ascent_mir.rs (the plan dumped by the macro)"


class Untranslatable(Exception):
    """the dumped program is outside the core vocabulary of gen/dl.py, or a dumped item has no 1-1 core image"""


def partition_of(dump):
    """[[hir rule index..]..]: the rules of every dumped SCC, in the order their variants appear"""
    out = []
    for sc in dump["sccs"]:
        js = []
        for v in sc["variants"]:
            if v["hir"] < 0:
                raise Untranslatable("variant without source rule")
            if v["hir"] not in js:
                js.append(v["hir"])
        out.append(js)
    return out


def core_of(dump):
    """(core rules with src maps, Names of relations, arities text)"""
    R = dl.Names()
    for rel in dump["relations"]:
        R(rel["name"])
    try:
        rules = [dl.parse_hir_rule(hr) for hr in dump["hir_rules"]]
    except (dl.ParseError, KeyError, IndexError, ValueError) as e:
        raise Untranslatable(repr(e))
    for hr, r in zip(dump["hir_rules"], rules):
        # one dumped `if` (a desugared equality with an expression) becomes let + if in the core language: the planner asks
        # "does the first clause carry a let / if let", which the translation would answer differently
        for it in hr["body"]:
            if it["t"] == "clause":
                n = sum(len(dl.parse_cond(c, dl.Fresh())) for c in it["conds"])
                if n != len(it["conds"]):
                    raise Untranslatable("a clause condition has no 1-1 core image")
        if len(r["src"]) != len(hr["body"]):
            raise Untranslatable("a body condition has no 1-1 core image")
    return rules, R


def expected_summary(dump, rules, R):
    """the dumped plan in the shape of Plan/PlanShow.v show_plan"""
    out = []
    for sc in dump["sccs"]:
        vs = []
        for v in sc["variants"]:
            rule = rules[v["hir"]]
            items = []
            for it, di in zip(rule["body"], rule["src"]):
                d = v["items"][di]
                if it[0] == "clause":
                    items.append((0, R(d["rel"]), list(d["idx"]), VER[d["ver"]]))
                elif it[0] == "cond":
                    items.append((1, 0, [], 0))
                elif it[0] == "gen":
                    items.append((2, 0, [], 0))
                elif it[0] == "agg":
                    items.append((3, R(d["rel"]), list(d["idx"]), 0))
                else:
                    raise Untranslatable(it[0])
            sj = 0 if v["sj"] is None else v["sj"] + 1
            vs.append((v["hir"], sj, bool(v["reord"]), items))
        out.append((sorted(vs, key=repr), sorted(R(x) for x in sc["dynamic"]), bool(sc["looping"])))
    return out


def model_summary(val):
    out = []
    for vs, dyn, loop in val:
        out.append((sorted([(j, sj, ro, [tuple(i) for i in items]) for (j, sj, ro, items) in vs], key=repr), sorted(dyn), loop))
    return out


def model_expr(dump, rules, R):
    hir_prog = dl.coq_list(dl.coq_rule(dict(heads=r["heads"], body=r["body"]), R) for r in rules)
    arities = dl.coq_list("(%s, %s)" % (dl.cnat(R(rel["name"])), dl.cnat(rel["arity"])) for rel in dump["relations"])
    sccs = dl.coq_list(dl.cnats(js) for js in partition_of(dump))
    rels = dl.coq_list("(%s, %s, %s)" % (dl.cnat(R(rel["name"])), dl.cnat(rel["arity"]), "true" if rel["lattice"] else "false") for rel in dump["relations"])
    return "(show_plan (compile_model %s %s %s), compile_error %s %s, wf_core %s %s, sccs_ok %s %s, program_indices std_free_ident %s %s)" % (
        arities, hir_prog, sccs, hir_prog, sccs, arities, hir_prog, hir_prog, sccs, rels, hir_prog)


def features(dump):
    f = set()
    for sc in dump["sccs"]:
        if sc["looping"]:
            f.add("looping")
        per = {}
        for v in sc["variants"]:
            per[v["hir"]] = per.get(v["hir"], 0) + 1
            if v["sj"] is not None:
                f.add("simple_join" + ("" if v["sj"] == 0 else "_late"))
                f.add("reorderable" if v["reord"] else "not_reorderable")
            for it in v["items"]:
                if it["t"] == "agg":
                    f.add("agg")
                if it["t"] == "clause" and it["idx"]:
                    f.add("indexed")
        for n in per.values():
            if n >= 2:
                f.add("variants%d" % min(n, 4))
    return f


def check(records, dumps, stats=None, tag="plan"):
    """records: [(id, kind, text)]; dumps: {id: front dump}.  Returns mismatches (gen/runner.py format)."""
    stats = stats if stats is not None else {}
    todo, exprs = [], []
    for rec in records:
        rid, kind, text = (rec["id"], rec.get("kind", "ascent"), rec["text"]) if isinstance(rec, dict) else rec
        d = dumps.get(rid)
        if d is None or d.get("status") != "ok" or "sccs" not in d:
            stats["not_compiled"] = stats.get("not_compiled", 0) + 1
            continue
        try:
            rules, R = core_of(d)
            exp = expected_summary(d, rules, R)
            ex = model_expr(d, rules, R)
        except Untranslatable as e:
            stats["untranslatable"] = stats.get("untranslatable", 0) + 1
            stats.setdefault("untranslatable_samples", []).append(str(e)[:120])
            continue
        todo.append((rid, kind, text, d, exp))
        exprs.append(ex)
    vals = lib.coq_eval(tag, PRELUDE, exprs, per_shard=max(8, (len(exprs) + lib.NCPU - 1) // lib.NCPU))
    mism = []
    feats = {}
    distinct = set()
    for (rid, kind, text, d, exp), val in zip(todo, vals):
        got = model_summary(val[0])
        stats["evaluations"] = stats.get("evaluations", 0) + 1
        fs = features(d)
        for x in fs:
            feats[x] = feats.get(x, 0) + 1
        if fs & {"simple_join", "simple_join_late", "looping", "agg", "indexed"}:
            distinct.add(json.dumps(exp, default=str))
        diffs = []
        if val[1] is not False:
            diffs.append("compile_error = %s on a program the macro compiles" % val[1])
        # the hypotheses of Plan/PlanProofs.v compile_model_valid, evaluated on the real desugared program and the real partition
        if val[2] is not True:
            diffs.append("wf_core = %s on the desugared rules of a program the macro compiles (theorem compile_model_valid does not apply)" % val[2])
        else:
            stats["wf_core_holds"] = stats.get("wf_core_holds", 0) + 1
        if val[3] is not True:
            diffs.append("sccs_ok = %s on the SCC partition computed by the macro (petgraph condensation)" % val[3])
        else:
            stats["sccs_ok_holds"] = stats.get("sccs_ok_holds", 0) + 1
        if len(got) != len(exp):
            diffs.append("number of SCCs: model %d, macro %d" % (len(got), len(exp)))
        for k, (g, e) in enumerate(zip(got, exp)):
            if g[0] != e[0]:
                only_m = [v for v in g[0] if v not in e[0]]
                only_i = [v for v in e[0] if v not in g[0]]
                diffs.append("scc %d variants: only in model %s; only in macro %s" % (k, only_m[:3], only_i[:3]))
            if g[1] != e[1]:
                diffs.append("scc %d dynamic relations: model %s, macro %s" % (k, g[1], e[1]))
            if g[2] != e[2]:
                diffs.append("scc %d is_looping: model %s, macro %s" % (k, g[2], e[2]))
        # the index sets of the relations (relations_ir_relations: full index, lattice key index, indices read by the rules)
        R = dl.Names()
        for rel in d["relations"]:
            R(rel["name"])
        want = {R(rel["name"]): sorted(set(tuple(ix) for ix in rel["indices"])) for rel in d["relations"]}
        have = {}
        for q, ix in val[4]:
            have.setdefault(q, set()).add(tuple(ix))
        have = {q: sorted(v) for q, v in have.items()}
        if have != want:
            bad = [q for q in sorted(set(want) | set(have)) if want.get(q) != have.get(q)]
            diffs.append("indices of relation(s) %s: model %s, macro %s" % (bad[:3], [have.get(q) for q in bad[:3]], [want.get(q) for q in bad[:3]]))
        if diffs:
            mism.append(dict(case=dict(id=rid, kind=kind, program=text, summary=d.get("summary")), impl=exp, model=got, spec=None,
                             kind="model_differs", known=None, what=WHAT + ": " + "; ".join(diffs)[:600]))
    stats["features"] = {k: feats.get(k, 0) + stats.get("features", {}).get(k, 0) for k in set(feats) | set(stats.get("features", {}))}
    stats.setdefault("_distinct", set()).update(distinct)
    return mism


def check_cases(cases, macro="ascent", tag="plan", stats=None):
    """convenience for the engine ties (gen/props/c01.py, c06.py ...): cases = [dict(id=..., prog=<gen/dl.py AST>)] as handed to
    engine_tie.run; renders the programs, runs the FRONT hook once and compares the planner model with the dumped plans.
    Returns the list of mismatches (kind='model_differs'), to be appended to the tie's own list."""
    records = [(c["id"], macro, dl.rust_program_text(c["prog"])) for c in cases]
    return check(records, prog.front_run(records), stats=stats, tag=tag)


# ------------------------------------------------------------------ cases

def load_corpus():
    out = []
    if os.path.exists(CORPUS):
        for line in open(CORPUS):
            line = line.strip()
            if line:
                o = json.loads(line)
                out.append(("corpus_" + o["id"], o.get("kind", "ascent"), o["text"]))
    return out


def gen_shape_program(rng):
    """programs aimed at the planner's decision points: binders / generators / aggregates before the first clause, conditions
    (if / let / if let) attached to the first and the second clause, constants and already-bound variables in either of them,
    conditions of the second clause that mention foreign variables, up to four clauses on relations of the rule's own SCC"""
    rels = [("a", 1, "rel"), ("b", 2, "rel"), ("c", 2, "rel"), ("d", 3, "rel"), ("e", 1, "rel")]
    lower = [("lo", 2, "rel")]
    rules = []
    for _ in range(rng.choice([1, 2, 2, 3, 4])):
        nv = [0]

        def fresh():
            nv[0] += 1
            return "v%d" % nv[0]
        bound, body = [], []
        for _ in range(rng.choice([0, 0, 0, 1, 1, 2])):
            x = fresh()
            u = rng.random()
            if u < 0.4:
                body.append(("cond", ("letc", x, rng.choice(gen_dl.DOM))))
            elif u < 0.7:
                body.append(("gen", x, "range3", []))
            elif u < 0.85 and bound:
                body.append(("cond", ("let", x, "incs", [rng.choice(bound)])))
            else:
                body.append(("agg", x, rng.choice(["min", "max", "sum"]), ["q"], "lo", [("b", "q"), ("w",)]))
            bound.append(x)

        def clause(p_bound, p_const, p_rep, p_cond, foreign):
            name, arity, _ = rng.choice(rels)
            args, own = [], []
            for _ in range(arity):
                u = rng.random()
                if u < p_bound and bound:
                    args.append(("v", rng.choice(bound)))
                elif u < p_bound + p_const:
                    args.append(("c", rng.choice(gen_dl.DOM)))
                elif u < p_bound + p_const + p_rep and own:
                    args.append(("v", rng.choice(own)))
                else:
                    x = fresh()
                    args.append(("v", x))
                    own.append(x)
            own_all = own + [t[1] for t in args if t[0] == "v" and t[1] not in own]
            conds = []
            if rng.random() < p_cond and (own_all or bound):
                pool = (own_all or bound) if not (foreign and bound and rng.random() < 0.5) else bound
                u = rng.random()
                if u < 0.45:
                    conds.append(("if", "le", [rng.choice(pool), rng.choice(pool)]))
                elif u < 0.75:
                    x = fresh()
                    conds.append(("let", x, "incs", [rng.choice(pool)]))
                    own.append(x)
                else:
                    x = fresh()
                    conds.append(("iflet", x, "predpos", [rng.choice(pool)]))
                    own.append(x)
                if rng.random() < 0.3:
                    conds.append(("if", "ne", [rng.choice(pool + own), rng.choice(pool + own)]))
            for x in own:
                if x not in bound:
                    bound.append(x)
            return ("clause", name, args, conds)
        body.append(clause(0.12, 0.08, 0.06, 0.35, False))
        if rng.random() < 0.9:
            body.append(clause(0.45, 0.08, 0.08, 0.35, True))
        for _ in range(rng.choice([0, 0, 1, 1, 2])):
            if rng.random() < 0.2 and bound:
                body.append(("cond", ("if", "lt", [rng.choice(bound), rng.choice(bound)])))
            else:
                body.append(clause(0.5, 0.1, 0.05, 0.2, True))
        heads = []
        for _ in range(rng.choice([1, 1, 1, 2])):
            name, arity, _ = rng.choice(rels)
            heads.append((name, [("v", rng.choice(bound)) if bound and rng.random() < 0.85 else ("c", rng.choice(gen_dl.DOM)) for _ in range(arity)]))
        rules.append(dict(heads=heads, body=body))
    return dict(rels=rels + lower, rules=rules)


def gen_records(tier, seed):
    rng = lib.rng_for(seed, "PLAN")
    n = 360 if tier == "quick" else 3000
    recs = []
    dist = {}
    for k in range(n):
        u = k % 10
        if u < 4:
            fam, p = "gen_dl.gen_program", gen_dl.gen_program(rng)
            text = dl.rust_program_text(p)
        elif u < 6:
            fam, p = "gen_dl.gen_strat_program", gen_dl.gen_strat_program(rng)
            text = dl.rust_program_text(p)
        elif u < 7:
            fam, p = "gen_dl.gen_program+join_repeat", gen_dl.gen_program(rng)
            c07_gen.add_join_repeat(rng, p)
            text = dl.rust_program_text(p)
        elif u < 9:
            fam, p = "plan_model.gen_shape_program", gen_shape_program(rng)
            text = dl.rust_program_text(p)
        else:
            fam, p = "c07_gen.gen_program", c07_gen.gen_program(rng)
            text = c07_gen.program_text(p)
        dist[fam] = dist.get(fam, 0) + 1
        kind = "ascent_par" if k % 12 == 5 else "ascent"      # the planner is shared by the parallel macro
        dist[kind] = dist.get(kind, 0) + 1
        recs.append(("plan_%d" % k, kind, text))
    return recs, dist


def run(tier="quick", seed=1, records=None):
    t0 = time.time()
    dist = {}
    if records is None:
        records, dist = gen_records(tier, seed)
        records = load_corpus() + records
    stats = {}
    mism = []
    chunk = 1000
    t_front = t_coq = 0.0
    for i in range(0, len(records), chunk):
        part = records[i:i + chunk]
        t1 = time.time()
        dumps = prog.front_run(part)
        t2 = time.time()
        mism += check(part, dumps, stats)
        t_front += t2 - t1
        t_coq += time.time() - t2
    distinct = stats.pop("_distinct", set())
    return dict(programs=len(records), evaluations=stats.get("evaluations", 0), distinct_nontrivial=len(distinct),
                rule="distinct dumped plans that contain a simple join, a looping SCC, an aggregate or an indexed clause",
                wf_core_holds=stats.get("wf_core_holds", 0), sccs_ok_holds=stats.get("sccs_ok_holds", 0),
                not_compiled=stats.get("not_compiled", 0), untranslatable=stats.get("untranslatable", 0),
                untranslatable_samples=stats.get("untranslatable_samples", [])[:5], features=stats.get("features", {}),
                distribution=dist, mismatches=mism, wall=time.time() - t0, wall_front=t_front, wall_coq=t_coq)


if __name__ == "__main__":
    tier = sys.argv[1] if len(sys.argv) > 1 else "quick"
    seed = int(sys.argv[2]) if len(sys.argv) > 2 else 1
    b = lib.sh(["python3", "-m", "gen.mk", "Plan/PlanShow.vo"], cwd=lib.VERIF)
    if b[0] != 0:
        print(b[1][-3000:])
        sys.exit(2)
    r = run(tier, seed)
    ms = r.pop("mismatches")
    print(json.dumps(r, indent=1, default=str, sort_keys=True))
    for m in ms[:5]:
        print("MISMATCH %s\n%s\n%s" % (m["case"]["id"], m["what"], m["case"]["program"]))
    print("plan_model: programs=%d evaluations=%d distinct_nontrivial=%d mismatches=%d wall=%.1fs" % (
        r["programs"], r["evaluations"], r["distinct_nontrivial"], len(ms), r["wall"]))
    sys.exit(1 if ms else 0)
