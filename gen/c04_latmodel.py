"""C04 / C02 — MODEL column for the lattice + aggregate family of gen/c04_lat.py.

The programs of gen/c04_lat.py (`cases(tier, seed)`: a lattice raised over many iterations of a recursive stratum,
aggregated / negated by a higher stratum through every index shape) are run through the real front end (FRONT dump
of the desugared HIR rules and the MIR plan), translated to the plan syntax of Engine/Eval.v and evaluated by the
executable Gallina model coq/LatEngine/LatAggEval.v `arun_plan` (LatEval.v + the MirBodyItem::Agg arm) with
vm_compute.  Every dumped plan is also checked by Engine/Validate.v `validate`, LatAggEval.v `alat_plan_ok` and LatAggTrans.v
`plan_below N` (the boolean hypotheses of LatEngine/LatAggMain.v lat_agg_stratified_model).

    model_column(cases)                        -> {case id: {input index: {rel: rows in model order} | None (out of fuel)}}
    model_column_full(cases)                   -> {case id: dict(valid=<boolean hypotheses of the theorem hold for the dumped plan>, rows=<as above>, error)}
    compare(case, k, impl_rows, model_rows)    -> list of mismatches (kind='model_differs', format of gen/runner.py)
    check(tier, seed, tag)                     -> dict(mismatches, evaluations, ...) : serial ascent! rows vs model rows
    python3 -m gen.c04_latmodel quick|thorough [seed]      prints counts

Vocabulary (Rust expression -> symbol of the interpretation `c04lat_interp cap` defined in PRELUDE):
    *x / x                          variable
    (*v + *w).min(CAP)              TFun 500 [v; w]      Z.min (v + w) CAP           (max lattice i32)
    ascent::Dual(*w)                TFun 200 [w]         w                           (LatVocab dual_of)
    ascent::Dual(v.0 + *w)          TFun 201 [v; w]      v + w                       (LatVocab dual_add)
    ascent::Dual(v.0)               TFun 200 [v]         v
    n as i32                        TFun 5 [n]           n                           (Engine/Vocab asi32)
lattice types: i32 = LatVocab type 0 (join = max), Dual<i32> = type 1 (join = min); aggregators = Engine/Vocab.v
std_aint (count 0, sum 1, min 2, max 3, not 4: Agg/AggModel.v, C17)."""
import json
import re
import sys
import time

from . import c04_lat, dl, lib, prog

FUEL = 400
LAT_ID = {"max": 0, "dual": 1}

PRELUDE = ("From Coq Require Import List ZArith Bool.\n"
           "From AV Require Import Engine.Core Engine.Eval Engine.Validate Engine.Vocab.\n"
           "From AV Require Import LatEngine.LatSyntax LatEngine.LatEval LatEngine.LatVocab LatEngine.LatAggEval LatEngine.LatAggTrans.\n"
           "Import ListNotations.\nOpen Scope Z_scope.\n"
           "Definition c04lat_interp (cap : Z) : linterp Z :=\n"
           "  {| vconst := fun c => c;\n"
           "     vfun := fun f l => if Nat.eqb f 500 then Z.min (arg 0 l + arg 1 l) cap else lv_fun f l;\n"
           "     vpred := lv_pred; vpart := lv_part; vgen := lv_gen; veqb := Z.eqb |}.\n")


class Unsupported(Exception):
    pass


_ID = r"\*?([A-Za-z_]\w*)"


def parse_expr(text, cap):
    """token string of a Rust expression -> ('v', x) | ('c', n) | ('f', id, [x..])"""
    s = dl._strip(text)
    while s.startswith("(") and s.endswith(")") and dl._balanced(s[1:-1]):
        s = s[1:-1]
    if re.fullmatch(r"-?\d+(i32)?", s):
        return ("c", int(re.match(r"-?\d+", s).group(0)))
    m = re.fullmatch(_ID, s)
    if m:
        return ("v", m.group(1))
    m = re.fullmatch(r"\(%s\+%s\)\.min\((\d+)\)" % (_ID, _ID), s)
    if m:
        if int(m.group(3)) != cap:
            raise Unsupported("cap %s in the program text, %s in the case" % (m.group(3), cap))
        return ("f", 500, [m.group(1), m.group(2)])
    m = re.fullmatch(r"ascent::Dual\(%s\)" % _ID, s)
    if m:
        return ("f", 200, [m.group(1)])
    m = re.fullmatch(r"ascent::Dual\(([A-Za-z_]\w*)\.0\+%s\)" % _ID, s)
    if m:
        return ("f", 201, [m.group(1), m.group(2)])
    m = re.fullmatch(r"ascent::Dual\(([A-Za-z_]\w*)\.0\)", s)
    if m:
        return ("f", 200, [m.group(1)])
    m = re.fullmatch(r"([A-Za-z_]\w*) as i32", s)
    if m:
        return ("f", 5, [m.group(1)])
    raise Unsupported("expression outside the vocabulary of gen/c04_latmodel.py: %r" % text)


def parse_arg(a, cap):
    if "v" in a:
        return ("v", a["v"])
    if "w" in a:
        raise Unsupported("wildcard outside an aggregate")
    return parse_expr(a["e"], cap)


def parse_rule(hr, cap):
    """dumped HIR rule -> dict(heads, body); body item = ('clause', rel, [term]) | ('agg', out, agg id, [bound], rel, [aarg])"""
    body = []
    for it in hr["body"]:
        if it["t"] == "clause":
            if it["conds"]:
                raise Unsupported("clause conditions")
            body.append(("clause", it["rel"], [parse_arg(a, cap) for a in it["args"]]))
        elif it["t"] == "agg":
            an = dl._strip(it["aggregator"]).split("::")[-1]
            if an not in dl.AGGS:
                raise Unsupported("aggregator %r" % it["aggregator"])
            pat = dl._strip(it["pat"])
            out = None if pat == "()" else pat
            if out is not None and not re.fullmatch(r"[A-Za-z_]\w*", out):
                raise Unsupported("aggregate pattern %r" % it["pat"])
            args = []
            for a in it["args"]:
                if "w" in a:
                    args.append(("w",))
                elif "v" in a and a["v"] in it["bound"]:
                    args.append(("b", a["v"]))
                else:
                    args.append(("k", parse_arg(a, cap)))
            body.append(("agg", out, dl.AGGS[an], list(it["bound"]), it["rel"], args))
        else:
            raise Unsupported("body item %r" % it["t"])
    heads = [(h["rel"], [parse_arg(a, cap) for a in h["args"]]) for h in hr["heads"]]
    return dict(heads=heads, body=body)


def coq_term(t, V):
    if t[0] == "v":
        return "TVar %s" % dl.cnat(V(t[1]))
    if t[0] == "c":
        return "TConst (%d)" % t[1]
    return "TFun %s %s" % (dl.cnat(t[1]), dl.cnats(V(x) for x in t[2]))


def coq_aarg(a, V):
    if a[0] == "w":
        return "AWild"
    if a[0] == "b":
        return "ABound %s" % dl.cnat(V(a[1]))
    return "AKey (%s)" % coq_term(a[1], V)


def _agg_fields(it, V, R):
    _, out, aid, bound, rel, args = it
    o = "None" if out is None else "(Some %s)" % dl.cnat(V(out))
    return "%s %s %s %s %s" % (o, dl.cnat(aid), dl.cnats(V(x) for x in bound), dl.cnat(R(rel)), dl.coq_list(coq_aarg(a, V) for a in args))


def coq_heads(heads, V, R):
    return dl.coq_list("(%s, %s)" % (dl.cnat(R(rel)), dl.coq_list(coq_term(t, V) for t in args)) for rel, args in heads)


def coq_rule(rule, R):
    V = dl.Names()
    items = []
    for it in rule["body"]:
        if it[0] == "clause":
            items.append("BClause %s %s []" % (dl.cnat(R(it[1])), dl.coq_list(coq_term(t, V) for t in it[2])))
        else:
            items.append("BAgg %s" % _agg_fields(it, V, R))
    return "{| heads := %s; body := %s |}" % (coq_heads(rule["heads"], V, R), dl.coq_list(items))


NVARS = [0]      # largest number of variables of a rendered rule / variant (the bound N of plan_below)


def coq_variant(rule, vd, R):
    V = dl.Names()
    items = []
    if len(vd["items"]) != len(rule["body"]):
        raise Unsupported("variant / rule item count")
    for it, d in zip(rule["body"], vd["items"]):
        if it[0] == "clause":
            if d["t"] != "clause" or d["rel"] != it[1]:
                raise Unsupported("variant item does not match the rule")
            items.append("PClause %s %s [] %s %s" % (dl.cnat(R(it[1])), dl.coq_list(coq_term(t, V) for t in it[2]), dl.cnats(d["idx"]), dl.VERS[d["ver"]]))
        else:
            if d["t"] != "agg" or d["rel"] != it[4]:
                raise Unsupported("variant item does not match the rule")
            items.append("PAgg %s %s" % (_agg_fields(it, V, R), dl.cnats(d["idx"])))
    sj = "None" if vd["sj"] is None else "(Some %s)" % dl.cnat(vd["sj"])
    hs = coq_heads(rule["heads"], V, R)
    NVARS[0] = max(NVARS[0], len(V.d))
    return "{| v_rule := %s; v_heads := %s; v_items := %s; v_sj := %s; v_reord := %s |}" % (
        dl.cnat(vd["hir"]), hs, dl.coq_list(items), sj, "true" if vd["reord"] else "false")


def coq_db(case, inp, R):
    body = "[]"
    for name, _, _ in reversed(case["rels"]):
        rows = inp.get(name, [])
        if rows:
            body = "if Nat.eqb r %s then %s else %s" % (dl.cnat(R(name)), dl.coq_list("[%s]" % "; ".join("(%d)" % v for v in t) for t in rows), body)
    return "(fun r : nat => %s)" % body


def model_exprs(case, dump):
    """Gallina expressions of one case: [plan accepted?] + one run per input; and the relation-number decoder"""
    R = dl.Names()
    for name, _, _ in case["rels"]:
        R(name)
    for rel in dump.get("relations", []):
        kind = dict((n, k) for n, _, k in case["rels"]).get(rel["name"])
        if rel["lattice"] != isinstance(kind, tuple):
            raise lib.Infra("FRONT dump and case disagree on which relations are lattices: %s" % rel["name"])
    rules = [parse_rule(hr, case["cap"]) for hr in dump["hir_rules"]]
    sccs = []
    NVARS[0] = 0
    for sc in dump["sccs"]:
        vs = [coq_variant(rules[v["hir"]], v, R) for v in sc["variants"]]
        sccs.append("{| s_vars := %s; s_dyn := %s; s_loop := %s |}" % (dl.coq_list(vs), dl.cnats(R(r) for r in sc["dynamic"]), "true" if sc["looping"] else "false"))
    plan = dl.coq_list(sccs)
    P = dl.coq_list(coq_rule(r, R) for r in rules)
    arities = dl.coq_list("(%s, %s)" % (dl.cnat(R(n)), dl.cnat(a)) for n, a, _ in case["rels"])
    lats = dl.coq_list("(%s, %s)" % (dl.cnat(R(n)), dl.cnat(LAT_ID[k[1]])) for n, _, k in case["rels"] if isinstance(k, tuple))
    relnums = dl.cnats(R(n) for n, _, _ in case["rels"])
    # the boolean hypotheses of LatAggMain.lat_agg_stratified_model: validate, alat_plan_ok, plan_below N (N = number of variables)
    exprs = ["(validate %s %s %s && alat_plan_ok (lv_islat %s) %s %s && plan_below %s %s)" % (arities, P, plan, lats, arities, plan, dl.cnat(NVARS[0]), plan)]
    for inp in case["inputs"]:
        exprs.append("option_map (fun st => lv_show %s (l_rows st)) (arun_plan (c04lat_interp (%d)) std_aint (lv_islat %s) (lv_jm %s) "
                     "lv_shuffle lv_shuffle lv_swap %d%%nat %s %s)" % (relnums, case["cap"], lats, lats, FUEL, plan, coq_db(case, inp, R)))
    inv = {v: k for k, v in R.d.items()}
    return exprs, inv


def _decode(v, inv):
    if v == "None":
        return None
    assert v[0] == "Some", v
    return {inv[r]: [tuple(t) for t in rows] for (r, rows) in v[1]}


def model_column_full(cases, tag="c04latmodel", coq_timeout=120):
    """{case id: {"valid": bool | None, "rows": {input index: {rel: rows in model order} | None}, "error": str | None}}
    valid = validate && alat_plan_ok && plan_below on the dumped plan (the boolean hypotheses of the theorem)"""
    dumps = prog.front_run([(c["id"], "ascent", c["text"]) for c in cases])
    groups, gids, invs, out = [], [], {}, {}
    for c in cases:
        d = dumps.get(c["id"])
        if d is None or d.get("status") != "ok" or "sccs" not in d:
            out[c["id"]] = dict(valid=None, rows={}, error="front end: %s %s" % (d and d.get("status"), d and d.get("errors")))
            continue
        try:
            ex, inv = model_exprs(c, d)
        except Unsupported as e:
            out[c["id"]] = dict(valid=None, rows={}, error="not translatable: %s" % e)
            continue
        invs[c["id"]] = inv
        groups.append(ex)
        gids.append(c["id"])
    vals = lib.coq_eval_groups(tag, PRELUDE, groups, timeout=coq_timeout)
    for cid, v in zip(gids, vals):
        if v is None:
            out[cid] = dict(valid=None, rows={}, error="model evaluation exceeded %d s" % coq_timeout)
            continue
        out[cid] = dict(valid=(v[0] is True), rows={k: _decode(x, invs[cid]) for k, x in enumerate(v[1:])}, error=None)
    return out


def model_column(cases, tag="c04latmodel", coq_timeout=120):
    """{case id: {input index: {rel: rows in model order} | None}}   (no entry for an input: the program has no model column)"""
    return {cid: m["rows"] for cid, m in model_column_full(cases, tag=tag, coq_timeout=coq_timeout).items()}


def compare(case, k, impl_rows, model_rows):
    """implementation rows ({rel: rows in order}) vs model rows of input k; rows are compared as MULTISETS per relation
    (a duplicated row or a second row for a lattice key is a difference)"""
    cs = dict(program=case["text"], input=case["inputs"][k], id=case["id"], macro="ascent!")
    if model_rows is None:
        return [dict(case=cs, impl={n: sorted(v) for n, v in impl_rows.items()}, model="out of fuel", spec=None, kind="model_differs", known=None,
                     what="correspondence LatEngine/LatAggEval.v arun_plan vs generated code: the model did not terminate within %d iterations per SCC" % FUEL)]
    for name, _, _ in case["rels"]:
        if sorted(impl_rows.get(name, [])) != sorted(model_rows.get(name, [])):
            return [dict(case=cs, impl={name: sorted(impl_rows.get(name, []))}, model={name: sorted(model_rows.get(name, []))},
                         spec=case["expected"][k].get(name) if "expected" in case else None, kind="model_differs", known=None,
                         what="correspondence LatEngine/LatAggEval.v arun_plan vs generated code (aggregation / negation over lattice relations; relation %s: rows as a multiset)" % name)]
    return []


def probes():
    """fixed cases outside the generator of gen/c04_lat.py (no python oracle: implementation vs model only):
    - duplicate INPUT rows of a plain aggregated relation: one entry per pushed row in a non-full index, one in the full index;
    - an aggregate over the LATTICE column itself (bound column = last column), two negations in one rule, an aggregate
      whose key is a constant, a relation aggregated twice in one rule"""
    decl = ["relation edge(i32, i32, i32);", "relation node(i32);", "lattice d(i32, i32, i32);", "relation e(i32, i32);",
            "relation cnt(i32, i32);", "relation cfull(i32, i32, i32);", "relation mxv(i32, i32);", "relation lone(i32);", "relation both(i32, i32);",
            "relation c0(i32);"]
    rules = ["node(x) <-- edge(x, _, _);", "node(y) <-- edge(_, y, _);",
             "d(x, y, *w) <-- edge(x, y, w);", "d(x, z, (*v + *w).min(9)) <-- d(x, y, v), edge(y, z, w);",
             "cnt(x, n as i32) <-- node(x), agg n = ascent::aggregators::count() in e(x, _);",
             "cfull(x, y, n as i32) <-- node(x), node(y), agg n = ascent::aggregators::count() in e(x, y);",
             "mxv(x, m) <-- node(x), agg m = ascent::aggregators::max(v) in d(x, _, v);",
             "lone(x) <-- node(x), !d(x, _, _), !d(_, x, _);",
             "both(x, m) <-- node(x), agg n = ascent::aggregators::min(y) in d(x, y, _), agg m = ascent::aggregators::max(z) in d(x, z, _);",
             "c0(n as i32) <-- agg n = ascent::aggregators::count() in d(0, _, _);"]
    rels = [("edge", 3, "rel"), ("node", 1, "rel"), ("d", 3, ("lat", "max")), ("e", 2, "rel"), ("cnt", 2, "rel"), ("cfull", 3, "rel"),
            ("mxv", 2, "rel"), ("lone", 1, "rel"), ("both", 2, "rel"), ("c0", 1, "rel")]
    inputs = [{"edge": [(0, 1, 2), (1, 2, 3), (0, 2, 1), (2, 0, 1)], "node": [(7,)], "e": [(0, 1), (0, 1), (0, 2), (1, 1), (1, 1), (1, 1)]},
              {"edge": [(0, 1, 1), (3, 4, 2)], "node": [], "e": [(3, 4), (3, 4)]}]
    return [dict(id="c04lat_probe", text="\n".join(decl + rules), rels=rels, lat="max", cap=9, inputs=inputs, consumers=["probe"])]


def check(tier, seed, tag="c04latmodel", cases=None):
    """serial ascent! runs of the lattice + aggregate family (and the fixed probes) against the model column"""
    cs = (probes() + c04_lat.cases(tier, seed)) if cases is None else cases
    t0 = time.time()
    col = model_column_full(cs, tag=tag)
    t_model = time.time() - t0
    jobs = [dict(id=c["id"] + "_ser", text=c["text"], macro="ascent", rels=c["rels"],
                 scripts=[[("set", inp), ("run",), ("snap",)] for inp in c["inputs"]]) for c in cs]
    t0 = time.time()
    impl = prog.build_and_run(tag, jobs, features=("verif_hooks",), run_timeout=300) if jobs else {}
    t_impl = time.time() - t0
    mism, evaluations, invalid, untranslated = [], 0, 0, 0
    agg_shapes = {}
    for c in cs:
        m = col[c["id"]]
        if m["error"]:
            untranslated += 1
            mism.append(dict(case=dict(program=c["text"], id=c["id"]), impl=None, model=m["error"], spec=None, kind="model_differs", known=None,
                             what="the lattice + aggregate program has no model column: %s" % m["error"]))
            continue
        if m["valid"] is not True:
            invalid += 1
            mism.append(dict(case=dict(program=c["text"], id=c["id"]), impl="plan computed by the macro", model="validate && alat_plan_ok && plan_below = %s" % m["valid"], spec=None,
                             kind="model_differs", known=None,
                             what="the plan dumped from the macro is rejected by Engine/Validate.v validate, LatAggEval.v alat_plan_ok or LatAggTrans.v plan_below: the theorems of LatEngine/LatAggMain.v do not apply"))
        for nm in c.get("consumers", []):
            agg_shapes[nm] = agg_shapes.get(nm, 0) + 1
        res = impl.get(c["id"] + "_ser")
        for k in range(len(c["inputs"])):
            iv = res[k] if res else None
            if iv is None or "snaps" not in iv:
                mism.append(dict(case=dict(program=c["text"], input=c["inputs"][k], id=c["id"]), impl=iv, model=None, spec=None, kind="model_differs", known=None,
                                 what="implementation run did not complete: %s" % json.dumps(iv)[:300]))
                continue
            evaluations += 1
            mism += compare(c, k, c04_lat.decode(iv["snaps"][-1]), m["rows"].get(k))
    return dict(mismatches=mism, evaluations=evaluations, programs=len(cs), plans_rejected=invalid, untranslated=untranslated,
                consumers=agg_shapes, seconds=dict(model=round(t_model, 1), implementation=round(t_impl, 1)))


if __name__ == "__main__":
    tier = sys.argv[1] if len(sys.argv) > 1 else "quick"
    seed = int(sys.argv[2]) if len(sys.argv) > 2 else 1
    r = check(tier, seed)
    print(json.dumps({k: v for k, v in r.items() if k != "mismatches"}, indent=1))
    print("mismatches: %d" % len(r["mismatches"]))
    for m in r["mismatches"][:5]:
        print(json.dumps(m)[:1500])
    sys.exit(1 if r["mismatches"] else 0)
