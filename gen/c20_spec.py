"""C20: python specification oracle for programs in the gen/dl.py AST — the least model of a stratified program, computed the plain
way (naive iteration per stratum, nested loops over sets of tuples).  No index, no delta / total / new, no pool, no thread: what a
program instance "computes when run alone" according to the language definition.  Used for inputs with hundreds of rows, where
the Coq specification semantics (Engine/Sem.v strat_fix under vm_compute) is too slow; on the small random cases of the C20 tie
the two are compared with each other on every run (gen/props/c20.py), so a defect of this evaluator is reported as an
infrastructure error and not as a violation.

Language: clause (variables, repeated variables, constants, wildcards, expression arguments, trailing conditions), if / let /
let-constant / if-let conditions, generators, aggregates count / sum / min / max / not (negation), several heads."""
from . import dl, engine_tie


class Budget(Exception):
    pass


def py_pred(name, a):
    if name == "lt":
        return a[0] < a[1]
    if name == "ne":
        return a[0] != a[1]
    if name == "even":
        return a[0] % 2 == 0
    if name == "le":
        return a[0] <= a[1]
    if name == "eq":
        return a[0] == a[1]
    raise KeyError(name)


def py_partial(name, a):
    if name == "predpos":
        return a[0] - 1 if a[0] > 0 else None
    if name == "half":
        return a[0] // 2 if a[0] % 2 == 0 else None
    if name == "id":
        return a[0]
    raise KeyError(name)


def py_gen(name, a):
    if name == "upto":
        return range(0, min(a[0], 4))
    if name == "pair":
        return [a[0], a[1]]
    if name == "range3":
        return range(0, 3)
    raise KeyError(name)


def term_val(t, env):
    if t[0] == "v":
        return env[t[1]]
    if t[0] == "c":
        return t[1]
    if t[0] == "f":
        return dl.py_fun(t[1], [env[x] for x in t[2]])
    raise ValueError(t)


def cond_envs(c, env):
    """0 or 1 environments"""
    if c[0] == "if":
        return [env] if py_pred(c[1], [env[x] for x in c[2]]) else []
    if c[0] == "let":
        return [dict(env, **{c[1]: dl.py_fun(c[2], [env[x] for x in c[3]])})]
    if c[0] == "letc":
        return [dict(env, **{c[1]: c[2]})]
    if c[0] == "iflet":
        v = py_partial(c[2], [env[x] for x in c[3]])
        return [] if v is None else [dict(env, **{c[1]: v})]
    raise ValueError(c)


def match(terms, tup, env):
    """bind the variable arguments first, then check the expression arguments (they may use variables of the same clause)"""
    e = env
    copied = False
    for t, v in zip(terms, tup):
        if t[0] == "v":
            if t[1] in e:
                if e[t[1]] != v:
                    return None
            else:
                if not copied:
                    e = dict(e)
                    copied = True
                e[t[1]] = v
        elif t[0] == "c":
            if t[1] != v:
                return None
    for t, v in zip(terms, tup):
        if t[0] == "f" and term_val(t, e) != v:
            return None
    return e


class Eval:
    def __init__(self, budget):
        self.budget = budget

    def tick(self, n=1):
        self.budget -= n
        if self.budget < 0:
            raise Budget()

    def item_envs(self, it, envs, db):
        out = []
        if it[0] == "clause":
            rows = db.get(it[1], ())
            for env in envs:
                self.tick(len(rows) + 1)
                for tup in rows:
                    e = match(it[2], tup, env)
                    if e is None:
                        continue
                    es = [e]
                    for c in it[3]:
                        es = [e2 for e1 in es for e2 in cond_envs(c, e1)]
                    out += es
            return out
        if it[0] == "cond":
            for env in envs:
                out += cond_envs(it[1], env)
            return out
        if it[0] == "gen":
            for env in envs:
                for v in py_gen(it[2], [env[x] for x in it[3]]):
                    out.append(dict(env, **{it[1]: v}))
            return out
        if it[0] == "neg":
            rows = db.get(it[1], ())
            for env in envs:
                self.tick(len(rows) + 1)
                if not any(self.neg_match(it[2], tup, env) for tup in rows):
                    out.append(env)
            return out
        if it[0] == "agg":
            _, outv, an, bound, rel, args = it
            rows = db.get(rel, ())
            for env in envs:
                self.tick(len(rows) + 1)
                vals = []
                for tup in rows:
                    b = {}
                    ok = True
                    for a, v in zip(args, tup):
                        if a[0] == "b":
                            if a[1] in b and b[a[1]] != v:
                                ok = False
                                break
                            b[a[1]] = v
                        elif a[0] == "k":
                            if a[1][0] == "w":
                                continue
                            if term_val(a[1], env) != v:
                                ok = False
                                break
                    if ok:
                        vals.append(tuple(b[x] for x in bound))
                if an == "count":
                    res = [len(vals)]
                elif an == "sum":
                    res = [sum(v[0] for v in vals)]
                elif an == "min":
                    res = [min(v[0] for v in vals)] if vals else []
                elif an == "max":
                    res = [max(v[0] for v in vals)] if vals else []
                elif an == "not":
                    res = [()] if not vals else []
                else:
                    raise KeyError(an)
                for r in res:
                    out.append(dict(env, **{outv: r}) if outv else env)
            return out
        raise ValueError(it)

    @staticmethod
    def neg_match(terms, tup, env):
        for t, v in zip(terms, tup):
            if t[0] == "w":
                continue
            if term_val(t, env) != v:
                return False
        return True

    def rule_facts(self, r, db):
        envs = [{}]
        for it in r["body"]:
            envs = self.item_envs(it, envs, db)
            if not envs:
                return []
        out = []
        for env in envs:
            for rel, args in r["heads"]:
                out.append((rel, tuple(term_val(t, env) for t in args)))
        return out


def least_model(p, inp, budget=30_000_000):
    """p: dl program; inp: {rel: [tuple]} -> {rel: set of tuples}; raises Budget when the work bound is exceeded"""
    ev = Eval(budget)
    db = {name: set(tuple(t) for t in inp.get(name, [])) for name, _, _ in p["rels"]}
    for comp in engine_tie.stratify(p["rules"]):
        rules = [p["rules"][j] for j in comp]
        while True:
            new = False
            for r in rules:
                for rel, t in ev.rule_facts(r, db):
                    if t not in db[rel]:
                        db[rel].add(t)
                        new = True
            if not new:
                break
            heads = set(h for r in rules for h in engine_tie.rule_rels(r)[0])
            bodies = set(b for r in rules for b in engine_tie.rule_rels(r)[1])
            if not (heads & bodies):
                break       # a non-recursive stratum is done after one pass
    return db


def grouped(db, rels):
    """same shape as engine_tie.group_facts: {rel: (count, sorted distinct tuples)}"""
    return {name: (len(db[name]), sorted(db[name], key=repr)) for name, _, _ in rels}
