"""C08 — ascent programs with in-program macros as python ASTs: Rust renderer (program text with
`macro name($p: ident, $e: expr) { .. }` definitions), renderer to the Gallina syntax of
coq/Macros/MacroModel.v, and an independent hygienic hand expander (explicitly fresh names).

AST (JSON-able: lists / dicts / str / int only)
  ident  = ['id', name, org]          org: None = written at the call site, k = written in the body of macro k
  var    = ident | ['par', p]         `$p<p>`
  term   = ['v', var] | ['c', int] | ['f', fname, [var..]]
         | ['x', shape, [var..]]    nested expression (gen/c08_args.py): a shape over the holes 0.. plugged with the leaves;
                                    shape = ['h', k] | ['k', int] | ['a', form, [shape..]], form = a Rust rendering of a
                                    vocabulary function that says which operands stand inside a delimiter group
  cnd    = ['if', pname, [var..]] | ['let', var, fname, [var..]] | ['iflet', var, pfname, [var..]]
  item   = ['clause', rel, [term..], [cnd..]] | ['cond', cnd] | ['gen', var, gname, [var..]]
         | ['neg', rel, [term..]] | ['disj', [[item..]..]] | ['inv', m, [term..]]
  hitem  = ['h', rel, [term..]] | ['hinv', m, [term..]]
  rule   = {'heads': [hitem..], 'body': [item..]}
  mdef   = {'name': k, 'params': [[p, is_ident]..], 'body': [item..]}        rendered as macro m<k>
  prog   = {'rels': [[name, arity, 'rel']..], 'macros': [mdef..], 'rules': [rule..], 'head_macros': [k..]}
"""
from . import dl

# ------------------------------------------------------------------ Rust


def r_var(v):
    return v[1] if v[0] == "id" else "$p%d" % v[1]


def r_use(v):
    # a variable inside an expression: clause-bound variables are references, let/for-bound ones values;
    # `.clone()` gives an i32 in both cases, so a macro body does not depend on how its actuals were bound
    return r_var(v) + ".clone()"


def r_term(t):
    if t[0] == "v":
        return r_var(t[1])
    if t[0] == "c":
        return str(t[1])
    if t[0] == "f":
        return dl._subst(dl.FUNS[t[1]][2], [r_use(x) for x in t[2]])
    if t[0] == "x":
        from . import c08_args
        return c08_args.render_shape(t[1], [r_use(x) for x in t[2]])[0]
    raise ValueError(t)


def r_cnd(c):
    if c[0] == "if":
        return "if " + dl._subst(dl.PREDS[c[1]][2], [r_use(x) for x in c[2]])
    if c[0] == "let":
        return "let %s = %s" % (r_var(c[1]), dl._subst(dl.FUNS[c[2]][2], [r_use(x) for x in c[3]]))
    if c[0] == "iflet":
        return "if let Some(%s) = %s" % (r_var(c[1]), dl._subst(dl.PARTIALS[c[2]][2], [r_use(x) for x in c[3]]))
    raise ValueError(c)


def r_item(it):
    k = it[0]
    if k == "clause":
        s = "%s(%s)" % (it[1], ", ".join(r_term(t) for t in it[2]))
        for c in it[3]:
            s += " " + r_cnd(c)
        return s
    if k == "cond":
        return r_cnd(it[1])
    if k == "gen":
        return "for %s in %s" % (r_var(it[1]), dl._subst(dl.GENS[it[2]][2], [r_use(x) for x in it[3]]))
    if k == "neg":
        return "!%s(%s)" % (it[1], ", ".join(r_term(t) for t in it[2]))
    if k == "disj":
        alts = []
        for alt in it[1]:
            txt = ", ".join(r_item(i) for i in alt)
            last = alt[-1] if alt else None
            if last is not None and (last[0] in ("cond", "gen") or (last[0] == "clause" and last[3])):
                # `.., if c | next` would be parsed with `|` as an operator of the condition: an alternative that
                # ends with an expression becomes a nested one-alternative disjunction (arises only in hand
                # expansions, where an invocation that was the last item of an alternative has been expanded)
                txt = "(" + txt + ")"
            alts.append(txt)
        return "(" + " | ".join(alts) + ")"
    if k == "inv":
        return "m%d!(%s)" % (it[1], ", ".join(r_term(t) for t in it[2]))
    raise ValueError(it)


def r_hitem(h):
    if h[0] == "h":
        return "%s(%s)" % (h[1], ", ".join(r_term(t) if t[0] != "v" else r_var(t[1]) for t in h[2]))
    return "m%d!(%s)" % (h[1], ", ".join(r_term(t) for t in h[2]))


def r_rule(r):
    hs = ", ".join(r_hitem(h) for h in r["heads"])
    if not r["body"]:
        return hs + ";"
    return "%s <-- %s;" % (hs, ", ".join(r_item(i) for i in r["body"]))


def r_macro(d):
    ps = ", ".join("$p%d: %s" % (p, "ident" if k else "expr") for p, k in d["params"])
    return "macro m%d(%s) { %s }" % (d["name"], ps, ", ".join(r_item(i) for i in d["body"]))


def rust_text(p):
    lines = ["relation %s(%s);" % (n, ", ".join(["i32"] * a)) for n, a, _ in p["rels"]]
    lines += [r_macro(d) for d in p["macros"]]
    lines += [r_rule(r) for r in p["rules"]]
    return "\n".join(lines)


# ------------------------------------------------------------------ Gallina (coq/Macros/MacroModel.v)

def q_str(s):
    assert '"' not in s
    return '"%s"' % s


def q_var(v):
    if v[0] == "par":
        return "VPar %d" % v[1]
    org = "OCall" if v[2] is None else "(OMac %d)" % v[2]
    return "VId (mkId %s %s 0)" % (q_str(v[1]), org)


def q_list(xs):
    return "[" + "; ".join(xs) + "]"


# nested expressions: the function symbol XBASE + k of a model term denotes the k-th shape of a per-program table
# (coq/Macros/MacroArgs.v aexp_of_term).  The table is collected while a program is rendered: xt_reset(); q_macros / q_rules; xt_table()
XBASE = 1000
_XT = []


def xt_reset():
    del _XT[:]


def xt_table():
    from . import c08_args
    return q_list(c08_args.q_shape(sh) for sh in _XT)


def q_term(t):
    if t[0] == "v":
        return "TV (%s)" % q_var(t[1])
    if t[0] == "c":
        return "TC (%d)%%Z" % t[1]
    if t[0] == "x":
        if t[1] not in _XT:
            _XT.append(t[1])
        return "TF %d %s" % (XBASE + _XT.index(t[1]), q_list(q_var(x) for x in t[2]))
    return "TF %d %s" % (dl.FUNS[t[1]][0], q_list(q_var(x) for x in t[2]))


def q_cnd(c):
    if c[0] == "if":
        return "MacroModel.CIf %d %s" % (dl.PREDS[c[1]][0], q_list(q_var(x) for x in c[2]))
    fid = dl.FUNS[c[2]][0] if c[0] == "let" else dl.PARTIALS[c[2]][0]
    return "MacroModel.CBind (%s) %d %s" % (q_var(c[1]), fid, q_list(q_var(x) for x in c[3]))


def q_item(it, R):
    k = it[0]
    if k == "clause":
        return "IClause %d %s %s" % (R(it[1]), q_list(q_term(t) for t in it[2]), q_list(q_cnd(c) for c in it[3]))
    if k == "cond":
        return "ICond (%s)" % q_cnd(it[1])
    if k == "gen":
        return "IGen (%s) %d %s" % (q_var(it[1]), dl.GENS[it[2]][0], q_list(q_var(x) for x in it[3]))
    if k == "neg":
        return "INeg %d %s" % (R(it[1]), q_list(q_term(t) for t in it[2]))
    if k == "disj":
        return "IDisj %s" % q_list(q_list(q_item(i, R) for i in alt) for alt in it[1])
    if k == "inv":
        return "IInv %d %s" % (it[1], q_list(q_term(t) for t in it[2]))
    raise ValueError(it)


def q_hitem(h, R):
    if h[0] == "h":
        return "HClause %d %s" % (R(h[1]), q_list(q_term(t) for t in h[2]))
    return "HInv %d %s" % (h[1], q_list(q_term(t) for t in h[2]))


def q_rule(r, R):
    return "mkRule %s %s" % (q_list(q_hitem(h, R) for h in r["heads"]), q_list(q_item(i, R) for i in r["body"]))


def q_macro(d, R):
    ps = q_list("(%d, %s)" % (p, "true" if k else "false") for p, k in d["params"])
    return "mkDef %d %s %s" % (d["name"], ps, q_list(q_item(i, R) for i in d["body"]))


def q_macros(p, R):
    return q_list(q_macro(d, R) for d in p["macros"])


def q_rules(p, R):
    return q_list(q_rule(r, R) for r in p["rules"])


# ------------------------------------------------------------------ hygienic hand expansion (independent of the Coq one)

class Recursive(Exception):
    pass


def _fresh(name, scope):
    return name if scope == 0 else "%s_h%d" % (name, scope)


def _base(name):
    """the spelling an identifier had before _fresh"""
    i = name.rfind("_h")
    return name[:i] if i > 0 and name[i + 2:].isdigit() else name


class Hand:
    """expands every invocation; identifiers written in a macro body get the suffix _h<k> where k numbers the
    invocation; parameters are replaced by the actuals.  Works on trees (an `expr` actual stays one node)."""

    def __init__(self, prog, limit=400, leak=(), capture=()):
        # leak: (macro, spelling) pairs that are NOT made fresh (a deliberately unhygienic expansion: the tie uses it to
        # check that a designed input tells sharing / capture of that local apart from the hygienic expansion)
        # capture: (macro, spelling) pairs: the identifiers of that spelling INSIDE THE ACTUALS of an invocation of the macro
        # become the macro's local of that spelling (another deliberately unhygienic expansion: the local captures what the
        # call site / the enclosing macro passes in; the rest of the call site keeps its variable)
        self.leak = {(m, n) for m, n in leak}
        self.capture = {(m, n) for m, n in capture}
        self.defs = {}
        for d in prog["macros"]:
            self.defs[d["name"]] = d        # the last definition wins, as in the implementation
        self.n = 0
        self.limit = limit

    def var(self, v, env, scope):
        if v[0] == "par":
            a = env[v[1]]
            assert a[0] == "v", "non-variable actual at a variable position"
            return a[1]
        if scope and (v[2], v[1]) in self.leak:
            return ["id", v[1], None]
        return ["id", _fresh(v[1], scope), None] if scope else v

    def term(self, t, env, scope):
        if t[0] == "v":
            if t[1][0] == "par":
                return env[t[1][1]]
            return ["v", self.var(t[1], env, scope)]
        if t[0] == "c":
            return t
        if t[0] == "x":
            return ["x", t[1], [self.var(x, env, scope) for x in t[2]]]
        return ["f", t[1], [self.var(x, env, scope) for x in t[2]]]

    def cnd(self, c, env, scope):
        if c[0] == "if":
            return ["if", c[1], [self.var(x, env, scope) for x in c[2]]]
        return [c[0], self.var(c[1], env, scope), c[2], [self.var(x, env, scope) for x in c[3]]]

    def instantiate(self, m, acts, depth):
        if depth > self.limit:
            raise Recursive()
        d = self.defs[m]
        assert len(d["params"]) == len(acts)
        self.n += 1
        names = [n for (m_, n) in self.capture if m_ == m]
        if names:
            def cap(v):
                if v[0] == "id" and _base(v[1]) in names:
                    return ["id", _fresh(_base(v[1]), self.n), None]
                return v
            acts = [["v", cap(a[1])] if a[0] == "v" else a if a[0] == "c" else [a[0], a[1], [cap(x) for x in a[2]]] for a in acts]
        return d, {p: a for (p, _), a in zip(d["params"], acts)}, self.n

    def items(self, its, env, scope, depth):
        out = []
        for it in its:
            k = it[0]
            if k == "clause":
                out.append(["clause", it[1], [self.term(t, env, scope) for t in it[2]], [self.cnd(c, env, scope) for c in it[3]]])
            elif k == "cond":
                out.append(["cond", self.cnd(it[1], env, scope)])
            elif k == "gen":
                out.append(["gen", self.var(it[1], env, scope), it[2], [self.var(x, env, scope) for x in it[3]]])
            elif k == "neg":
                out.append(["neg", it[1], [self.term(t, env, scope) for t in it[2]]])
            elif k == "disj":
                out.append(["disj", [self.items(alt, env, scope, depth + 1) for alt in it[1]]])
            elif k == "inv":
                acts = [self.term(t, env, scope) for t in it[2]]
                d, env2, sc2 = self.instantiate(it[1], acts, depth)
                out += self.items(d["body"], env2, sc2, depth + 1)
            else:
                raise ValueError(it)
        return out

    def heads(self, hs, env, scope, depth):
        out = []
        for h in hs:
            if h[0] in ("h", "clause"):
                out.append(["h", h[1], [self.term(t, env, scope) for t in h[2]]])
            else:
                acts = [self.term(t, env, scope) for t in h[2]]
                d, env2, sc2 = self.instantiate(h[1], acts, depth)
                out += self.heads(d["body"], env2, sc2, depth + 1)
        return out

    def rule(self, r):
        self.n = 0
        body = self.items(r["body"], {}, 0, 0)
        heads = self.heads(r["heads"], {}, 0, 0)
        return dict(heads=heads, body=body)


def hand_expand(p, leak=(), capture=()):
    h = Hand(p, leak=leak, capture=capture)
    return dict(rels=p["rels"], macros=[], rules=[h.rule(r) for r in p["rules"]], head_macros=[])


def rule_rels(r):
    """(head relations, body relations) of an expanded rule"""
    heads = [h[1] for h in r["heads"] if h[0] == "h"]
    body = []

    def walk(its):
        for it in its:
            if it[0] in ("clause", "neg"):
                body.append(it[1])
            elif it[0] == "disj":
                for alt in it[1]:
                    walk(alt)
    walk(r["body"])
    return heads, body


def stratify(rules):
    """strongly connected components of the rule dependency graph, producers first (lists of rule indices)"""
    n = len(rules)
    rr = [rule_rels(r) for r in rules]
    succ = [[j for j in range(n) if set(rr[i][0]) & set(rr[j][1])] for i in range(n)]
    index, low, on, stack, out, counter = {}, {}, set(), [], [], [0]

    def visit(v):
        index[v] = low[v] = counter[0]
        counter[0] += 1
        stack.append(v)
        on.add(v)
        for w in succ[v]:
            if w not in index:
                visit(w)
                low[v] = min(low[v], low[w])
            elif w in on:
                low[v] = min(low[v], index[w])
        if low[v] == index[v]:
            comp = []
            while True:
                w = stack.pop()
                on.discard(w)
                comp.append(w)
                if w == v:
                    break
            out.append(sorted(comp))
    for v in range(n):
        if v not in index:
            visit(v)
    out.reverse()
    return out
