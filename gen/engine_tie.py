"""Shared tie for the engine properties: FRONT plan dump -> Coq plan; PROG run; model + spec in Coq."""
import json

from . import dl, lib, prog

PRELUDE = ("From Coq Require Import List ZArith Bool.\n"
           "From AV Require Import Engine.Core Engine.Sem Engine.Eval Engine.Vocab Engine.Validate Engine.Strat.\n"
           "Import ListNotations.\nOpen Scope Z_scope.\n")
FUEL = 200


def facts_of_input(inp, rels):
    fs = []
    for name, _, _ in rels:
        for t in inp.get(name, []):
            fs.append((name, tuple(t)))
    return fs


def group_facts(facts, rels):
    """list of (rel, tuple) -> {rel: (count, sorted distinct tuples)}"""
    out = {}
    for name, _, _ in rels:
        ts = [t for (r, t) in facts if r == name]
        out[name] = (len(ts), sorted(set(ts), key=repr))
    return out


def rule_rels(r):
    heads = [h[0] for h in r["heads"]]
    body = []
    for it in r["body"]:
        if it[0] == "clause":
            body.append(it[1])
        elif it[0] == "agg":
            body.append(it[4])
        elif it[0] == "neg":
            body.append(it[1])
        elif it[0] == "disj":
            for alt in it[1]:
                body += rule_rels(dict(heads=[], body=alt))[1]
    return heads, body


def stratify(rules):
    """SCCs of the rule dependency graph in dependency order (Tarjan); returns list of lists of rule indices"""
    n = len(rules)
    rr = [rule_rels(r) for r in rules]
    succ = [[j for j in range(n) if set(rr[i][0]) & set(rr[j][1])] for i in range(n)]
    index, low, on, stack, out, counter = {}, {}, set(), [], [], [0]

    def visit(v):
        index[v] = low[v] = counter[0]
        counter[0] += 1
        stack.append(v)
        on.add(v)
        for w in succ[v]:
            if w not in index:
                visit(w)
                low[v] = min(low[v], low[w])
            elif w in on:
                low[v] = min(low[v], index[w])
        if low[v] == index[v]:
            comp = []
            while True:
                w = stack.pop()
                on.discard(w)
                comp.append(w)
                if w == v:
                    break
            out.append(sorted(comp))
    for v in range(n):
        if v not in index:
            visit(v)
    out.reverse()      # Tarjan emits sinks first; producers must come first
    return out


def model_exprs(p, dump, inputs, spec="naive"):
    """Coq expressions: per input (model rows, spec facts), plus once the validator verdict"""
    R = dl.Names()
    for name, _, _ in p["rels"]:
        R(name)
    plan, hir_rules = dl.coq_plan(dump, R)
    src_rules = dl.coq_list(dl.coq_rule(r, R) for r in p["rules"])
    hir_prog = dl.coq_list(dl.coq_rule(dict(heads=r["heads"], body=r["body"]), R) for r in hir_rules)
    arities = dl.coq_list("(%s, %s)" % (dl.cnat(R(n)), dl.cnat(a)) for n, a, _ in p["rels"])
    exprs = ["validate %s %s %s" % (arities, hir_prog, plan)]
    if spec == "strat":
        strata = dl.coq_list(dl.coq_list(dl.coq_rule(p["rules"][j], R) for j in comp) for comp in stratify(p["rules"]))
        exprs[0] = "(validate %s %s %s && stratified %s)" % (arities, hir_prog, plan, strata)
    for inp in inputs:
        f0 = dl.coq_facts(facts_of_input(inp, p["rels"]), R)
        if spec == "strat":
            sp = "strat_fix std_interp %d%%nat %s %s" % (FUEL, strata, f0)
        else:
            sp = "naive_fix std_interp %d%%nat %s %s" % (FUEL, src_rules, f0)
        exprs.append("(option_map rows (run_plan std_interp std_swap %d%%nat %s (init_state %s)), %s)" % (FUEL, plan, f0, sp))
    inv = {v: k for k, v in R.d.items()}
    return exprs, inv


def decode_facts(v, inv):
    """parsed Coq value of type option (list fact) -> list of (relname, tuple) or None"""
    if v == "None":
        return None
    assert v[0] == "Some", v
    return [(inv[r], tuple(t)) for (r, t) in v[1]]


def run(prop, cases, macro="ascent", tag=None, coq_timeout=40, spec="naive"):
    """cases: list of dict(id, prog, inputs=[{rel: tuples}]).  Returns per case dict(front, impl, model, spec, valid)."""
    tag = tag or prop.lower()
    texts = {c["id"]: dl.rust_program_text(c["prog"]) for c in cases}
    dumps = prog.front_run([(c["id"], macro, texts[c["id"]]) for c in cases])
    jobs = []
    for c in cases:
        scripts = [[("set", inp), ("run",), ("snap",)] for inp in c["inputs"]]
        jobs.append(dict(id=c["id"], text=dl.rust_program_text(dict(c["prog"], attrs=[])), attrs=c["prog"].get("attrs", []), macro=macro, rels=c["prog"]["rels"], scripts=scripts))
    impl = prog.build_and_run(tag, jobs)
    groups, gids, invs = [], [], {}
    parse_errors = {}
    for c in cases:
        d = dumps.get(c["id"])
        if d is None or d.get("status") != "ok" or "sccs" not in d:
            continue
        try:
            ex, inv = model_exprs(c["prog"], d, c["inputs"], spec)
        except (dl.ParseError, AssertionError, KeyError, IndexError) as e:
            parse_errors[c["id"]] = repr(e)
            continue
        invs[c["id"]] = inv
        groups.append(ex)
        gids.append(c["id"])
    vals = lib.coq_eval_groups(tag, PRELUDE, groups, timeout=coq_timeout)
    by, skipped = {}, set()
    for cid, v in zip(gids, vals):
        if v is None:
            skipped.add(cid)
        else:
            by[cid] = dict(enumerate(v))
    out = []
    for c in cases:
        d = dumps.get(c["id"], {})
        r = dict(case=c, text=texts[c["id"]], front_status=d.get("status"), front_errors=d.get("errors"),
                 summary=d.get("summary"), impl=impl.get(c["id"]), parse_error=parse_errors.get(c["id"]), valid=None, model=None, spec=None, skipped=(c["id"] in skipped))
        if c["id"] in by:
            vs = by[c["id"]]
            r["valid"] = vs[0]
            r["model"], r["spec"] = [], []
            for k in range(len(c["inputs"])):
                m, s = vs[k + 1]
                r["model"].append(decode_facts(m, invs[c["id"]]))
                r["spec"].append(decode_facts(s, invs[c["id"]]))
        out.append(r)
    return out


def compare_case(r, check_counts=True):
    """mismatch dicts for one case (see gen/runner.py)"""
    mism = []
    c = r["case"]
    rels = c["prog"]["rels"]
    base = dict(program=r["text"], id=c["id"])
    if r["front_status"] != "ok":
        mism.append(dict(case=dict(base), impl=dict(front=r["front_status"], errors=r["front_errors"]), model=None, spec="well-formed program: must compile",
                         kind="impl_violates_spec", known=None, what="front end rejects / panics on a well-formed generated program: %s %s" % (r["front_status"], r["front_errors"])))
        return mism
    if r.get("skipped"):
        return mism      # model evaluation exceeded its time budget: the case is not counted (reported in evidence)
    if r["parse_error"]:
        raise lib.Infra("cannot translate the dumped plan of %s: %s\n%s" % (c["id"], r["parse_error"], r["text"]))
    for k, inp in enumerate(c["inputs"]):
        cs = dict(base, input=inp)
        iv = r["impl"][k] if r["impl"] else None
        if iv is None or "snaps" not in iv:
            mism.append(dict(case=cs, impl=iv, model=None, spec=None, kind="impl_violates_spec", known=None,
                             what="implementation did not produce a result (compile error / panic / timeout): %s" % json.dumps(iv)[:300]))
            continue
        isnap = prog.canon_snap(iv["snaps"][-1])
        spec = r["spec"][k]
        model = r["model"][k]
        if spec is None:
            raise lib.Infra("specification oracle ran out of fuel on %s" % c["id"])
        sg = group_facts(spec, rels)
        for name, _, _ in rels:
            ilen, iset = isnap[name]
            if iset != sg[name][1] or (check_counts and ilen != len(sg[name][1])):
                miss = [t for t in sg[name][1] if t not in iset]
                extra = [t for t in iset if t not in sg[name][1]]
                mism.append(dict(case=cs, impl={name: dict(len=ilen, tuples=iset)}, model=None, spec={name: sg[name][1]},
                                 kind="impl_violates_spec", known=None,
                                 what="relation %s after run(): %d rows; missing %s; not derivable %s" % (name, ilen, miss[:5], extra[:5])))
                break
        else:
            if model is None:
                mism.append(dict(case=cs, impl="agrees with the least model", model="out of fuel", spec=None, kind="model_differs", known=None,
                                 what="correspondence Engine/Eval.v run_plan vs generated code: model did not terminate"))
                continue
            mg = group_facts(model, rels)
            for name, _, _ in rels:
                ilen, iset = isnap[name]
                if iset != mg[name][1] or (check_counts and ilen != mg[name][0]):
                    mism.append(dict(case=cs, impl={name: dict(len=ilen, tuples=iset)}, model={name: mg[name]}, spec="implementation agrees with the least model",
                                     kind="model_differs", known=None, what="correspondence Engine/Eval.v run_plan vs generated code (relation %s)" % name))
                    break
    if r["valid"] is not True:
        mism.append(dict(case=dict(base, summary=r["summary"]), impl="plan computed by the macro", model="validate = %s" % r["valid"], spec=None,
                         kind="model_differs", known=None,
                         what="the plan dumped from the macro is rejected by the proved-sound validator (Engine/Validate.v validate): soundness theorem no longer applies to this program"))
    return mism


# ------------------------------------------------------------------ histories (C13 / C14 / C05)

PRELUDE_H = PRELUDE.replace("Engine.Strat.", "Engine.Strat Engine.Rerun.")


def script_exprs(p, dump, scripts, spec="naive"):
    """scripts: list of [('set', inp) | ('push', inp) | ('run',)] -> per script one Coq expression
    (model snapshots after every run, spec after every run)"""
    R = dl.Names()
    for name, _, _ in p["rels"]:
        R(name)
    plan, hir_rules = dl.coq_plan(dump, R)
    src_rules = dl.coq_list(dl.coq_rule(r, R) for r in p["rules"])
    hir_prog = dl.coq_list(dl.coq_rule(dict(heads=r["heads"], body=r["body"]), R) for r in hir_rules)
    arities = dl.coq_list("(%s, %s)" % (dl.cnat(R(n)), dl.cnat(a)) for n, a, _ in p["rels"])
    strata = dl.coq_list(dl.coq_list(dl.coq_rule(p["rules"][j], R) for j in comp) for comp in stratify(p["rules"]))
    exprs = ["(validate %s %s %s && stratified %s)" % (arities, hir_prog, plan, strata)]
    for sc in scripts:
        steps, cum, specs = [], [], []
        for st in sc:
            if st[0] in ("set", "push"):
                fs = facts_of_input(st[1], p["rels"])
                cum += fs
                steps.append("SPush %s" % dl.coq_facts(fs, R))
            elif st[0] == "run":
                steps.append("SRun")
                f0 = dl.coq_facts(cum, R)
                if spec == "strat":
                    specs.append("strat_fix std_interp %d%%nat %s %s" % (FUEL, strata, f0))
                else:
                    specs.append("naive_fix std_interp %d%%nat %s %s" % (FUEL, src_rules, f0))
        exprs.append("(run_script std_interp std_swap %d%%nat %s %s (init_state []), %s)" % (FUEL, plan, dl.coq_list(steps), dl.coq_list(specs)))
    inv = {v: k for k, v in R.d.items()}
    return exprs, inv


def run_scripts(prop, cases, macro="ascent", tag=None, coq_timeout=60, spec="naive", threads=None):
    """cases: dict(id, prog, scripts).  Implementation snapshots after every run vs model vs spec."""
    tag = tag or prop.lower()
    texts = {c["id"]: dl.rust_program_text(c["prog"]) for c in cases}
    dumps = prog.front_run([(c["id"], macro, texts[c["id"]]) for c in cases])
    jobs = []
    for c in cases:
        scripts = []
        for sc in c["scripts"]:
            s2 = []
            for st in sc:
                s2.append(st)
                if st[0] == "run":
                    s2.append(("snap",))
            scripts.append(s2)
        jobs.append(dict(id=c["id"], text=texts[c["id"]], macro=macro, rels=c["prog"]["rels"], scripts=scripts, threads=threads))
    impl = prog.build_and_run(tag, jobs)
    groups, gids, invs, parse_errors = [], [], {}, {}
    for c in cases:
        d = dumps.get(c["id"])
        if d is None or d.get("status") != "ok" or "sccs" not in d:
            continue
        try:
            ex, inv = script_exprs(c["prog"], d, c["scripts"], spec)
        except (dl.ParseError, AssertionError, KeyError, IndexError) as e:
            parse_errors[c["id"]] = repr(e)
            continue
        invs[c["id"]] = inv
        groups.append(ex)
        gids.append(c["id"])
    vals = lib.coq_eval_groups(tag, PRELUDE_H, groups, timeout=coq_timeout)
    out = []
    byid = dict(zip(gids, vals))
    for c in cases:
        d = dumps.get(c["id"], {})
        r = dict(case=c, text=texts[c["id"]], front_status=d.get("status"), front_errors=d.get("errors"), summary=d.get("summary"),
                 impl=impl.get(c["id"]), parse_error=parse_errors.get(c["id"]), valid=None, model=None, spec=None,
                 skipped=(c["id"] in byid and byid[c["id"]] is None))
        v = byid.get(c["id"])
        if v:
            inv = invs[c["id"]]
            r["valid"] = v[0]
            r["model"], r["spec"] = [], []
            for k in range(len(c["scripts"])):
                m, s = v[k + 1]
                r["model"].append(None if m == "None" else [[(inv[a], tuple(t)) for (a, t) in snap] for snap in m[1]])
                r["spec"].append([decode_facts(x, inv) for x in s])
        out.append(r)
    return out


def compare_scripts(r, check_counts=True, spec_applies=None):
    """spec_applies(script index, run index) -> bool: whether the property speaks about that snapshot"""
    mism = []
    c = r["case"]
    rels = c["prog"]["rels"]
    base = dict(program=r["text"], id=c["id"])
    if r.get("skipped"):
        return mism
    if r["front_status"] != "ok":
        mism.append(dict(case=dict(base), impl=dict(front=r["front_status"], errors=r["front_errors"]), model=None, spec="well-formed program: must compile",
                         kind="impl_violates_spec", known=None, what="front end rejects / panics on a well-formed generated program: %s %s" % (r["front_status"], r["front_errors"])))
        return mism
    if r["parse_error"]:
        raise lib.Infra("cannot translate the dumped plan of %s: %s\n%s" % (c["id"], r["parse_error"], r["text"]))
    for k, sc in enumerate(c["scripts"]):
        cs = dict(base, script=sc)
        iv = r["impl"][k] if r["impl"] else None
        if iv is None or "snaps" not in iv:
            mism.append(dict(case=cs, impl=iv, model=r["model"][k] if r["model"] else None, spec=None, kind="impl_violates_spec", known=None,
                             what="implementation did not complete the history (compile error / panic / timeout): %s" % json.dumps(iv)[:300]))
            continue
        for j, snap in enumerate(iv["snaps"]):
            isnap = prog.canon_snap(snap)
            spec = r["spec"][k][j]
            if spec is None:
                raise lib.Infra("specification oracle ran out of fuel on %s" % c["id"])
            sg = group_facts(spec, rels)
            bad = None
            if spec_applies is None or spec_applies(k, j):
                for name, _, _ in rels:
                    ilen, iset = isnap[name]
                    if iset != sg[name][1]:
                        bad = (name, ilen, iset, sg[name][1])
                        break
            if bad:
                name, ilen, iset, sset = bad
                mism.append(dict(case=dict(cs, run=j), impl={name: dict(len=ilen, tuples=iset)}, model=None, spec={name: sset}, kind="impl_violates_spec", known=None,
                                 what="relation %s after run #%d of the history: missing %s; extra %s" % (name, j + 1, [t for t in sset if t not in iset][:5], [t for t in iset if t not in sset][:5])))
                break
            model = r["model"][k]
            if model is None:
                mism.append(dict(case=cs, impl="ok", model="out of fuel", spec=None, kind="model_differs", known=None,
                                 what="correspondence Engine/Rerun.v run_script vs generated code: model did not terminate"))
                break
            mg = group_facts(model[j], rels)
            md = None
            for name, _, _ in rels:
                ilen, iset = isnap[name]
                if iset != mg[name][1] or (check_counts and ilen != mg[name][0]):
                    md = name
                    break
            if md:
                mism.append(dict(case=dict(cs, run=j), impl={md: isnap[md]}, model={md: mg[md]}, spec="implementation meets the specification on this snapshot",
                                 kind="model_differs", known=None, what="correspondence Engine/Rerun.v run_script vs generated code (relation %s, run #%d)" % (md, j + 1)))
                break
    if r["valid"] is not True:
        mism.append(dict(case=dict(base, summary=r["summary"]), impl="plan computed by the macro", model="validate = %s" % r["valid"], spec=None,
                         kind="model_differs", known=None, what="the plan dumped from the macro is rejected by Engine/Validate.v validate"))
    return mism
