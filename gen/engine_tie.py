"""Shared tie for the engine properties: FRONT plan dump -> Coq plan; PROG run; model + spec in Coq."""
import json

from . import dl, lib, prog

PRELUDE = ("From Coq Require Import List ZArith Bool.\n"
           "From AV Require Import Engine.Core Engine.Sem Engine.Eval Engine.Vocab Engine.Validate.\n"
           "Import ListNotations.\nOpen Scope Z_scope.\n")
FUEL = 200


def facts_of_input(inp, rels):
    fs = []
    for name, _, _ in rels:
        for t in inp.get(name, []):
            fs.append((name, tuple(t)))
    return fs


def group_facts(facts, rels):
    """list of (rel, tuple) -> {rel: (count, sorted distinct tuples)}"""
    out = {}
    for name, _, _ in rels:
        ts = [t for (r, t) in facts if r == name]
        out[name] = (len(ts), sorted(set(ts), key=repr))
    return out


def model_exprs(p, dump, inputs):
    """Coq expressions: per input (model rows, spec facts), plus once the validator verdict"""
    R = dl.Names()
    for name, _, _ in p["rels"]:
        R(name)
    plan, hir_rules = dl.coq_plan(dump, R)
    src_rules = dl.coq_list(dl.coq_rule(r, R) for r in p["rules"])
    hir_prog = dl.coq_list(dl.coq_rule(dict(heads=r["heads"], body=r["body"]), R) for r in hir_rules)
    arities = dl.coq_list("(%s, %s)" % (dl.cnat(R(n)), dl.cnat(a)) for n, a, _ in p["rels"])
    exprs = ["validate %s %s %s" % (arities, hir_prog, plan)]
    for inp in inputs:
        f0 = dl.coq_facts(facts_of_input(inp, p["rels"]), R)
        exprs.append("(option_map rows (run_plan std_interp std_swap %d%%nat %s (init_state %s)), naive_fix std_interp %d%%nat %s %s)" % (
            FUEL, plan, f0, FUEL, src_rules, f0))
    inv = {v: k for k, v in R.d.items()}
    return exprs, inv


def decode_facts(v, inv):
    """parsed Coq value of type option (list fact) -> list of (relname, tuple) or None"""
    if v == "None":
        return None
    assert v[0] == "Some", v
    return [(inv[r], tuple(t)) for (r, t) in v[1]]


def run(prop, cases, macro="ascent", tag=None, coq_timeout=40):
    """cases: list of dict(id, prog, inputs=[{rel: tuples}]).  Returns per case dict(front, impl, model, spec, valid)."""
    tag = tag or prop.lower()
    texts = {c["id"]: dl.rust_program_text(c["prog"]) for c in cases}
    dumps = prog.front_run([(c["id"], macro, texts[c["id"]]) for c in cases])
    jobs = []
    for c in cases:
        scripts = [[("set", inp), ("run",), ("snap",)] for inp in c["inputs"]]
        jobs.append(dict(id=c["id"], text=texts[c["id"]], macro=macro, rels=c["prog"]["rels"], scripts=scripts))
    impl = prog.build_and_run(tag, jobs)
    groups, gids, invs = [], [], {}
    parse_errors = {}
    for c in cases:
        d = dumps.get(c["id"])
        if d is None or d.get("status") != "ok" or "sccs" not in d:
            continue
        try:
            ex, inv = model_exprs(c["prog"], d, c["inputs"])
        except (dl.ParseError, AssertionError, KeyError, IndexError) as e:
            parse_errors[c["id"]] = repr(e)
            continue
        invs[c["id"]] = inv
        groups.append(ex)
        gids.append(c["id"])
    vals = lib.coq_eval_groups(tag, PRELUDE, groups, timeout=coq_timeout)
    by, skipped = {}, set()
    for cid, v in zip(gids, vals):
        if v is None:
            skipped.add(cid)
        else:
            by[cid] = dict(enumerate(v))
    out = []
    for c in cases:
        d = dumps.get(c["id"], {})
        r = dict(case=c, text=texts[c["id"]], front_status=d.get("status"), front_errors=d.get("errors"),
                 summary=d.get("summary"), impl=impl.get(c["id"]), parse_error=parse_errors.get(c["id"]), valid=None, model=None, spec=None, skipped=(c["id"] in skipped))
        if c["id"] in by:
            vs = by[c["id"]]
            r["valid"] = vs[0]
            r["model"], r["spec"] = [], []
            for k in range(len(c["inputs"])):
                m, s = vs[k + 1]
                r["model"].append(decode_facts(m, invs[c["id"]]))
                r["spec"].append(decode_facts(s, invs[c["id"]]))
        out.append(r)
    return out


def compare_case(r, check_counts=True):
    """mismatch dicts for one case (see gen/runner.py)"""
    mism = []
    c = r["case"]
    rels = c["prog"]["rels"]
    base = dict(program=r["text"], id=c["id"])
    if r["front_status"] != "ok":
        mism.append(dict(case=dict(base), impl=dict(front=r["front_status"], errors=r["front_errors"]), model=None, spec="well-formed program: must compile",
                         kind="impl_violates_spec", known=None, what="front end rejects / panics on a well-formed generated program: %s %s" % (r["front_status"], r["front_errors"])))
        return mism
    if r.get("skipped"):
        return mism      # model evaluation exceeded its time budget: the case is not counted (reported in evidence)
    if r["parse_error"]:
        raise lib.Infra("cannot translate the dumped plan of %s: %s\n%s" % (c["id"], r["parse_error"], r["text"]))
    for k, inp in enumerate(c["inputs"]):
        cs = dict(base, input=inp)
        iv = r["impl"][k] if r["impl"] else None
        if iv is None or "snaps" not in iv:
            mism.append(dict(case=cs, impl=iv, model=None, spec=None, kind="impl_violates_spec", known=None,
                             what="implementation did not produce a result (compile error / panic / timeout): %s" % json.dumps(iv)[:300]))
            continue
        isnap = prog.canon_snap(iv["snaps"][-1])
        spec = r["spec"][k]
        model = r["model"][k]
        if spec is None:
            raise lib.Infra("specification oracle ran out of fuel on %s" % c["id"])
        sg = group_facts(spec, rels)
        for name, _, _ in rels:
            ilen, iset = isnap[name]
            if iset != sg[name][1] or (check_counts and ilen != len(sg[name][1])):
                miss = [t for t in sg[name][1] if t not in iset]
                extra = [t for t in iset if t not in sg[name][1]]
                mism.append(dict(case=cs, impl={name: dict(len=ilen, tuples=iset)}, model=None, spec={name: sg[name][1]},
                                 kind="impl_violates_spec", known=None,
                                 what="relation %s after run(): %d rows; missing %s; not derivable %s" % (name, ilen, miss[:5], extra[:5])))
                break
        else:
            if model is None:
                mism.append(dict(case=cs, impl="agrees with the least model", model="out of fuel", spec=None, kind="model_differs", known=None,
                                 what="correspondence Engine/Eval.v run_plan vs generated code: model did not terminate"))
                continue
            mg = group_facts(model, rels)
            for name, _, _ in rels:
                ilen, iset = isnap[name]
                if iset != mg[name][1] or (check_counts and ilen != mg[name][0]):
                    mism.append(dict(case=cs, impl={name: dict(len=ilen, tuples=iset)}, model={name: mg[name]}, spec="implementation agrees with the least model",
                                     kind="model_differs", known=None, what="correspondence Engine/Eval.v run_plan vs generated code (relation %s)" % name))
                    break
    if r["valid"] is not True:
        mism.append(dict(case=dict(base, summary=r["summary"]), impl="plan computed by the macro", model="validate = %s" % r["valid"], spec=None,
                         kind="model_differs", known=None,
                         what="the plan dumped from the macro is rejected by the proved-sound validator (Engine/Validate.v validate): soundness theorem no longer applies to this program"))
    return mism
