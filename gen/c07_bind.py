"""C07 — family `bindjoin`: a variable bound by a body item BEFORE the first clause of a rule, repeated inside the
FIRST or the SECOND clause (or both) of the two-clause join that follows ("a repeated variable means equality with the
column" — here for a variable that no clause binds).

    res(x, m) <-- agg m = min(v) in w(v), foo(x, y), bar(y, m);          for k in 0..3i32, let m = .., foo(m, y), bar(y, z);

Class of shapes (the general generator never starts a body with a non-clause item, and add_join_repeat / family permjoin
repeat clause-bound variables only):
  * the binder is each kind the language has: `agg` with a min / max / sum result (the aggregated relation read whole, by a
    constant key, or by a key an earlier `for` binds), `agg .. count()` (usize: through `let m = c as i32`), `let`, `if let`,
    `for` (fed by an earlier `for` or by an aggregate result); optionally one more item (a test on the bound variable, a
    second binder) between the binder and the first clause;
  * the next two items are clauses over plain, pairwise distinct variables (the shape of a "simple join": the only place
    where the generated code may iterate the SECOND clause first, chosen at run time from the sizes of the two indices);
    the bound variable sits in the second clause (the join may then not be reordered), in the first (no simple join any
    more), in both, or in neither (control: reordering is legal); zero, one or two further shared (join) variables; an
    optional tail (condition / third clause);
  * inputs: (1) the first relation's join index has MORE keys than the second relation has rows, (2) the reverse, (3) at
    random; in (1) and (2) the clause that repeats the bound variable holds rows whose join columns match a row of the
    other clause and whose repeated column EQUALS the bound value, and rows where it DIFFERS from it.

Oracle: unchanged — the python hand expansion through the real macro (gen/c07_perm.py expand_program_cross: every repeat
of an already-bound variable written out as fresh variable + `if zcN == m`), the Coq direct denotation, the python oracle.
"""
from . import c07_gen as G
from . import c07_oracle as O
from . import dl, gen_dl

DOM = gen_dl.DOM
WIDE = list(range(0, 10))         # join-key values of the large side (more keys than DOM has values)
BINDERS = ["agg_min", "agg_max", "agg_sum", "agg_count", "let", "iflet", "for"]
PLACES_QUICK = ["second", "first", "both", "second"]
PLACES = ["second", "first", "both", "second", "none"]


def V(x):
    return ("v", x)


def shape_of(k, tier):
    places = PLACES_QUICK if tier == "quick" else PLACES
    return BINDERS[k % len(BINDERS)], places[(k // len(BINDERS)) % len(places)]


# ------------------------------------------------------------------ program

def gen_prefix(rng, binder, wname, warity):
    """-> (items, m, other bound variables usable as clause arguments)"""
    items, others = [], []

    def agg(out, an, key_from=None):
        col = rng.randrange(warity) if an != "count" else None
        args, bound = [], []
        for i in range(warity):
            if i == col:
                bound.append("v")
                args.append(("b", "v"))
            elif key_from is not None:
                args.append(("k", V(key_from)))
            elif rng.random() < 0.3:
                args.append(("k", ("c", rng.choice(DOM[:3]))))
            else:
                args.append(("w",))
        return ("agg", out, an, bound, wname, args)

    def source():
        """a value variable for let / if let / for to start from: an earlier `for`, or an aggregate result"""
        if rng.random() < 0.5:
            items.append(("gen", "k", "range3", []))
        else:
            items.append(agg("k", rng.choice(["min", "max", "sum"])))
        others.append("k")
        return "k"

    if binder in ("agg_min", "agg_max", "agg_sum", "agg_count"):
        key = None
        if warity == 2 and rng.random() < 0.35:
            items.append(("gen", "k", "range3", []))
            others.append("k")
            key = "k"
        if binder == "agg_count":
            items.append(agg("c", "count", key))
            items.append(("cond", ("let", "m", "asi32", ["c"])))
        else:
            items.append(agg("m", binder[4:], key))
    elif binder == "let":
        s = source()
        f = rng.choice(["incs", "decs", "mod3", "addm", "max2"])
        items.append(("cond", ("let", "m", f, [s] * dl.FUNS[f][1])))
    elif binder == "iflet":
        s = source()
        items.append(("cond", ("iflet", "m", rng.choice(["predpos", "half"]), [s])))
    else:
        u = rng.random()
        if u < 0.4:
            items.append(("gen", "m", "range3", []))
        else:
            s = source()
            items.append(("gen", "m", "upto", [s]) if u < 0.7 else ("gen", "m", "pair", [s, s]))
    # one more item between the binder and the first clause
    u = rng.random()
    if u < 0.15:
        items.append(("cond", ("if", "le", ["m", "m"]) if rng.random() < 0.5 else ("if", "even", ["m"])))
    elif u < 0.3:
        items.append(("cond", ("let", "n", rng.choice(["incs", "decs"]), ["m"])))
        others.append("n")
    return items, "m", others


def gen_bind_program(rng, k, tier="quick"):
    """-> (program, info)"""
    binder, place = shape_of(k, tier)
    warity = rng.choice([1, 1, 2])
    a1, a2 = rng.choice([2, 2, 3]), rng.choice([2, 2, 3])
    rels = [("w", warity, "rel"), ("f", a1, "rel"), ("g", a2, "rel")]
    prefix, m, others = gen_prefix(rng, binder, "w", warity)
    # ---- first clause: new variables, one column the bound variable for `first` / `both`
    nv = [0]

    def fresh():
        nv[0] += 1
        return "x%d" % nv[0]
    args1 = [fresh() for _ in range(a1)]
    if place in ("first", "both"):
        args1[rng.randrange(a1)] = m
    new1 = [x for x in args1 if x != m]
    # ---- second clause: shared variables of the first clause, the bound variable, new variables / wildcards / another bound variable
    nshared = rng.choice([0, 1, 1, 1, 1, 1, 1, 2, 2]) if place != "none" else rng.choice([1, 1, 2])
    want = rng.sample(new1, min(nshared, len(new1)))
    if place in ("second", "both"):
        want.append(m)
    want = want[:a2]
    if place in ("second", "both") and m not in want:
        want[-1] = m
    cols = rng.sample(range(a2), len(want))
    args2 = [None] * a2
    for c, x in zip(cols, want):
        args2[c] = V(x)
    new2 = []
    for c in range(a2):
        if args2[c] is None:
            u = rng.random()
            if u < 0.3:
                args2[c] = ("w",)
            elif u < 0.45 and others and others[0] not in want:
                args2[c] = V(others[0])
                want.append(others[0])
            else:
                x = fresh()
                args2[c] = V(x)
                new2.append(x)
    scope = [m] + others + new1 + new2
    body = list(prefix) + [("clause", "f", [V(x) for x in args1], []), ("clause", "g", args2, [])]
    u = rng.random()
    if u < 0.1 and len(scope) >= 2:
        body.append(("cond", ("if", rng.choice(["le", "ne"]), rng.sample(scope, 2))))
    elif u < 0.25:
        rels.append(("t", 1, "rel"))
        body.append(("clause", "t", [V(rng.choice(scope))], []))
    ha = rng.choice([1, 2, 2, 3])
    rels.append(("h", ha, "rel"))
    pool = [m] + new1 + new2
    hargs = [V(rng.choice(pool)) for _ in range(ha)]
    if new1:
        hargs[0] = V(rng.choice(new1))          # a column of the first clause that is not the bound variable
    if ha > 1 and rng.random() < 0.75:
        hargs[1] = V(m)
    rng.shuffle(hargs)
    rules = [dict(heads=[("h", hargs)], body=body)]
    src1 = "loaded"
    if rng.random() < 0.25:
        # the first clause's relation derived by a copy rule (same rows, a stratum earlier)
        rels.append(("s", a1, "rel"))
        ys = ["x%d" % (i + 1) for i in range(a1)]
        rules.append(dict(heads=[("f", [V(y) for y in ys])], body=[("clause", "s", [V(y) for y in ys], [])]))
        src1 = "copy"
        rng.shuffle(rules)
    info = dict(binder=binder, place=place, m=m, others=others, prefix=prefix, args1=args1, args2=[t[1] if t[0] == "v" else None for t in args2],
                a1=a1, a2=a2, warity=warity, src1=src1, k=k)
    return dict(rels=rels, rules=rules), info


# ------------------------------------------------------------------ inputs

def prefix_values(info, wrows):
    """the values the items before the first clause give to the bound variables over w = wrows (python oracle's item
    semantics; used only to AIM the inputs)"""
    return O.all_envs({"w": set(wrows)}, info["prefix"], {})


def rows_of(rng, arity, n, dom):
    out = []
    for _ in range(6 * n):
        t = tuple(rng.choice(dom) for _ in range(arity))
        if t not in out:
            out.append(t)
        if len(out) >= n:
            break
    return out


def join_vars(info):
    return [x for x in info["args1"] if x in info["args2"] and x != info["m"]]


def keys1(info, rows):
    """distinct keys of the first clause's join index (the columns whose variables the second clause mentions)"""
    cols = [i for i, x in enumerate(info["args1"]) if x in info["args2"]]
    return len({tuple(t[i] for i in cols) for t in rows})


def keys2(info, rows):
    """distinct keys of the second clause's index (columns bound before it is reached in the written order)"""
    cols = [i for i, x in enumerate(info["args2"]) if x is not None and (x in info["args1"] or x == info["m"] or x in info["others"])]
    return len({tuple(t[i] for i in cols) for t in rows})


def bind_inputs(rng, p, info):
    ar = {n: a for n, a, _ in p["rels"]}
    m = info["m"]
    out = []
    for variant in (1, 2):
        inp = {n: [] for n in ar}
        envs = []
        for _ in range(8):
            wrows = rows_of(rng, ar["w"], rng.choice([2, 3, 5]), DOM)
            envs = prefix_values(info, wrows)
            if envs:
                break
        inp["w"] = wrows
        good = sorted({e[m] for e in envs})
        bad = [v for v in range(0, 9) if v not in good]
        big1 = variant == 1

        def val(x, e, row1, want_m):
            if x == m:
                return want_m
            if row1 is not None and x in info["args1"]:
                return row1[info["args1"].index(x)]
            if e is not None and x in e:
                return e[x]
            return rng.choice(DOM)

        def row_f(e, want_m, dom):
            return tuple(val(x, e, None, want_m) if x == m else rng.choice(dom) for x in info["args1"])

        def row_g(e, row1, want_m):
            return tuple(val(x, e, row1, want_m) if x is not None else rng.choice(DOM) for x in info["args2"])
        n1 = rng.choice([9, 11, 14]) if big1 else rng.choice([1, 2, 3])
        n2 = rng.choice([2, 3, 4]) if big1 else rng.choice([9, 11, 14])
        dom1 = WIDE if big1 else DOM
        f_rows, g_rows = [], []
        e0 = rng.choice(envs) if envs else None
        gm = e0[m] if e0 else rng.choice(DOM)
        bm = rng.choice(bad)
        # the first relation: r0 (it gets a partner with the bound value and one with another value), r1 (differs from r0 in
        # every column; partners with another value only), then rows at random
        r0 = row_f(e0, gm, dom1)
        r1 = tuple(bm if x == m else rng.choice([v for v in dom1 if v != r0[i]]) for i, x in enumerate(info["args1"]))
        f_rows += [r0, r1]
        if big1:
            # many distinct join keys
            jc = [i for i, x in enumerate(info["args1"]) if x in info["args2"] and x != m] or [i for i, x in enumerate(info["args1"]) if x != m]
            for v in WIDE:
                t = list(row_f(e0, rng.choice([gm, gm, bm]), dom1))
                t[jc[0]] = v
                f_rows.append(tuple(t))
        f_rows += [row_f(e0, rng.choice([gm, bm, rng.choice(DOM)]), dom1) for _ in range(max(0, n1 - len(f_rows)))]
        f_rows = list(dict.fromkeys(f_rows))
        # the second relation: partners of r0 with the bound value and with another value, of r1 with another value only
        g_rows += [row_g(e0, r0, gm), row_g(e0, r0, bm), row_g(e0, r1, bm)]
        while len(g_rows) < n2:
            r = rng.choice(f_rows[2:] or f_rows)
            g_rows.append(row_g(rng.choice(envs) if envs else None, r if rng.random() < 0.6 else None, rng.choice([gm, bm, rng.choice(DOM)])))
        g_rows = list(dict.fromkeys(g_rows))
        inp["s" if info["src1"] == "copy" else "f"] = f_rows
        inp["g"] = g_rows
        if "t" in ar:
            inp["t"] = [(v,) for v in rng.sample(WIDE, rng.choice([6, 8, 9]))]
        if rng.random() < 0.2:
            inp["h"] = rows_of(rng, ar["h"], 1, DOM)
        out.append(inp)
    out.append(gen_dl.gen_input(rng, p["rels"], style=rng.choice(["mixed", "dense", "small"]))[0])
    return out


# ------------------------------------------------------------------ coverage

def without_test(p, info, rebind):
    """the program in which the repeats of the bound variable inside the two clauses are NOT tests but fresh variables
    (rebind=False), or fresh variables that also SHADOW the bound variable for the rest of the rule, head included
    (rebind=True: what a loop that binds the column instead of comparing it computes)"""
    m = info["m"]
    rules = []
    for r in p["rules"]:
        if not r["body"] or r["body"][0][0] == "clause":        # (the joining rule starts with a non-clause item)
            rules.append(r)
            continue
        body, cur, n = [], m, 0
        for it in r["body"]:
            if cur != m:
                it = G.rename_rule(dict(heads=[], body=[it]), lambda x: cur if x == m else x)["body"][0]
            if it[0] == "clause" and it[1] in ("f", "g"):
                args = []
                for t in it[2]:
                    if t == V(cur if rebind else m):
                        n += 1
                        z = "zlost%d" % n
                        args.append(V(z))
                        if rebind:
                            cur = z
                    else:
                        args.append(t)
                it = ("clause", it[1], args, it[3])
            body.append(it)
        heads = r["heads"] if cur == m else G.rename_rule(dict(heads=r["heads"], body=[]), lambda x: cur if x == m else x)["heads"]
        rules.append(dict(heads=heads, body=body))
    return dict(rels=p["rels"], rules=rules)


def test_decides(spec_prog, info, inp, spec_h):
    want = sorted(tuple(t) for t in spec_h)
    for rebind in (False, True):
        if sorted(tuple(t) for t in O.evaluate(without_test(spec_prog, info, rebind), inp)["h"]) != want:
            return True
    return False


def note(c, inp, spec_sets, stats):
    """per (program, input) evaluated on all sides:  bindjoin:<binder>:<place of the repeat>:<first clause's join index has
    more keys than the second clause's index | not>:<the equality test decides the result on this input | not>"""
    info = c.get("bind_info")
    if not info:
        return
    order = "idx1_larger" if keys1(info, spec_sets["f"]) > keys2(info, spec_sets["g"]) else "idx1_not_larger"
    matters = "-"
    if info["place"] != "none":
        try:
            matters = "test_decides" if test_decides(c["spec"], info, inp, spec_sets["h"]) else "test_idle"
        except O.Fuel:
            pass
    stats["bindjoin:%s:%s:%s:%s" % (info["binder"], info["place"], order, matters)] += 1
