"""python3 -m gen.mk Dir/File.vo ...  — make Coq targets under the build lock"""
import sys
from . import lib

if __name__ == "__main__":
    with lib.Lock("coq"):
        lib.coq_makefile()
        rc, out = lib.sh(["timeout", "1500", "make", "-j%d" % lib.NCPU] + sys.argv[1:], cwd=lib.COQ, timeout=1600)
    print(out[-6000:])
    sys.exit(rc)
