"""C12, PROG half: generated programs in which a relation tagged #[ds(ascent_byods_rels::trrel_uf)] is
written and read in head / body positions, with every subset of its columns bound, in non-recursive and
recursive strata.  Each program exists twice: `tagged` (the provider) and `explicit` (a plain relation plus
the reflexivity / transitivity rules).  Expected result = the specification oracle (Engine/Sem.v naive_fix,
proved to compute the least model, cross-checked by a python naive evaluator) on the explicit program.
"""
from . import dl, engine_tie, lib, prog

PROVIDER = "ascent_byods_rels::trrel_uf"
DOM = [0, 1, 2, 3, 4, 5]


def V(x):
    return ("v", x)


def clause(rel, args):
    return ("clause", rel, [V(a) if isinstance(a, str) else ("c", a) for a in args], [])


def rule(heads, body):
    return dict(heads=[(h[0], [V(a) if isinstance(a, str) else ("c", a) for a in h[1]]) for h in heads], body=body)


def closure_rules(tern):
    k = ["k"] if tern else []
    return [
        rule([("tr", k + ["x", "x"]), ("tr", k + ["y", "y"])], [clause("tr", k + ["x", "y"])]),
        rule([("tr", k + ["x", "z"])], [clause("tr", k + ["x", "y"]), clause("tr", k + ["y", "z"])]),
    ]


def gen_program(rng, tern, force=None):
    """returns dict(rels_in, rels_out, rules (without closure rules), features)"""
    k = ["k"] if tern else []
    A = 3 if tern else 2
    rels_in = [("e", A), ("f", A), ("p", 1), ("q", 2), ("gate", 1)]
    if tern:
        rels_in += [("pk", 1), ("g3", 3)]
    outs = []
    rules = [rule([("tr", k + ["x", "y"])], [clause("e", k + ["x", "y"])])]
    feats = set()
    recursive = False
    # ---- producers inside a recursive stratum
    prods = force.get("prods") if force else None
    nonrec = force is None and rng.random() < 0.35       # a third of the programs use tr only non-recursively
    if prods is None:
        prods = [] if nonrec else [x for x in ["reach", "step", "sym", "refl", "selfnew"] if rng.random() < 0.3]
    if "reach" in prods:
        # tr(x,y) <-- r(x), f(x,y);  r(y) <-- tr(x,y): facts of tr arrive over many iterations, keys pause and resume
        outs.append(("r", 1))
        rels_in.append(("r0", 1))
        rules.append(rule([("r", ["x"])], [clause("r0", ["x"])]))
        rules.append(rule([("tr", k + ["x", "y"])], [clause("r", ["x"]), clause("f", k + ["x", "y"])]))
        rules.append(rule([("r", ["y"])], [clause("tr", k + ["x", "y"])]))
        recursive = True
    if "step" in prods:
        # tr(x,z) <-- f(x,y), tr(y,z): reads tr with its first element column bound, recursively
        rules.append(rule([("tr", k + ["x", "z"])], [clause("f", k + ["x", "y"]), clause("tr", k + ["y", "z"])]))
        recursive = True
    if "sym" in prods:
        # tr(y,x) <-- tr(x,y), p(x): back edges -> classes collapse while a delta exists
        rules.append(rule([("tr", k + ["y", "x"])], [clause("tr", k + ["x", "y"]), clause("p", ["x"])]))
        recursive = True
    if "refl" in prods:
        # s(x) <-- tr(x,x);  tr(x,y) <-- s(x), f(x,y): needs the reflexive tuple of a newly mentioned element
        outs.append(("s", 1 + len(k)))
        rules.append(rule([("s", k + ["x"])], [clause("tr", k + ["x", "x"])]))
        rules.append(rule([("tr", k + ["x", "y"])], [clause("s", k + ["x"]), clause("f", k + ["x", "y"])]))
        recursive = True
    if "selfnew" in prods:
        # tr(z,z) <-- tr(x,y), f(y,z): a reflexive tuple of a possibly new element is inserted inside the recursive stratum
        rules.append(rule([("tr", k + ["z", "z"])], [clause("tr", k + ["x", "y"]), clause("f", k + ["y", "z"])]))
        recursive = True
    feats |= set(prods)
    # ---- readers: one per subset of bound columns (a sample of them), each in a non-recursive or a recursive stratum
    if tern:
        subsets = [(), (0,), (1,), (2,), (0, 1), (0, 2), (1, 2), (0, 1, 2), "rep", "const", "join"]
    else:
        subsets = [(), (0,), (1,), (0, 1), "rep", "const", "join"]
    chosen = force.get("readers") if force else None
    if chosen is None:
        n = rng.choice([2, 3, 4, 5])
        chosen = [(rng.choice(subsets), (not nonrec) and rng.random() < 0.4) for _ in range(n)]
    cols = k + ["x", "y"]
    for j, (sub, rec) in enumerate(chosen):
        name = "o%d" % j
        if sub == "rep":
            outs.append((name, 1 + len(k)))
            hd = (name, k + ["x"])
            body = [clause("tr", k + ["x", "x"])]
            if rng.random() < 0.5:
                body = [clause("p", ["x"])] + body
        elif sub == "const":
            c = rng.choice(DOM[:4])
            outs.append((name, 1 + len(k)))
            hd = (name, k + ["y"])
            body = [clause("tr", k + [c, "y"])] if rng.random() < 0.5 else [clause("tr", k + ["y", c])]
        elif sub == "join":
            outs.append((name, 2 + len(k)))
            hd = (name, k + ["x", "z"])
            body = [clause("tr", k + ["x", "y"]), clause("tr", k + ["y", "z"]), clause("p", ["y"])]
        else:
            outs.append((name, A))
            hd = (name, cols)
            bound = [cols[i] for i in sub]
            if len(bound) == 0:
                sel = []
            elif len(bound) == 1:
                sel = [clause("pk" if (tern and sub == (0,)) else "p", bound)]
            elif len(bound) == 2:
                sel = [clause("q", bound)]
            else:
                sel = [clause("g3", bound)]
            body = sel + [clause("tr", cols)]
            feats.add("cols" + "".join(str(i) for i in sub))
        rules.append(rule([hd], body))
        if rec:
            # pull the reader into tr's stratum: tr(..) <-- o(..), gate(x) adds nothing new (o is a subset of tr) when
            # the head repeats the reader's columns, but makes tr and o mutually recursive
            if sub in ("rep", "const", "join"):
                if sub == "join":
                    rules.append(rule([("tr", k + ["x", "z"])], [clause(name, k + ["x", "z"]), clause("gate", ["x"])]))
                elif sub == "rep":
                    rules.append(rule([("tr", k + ["x", "x"])], [clause(name, k + ["x"]), clause("gate", ["x"])]))
                else:
                    rules.append(rule([("tr", k + ["y", "y"])], [clause(name, k + ["y"]), clause("gate", ["y"])]))
            else:
                rules.append(rule([("tr", cols)], [clause(name, cols), clause("gate", ["x"])]))
            recursive = True
            feats.add("recursive_reader")
    if recursive:
        feats.add("recursive")
    feats.add("ternary" if tern else "binary")
    return dict(tern=tern, rels_in=rels_in, rels_out=outs, rules=rules, features=sorted(feats, key=str))


def gen_input(rng, p):
    tern = p["tern"]
    inp = {}
    style = rng.choice(["chain", "cycle", "random", "two_keys", "empty_tr"])
    nk = rng.choice([1, 2, 3]) if tern else 1

    def edges(n, st):
        out = []
        start = rng.choice([0, 1])
        for i in range(n):
            if st == "chain":
                x, y = start + i, start + i + 1
            elif st == "cycle":
                m = max(2, n)
                x, y = start + i % m, start + (i + 1) % m
            else:
                x, y = rng.choice(DOM), rng.choice(DOM)
            x, y = x % 6, y % 6
            if tern:
                out.append((rng.randrange(nk), x, y))
            else:
                out.append((x, y))
        return sorted(set(out))
    st = "random" if style in ("two_keys", "empty_tr") else style
    inp["e"] = [] if style == "empty_tr" else edges(rng.choice([1, 2, 3, 4, 5]), st)
    inp["f"] = edges(rng.choice([0, 1, 2, 3, 4, 6]), rng.choice(["chain", "random", "cycle"]))
    inp["p"] = sorted({(rng.choice(DOM),) for _ in range(rng.choice([0, 1, 2, 4]))})
    inp["q"] = sorted({(rng.choice(DOM[:4]), rng.choice(DOM[:4])) for _ in range(rng.choice([0, 1, 3, 6]))})
    inp["gate"] = sorted({(rng.choice(DOM),) for _ in range(rng.choice([0, 0, 1, 3]))})
    if tern:
        inp["pk"] = sorted({(rng.randrange(3),) for _ in range(rng.choice([0, 1, 2]))})
        inp["g3"] = sorted({(rng.randrange(3), rng.choice(DOM[:4]), rng.choice(DOM[:4])) for _ in range(rng.choice([0, 2, 5, 9]))})
    if any(n == "r0" for n, _ in p["rels_in"]):
        inp["r0"] = sorted({(rng.choice(DOM[:3]),) for _ in range(rng.choice([1, 1, 2]))})
    return {n: inp.get(n, []) for n, _ in p["rels_in"]}


def asts(p):
    """(tagged program AST, explicit program AST) in gen/dl.py's format"""
    A = 3 if p["tern"] else 2
    base = [(n, a, "rel") for n, a in p["rels_in"]] + [(n, a, "rel") for n, a in p["rels_out"]]
    tagged = dict(rels=base + [("tr", A, ("ds", PROVIDER))], rules=p["rules"])
    explicit = dict(rels=base + [("tr", A, "rel")], rules=p["rules"] + closure_rules(p["tern"]))
    return tagged, explicit


# ------------------------------------------------------------------ python naive evaluator (cross-check of the Coq oracle)

def py_eval(rules, facts, block=None):
    """least model of rules whose terms are variables and constants; facts: {rel: set of tuples};
    block(rel, tuple) = True suppresses a head tuple (least fixed point of the filtered, still monotone, operator)"""
    db = {r: set(ts) for r, ts in facts.items()}
    changed = True
    while changed:
        changed = False
        for r in rules:
            envs = [{}]
            for it in r["body"]:
                _, rel, args, _ = it
                nxt = []
                for env in envs:
                    for t in db.get(rel, ()):
                        e2 = dict(env)
                        ok = True
                        for a, v in zip(args, t):
                            if a[0] == "c":
                                ok = a[1] == v
                            else:
                                if a[1] in e2:
                                    ok = e2[a[1]] == v
                                else:
                                    e2[a[1]] = v
                            if not ok:
                                break
                        if ok:
                            nxt.append(e2)
                envs = nxt
            for env in envs:
                for rel, args in r["heads"]:
                    t = tuple(a[1] if a[0] == "c" else env[a[1]] for a in args)
                    if block is not None and block(rel, t):
                        continue
                    if t not in db.setdefault(rel, set()):
                        db[rel].add(t)
                        changed = True
    return db


def coq_spec_exprs(explicit, inputs):
    R = dl.Names()
    for name, _, _ in explicit["rels"]:
        R(name)
    rules = dl.coq_list(dl.coq_rule(r, R) for r in explicit["rules"])
    exprs = []
    for inp in inputs:
        f0 = dl.coq_facts(engine_tie.facts_of_input(inp, explicit["rels"]), R)
        exprs.append("naive_fix std_interp %d%%nat %s %s" % (engine_tie.FUEL, rules, f0))
    return exprs, {v: k for k, v in R.d.items()}


def run(cases, tag="c12"):
    """cases: list of dict(id, p, inputs).  Returns per case dict(case, tagged=[per input result], explicit=[..], spec=[{rel: set}], spec_src)"""
    jobs = []
    for c in cases:
        tagged, explicit = asts(c["p"])
        snap_rels = [(n, a, "rel") for n, a in c["p"]["rels_out"]]
        scripts = [[("set", inp), ("run",), ("snap",)] for inp in c["inputs"]]
        jobs.append(dict(id=c["id"] + "_t", text=dl.rust_program_text(tagged), macro="ascent", rels=snap_rels, scripts=scripts))
        jobs.append(dict(id=c["id"] + "_x", text=dl.rust_program_text(explicit), macro="ascent", rels=snap_rels + [("tr", 3 if c["p"]["tern"] else 2, "rel")], scripts=scripts))
    impl = prog.build_and_run(tag, jobs)
    groups, invs = [], []
    for c in cases:
        _, explicit = asts(c["p"])
        ex, inv = coq_spec_exprs(explicit, c["inputs"])
        groups.append(ex)
        invs.append(inv)
    vals = lib.coq_eval_groups(tag, engine_tie.PRELUDE, groups, timeout=60)
    out = []
    for c, v, inv in zip(cases, vals, invs):
        _, explicit = asts(c["p"])
        specs, src = [], []
        for j, inp in enumerate(c["inputs"]):
            py = py_eval(explicit["rules"], {n: set(map(tuple, ts)) for n, ts in inp.items()})
            py = {r: set(ts) for r, ts in py.items()}
            cq = None
            if v is not None and v[j] != "None":
                fs = engine_tie.decode_facts(v[j], inv)
                cq = {}
                for r, t in fs:
                    cq.setdefault(r, set()).add(tuple(t))
                for r in set(py) | set(cq):
                    if py.get(r, set()) != cq.get(r, set()):
                        raise lib.Infra("C12 oracle cross-check failed on %s input %d relation %s: python %s, Coq naive_fix %s" % (
                            c["id"], j, r, sorted(py.get(r, set()))[:8], sorted(cq.get(r, set()))[:8]))
            specs.append(py)
            src.append("coq+python" if cq is not None else "python")
        out.append(dict(case=c, tagged=impl.get(c["id"] + "_t"), explicit=impl.get(c["id"] + "_x"), spec=specs, spec_src=src,
                        text=dl.rust_program_text(asts(c["p"])[0])))
    return out


def snap_sets(res):
    """result of one script -> {rel: set of tuples} or ('panic', msg) / ('error', msg)"""
    if res is None:
        return ("error", "no result")
    if "panic" in res:
        return ("panic", res["panic"])
    if "snaps" not in res:
        return ("error", str(res)[:300])
    snap = prog.canon_snap(res["snaps"][-1])
    return {rel: (set(v[1]), v[0]) for rel, v in snap.items()}


def rev_view_rules(p):
    """indices of the rules with a body clause reading the ternary tr through index [1], [2] or [1,2] (key column free)"""
    out = []
    if not p["tern"]:
        return out
    for ri, r in enumerate(p["rules"]):
        bound = set()
        for bi, it in enumerate(r["body"]):
            if it[1] == "tr":
                b = [i for i, t in enumerate(it[2]) if t[0] == "c" or (t[0] == "v" and t[1] in bound)]
                if bi == 0 and len(r["body"]) >= 2:
                    # simple join (ascent_hir.rs): the first clause is indexed on the columns whose variables occur in the second
                    nxt = {t[1] for t in r["body"][1][2] if t[0] == "v"}
                    b = [i for i, t in enumerate(it[2]) if t[0] == "c" or (t[0] == "v" and t[1] in nxt)]
                if (1 in b or 2 in b) and 0 not in b:
                    out.append(ri)
            for t in it[2]:
                if t[0] == "v":
                    bound.add(t[1])
    return sorted(set(out))


def tainted_rels(p):
    """relations whose content can depend on a reverse-map view of the ternary relation"""
    t = set()
    for ri in rev_view_rules(p):
        t |= {h[0] for h in p["rules"][ri]["heads"]}
    changed = True
    while changed:
        changed = False
        for r in p["rules"]:
            if any(it[1] in t for it in r["body"]):
                for h in r["heads"]:
                    if h[0] not in t:
                        t.add(h[0])
                        changed = True
    return t


def lower_bound(p, inp):
    """least model of the explicit program in which the reflexive tuple tr(x,x) of an element x exists only if x is
    mentioned by a tuple that enters tr in the first iteration of its stratum (here: the tuples of e, per key);
    every other tr(x,x) is suppressed, also when a cycle implies it.  The known defect new_reflexive_not_in_delta
    can only lose derivations that need the reflexive tuple of a later element, so the real result must contain
    this model."""
    tern = p["tern"]
    early = set()
    for t in inp.get("e", []):
        if tern:
            early |= {(t[0], t[1]), (t[0], t[2])}
        else:
            early |= {(t[0],), (t[1],)}

    def block(rel, t):
        return rel == "tr" and t[-1] == t[-2] and tuple(t[:-1]) not in early
    rules = list(p["rules"]) + closure_rules(tern)
    return py_eval(rules, {n: set(map(tuple, ts)) for n, ts in inp.items()}, block)


def classify(p, inp, kind, msg=None, got=None, spec=None):
    """the known class of a PROG-level mismatch, or None.  The classes are the ones established at the provider
    level by the DS half (where the matchers are exact); here they are recognised by the panic message together with
    the program feature the defect needs, or - for wrong results - by: nothing outside the specification is derived,
    every relation that differs either depends on a reverse-map view of the ternary adaptor, or still contains the
    least model computed without the reflexive tuples of late elements."""
    f = set(p["features"])
    uses_rev = bool(rev_view_rules(p))
    if kind == "panic":
        if "total.is_empty()" in msg and p["tern"] and "recursive" in f:
            return "ternary_resume_assert"
        if "divide by zero" in msg and p["tern"] and uses_rev:
            return "ternary_len_estimate_div_by_zero"
        if "Option::unwrap()" in msg and p["tern"] and "recursive" in f and uses_rev:
            return "ternary_dropped_delta_unwrap"
        return None
    if kind == "diff":
        taint = tainted_rels(p)
        rels = [n for n, _ in p["rels_out"]]
        if any(got[r] - spec.get(r, set()) for r in rels):
            return None
        differing = [r for r in rels if got[r] != spec.get(r, set())]
        clean = [r for r in differing if r not in taint]
        if not clean:
            return "ternary_reverse_map_views"
        if "recursive" in f:
            lb = lower_bound(p, inp)
            if all(lb.get(r, set()) <= got[r] for r in clean):
                return "new_reflexive_not_in_delta"
    return None
