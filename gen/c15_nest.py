"""C15 — the POSITION of an `include_source!` nested in the body of an `ascent_source!` as a generated dimension.

"ascent_sources cannot contain include_source!" is decided by `ascent_source!` itself (ascent_macro/src/lib.rs ascent_source_impl: the
body is parsed by parse_ascent_program and the Either::Right outcome is the error), i.e. when the SOURCE is defined — the four program
macros never see it (they would expand the nested include transitively).  The in-process FRONT driver (verif_hook.rs) calls ascent_impl
only, so this class exists at the level of rustc only: generated crates whose `ascent_source!` definition must FAIL to compile with the
dedicated message located inside the text of the definition.

A case = a well-formed generated host program + a source body (synthesised items of every kind, or a slice of the host's own items)
included at a chosen host position + ONE nested include (of a well-formed inner source) at a chosen item position of the body:

    prev      the item directly in front of the nested include: none (first item) | relation | lattice | rule | fact | macro definition |
              another include | a relation carrying an attribute (doc / allow / ds / cfg)
    nmac      0..3 macro definitions among the items in front of it (directly in front when prev = macro; earlier otherwise)
    post      0..2 items after it (0 = the nested include is the last item of the body)
    host      the source is included as the first / a middle / the last item of the host
    kind      ascent | ascent_par | ascent_run | ascent_run_par
    inc_attrs the nested include itself carries an attribute (then the parser's "unexpected attribute(s)" comes first)

Apart from the nested include every case is a program that compiles and runs (the inner source declares one relation), so a front end
that lets the nested include through yields a crate that builds: the failing input is the crate text.  The oracle is the property:
every such program is ill-formed, whatever the position."""
import copy

from . import c15_ast as A

PREVS = ["first", "rel", "lattice", "rule", "fact", "macro", "include", "rel_doc", "rel_allow", "rel_ds", "rel_cfg"]
HOSTS = ["first", "middle", "last"]
BASE_REL = "c15n_r"          # declared in the HOST: the synthesised rules / facts / macros of the source body talk about it
INNER = "c15n_inner"
OUTER = "c15n_src"
OTHER = "c15n_other"


class NoSite(Exception):
    pass


class Supply:
    def __init__(self):
        self.n = 0

    def __call__(self, stem):
        self.n += 1
        return "c15n_%s%d" % (stem, self.n)


def synth(kind, fresh, rng):
    """one well-formed item of the given kind (names unique to the case)"""
    if kind == "rel":
        return ("rel", fresh("a"), ["i32"] * rng.choice([1, 2]), False, [])
    if kind == "lattice":
        return ("rel", fresh("l"), ["i32"], True, [])
    if kind == "rule":
        return ("rule", 0, dict(heads=[(BASE_REL, [("v", "x")])], body=[("clause", BASE_REL, [("v", "x")], [])]))
    if kind == "fact":
        return ("rule", 0, dict(heads=[(BASE_REL, [("c", rng.randrange(1, 9))])], body=[]))
    if kind == "macro":
        return ("macro", 0, fresh("m"), ["p0"], [("clause", BASE_REL, [("v", "p0")], [])])
    if kind.startswith("rel_"):
        return ("rel", fresh("a"), ["i32"], False, [kind[4:]])
    raise ValueError(kind)


PLAIN_KINDS = ["rel", "lattice", "rule", "fact", "rel_doc", "rel_allow"]


def build(rng, base, prev, nmac, post, host, inc_attrs=(), body_from_host=False, q=None):
    """(program, expectation) — base is not modified"""
    p = copy.deepcopy(base)
    if p.get("sources"):
        raise NoSite()
    fresh = Supply()
    items = p["items"]
    nested = ("include", list(inc_attrs) if inc_attrs else 0, INNER)
    if body_from_host:
        # the body is a slice of the host's own items (whatever kinds the generator produced there); nested include at position q of it
        if len(items) < 3:
            raise NoSite()
        a = rng.randrange(len(items) - 1)
        b = min(len(items), a + rng.choice([2, 3, 4]))
        body = items[a:b]
        q = rng.randrange(len(body) + 1) if q is None else min(q, len(body))
        front, back = body[:q], body[q:]
        rest = items[:a] + [None] + items[b:]
        prev_kind = "first" if not front else {"rel": "lattice" if front[-1][0] == "rel" and front[-1][3] else "rel"}.get(front[-1][0], front[-1][0])
        if front and front[-1][0] == "rule" and not front[-1][2]["body"]:
            prev_kind = "fact"
        if front and front[-1][0] == "rel" and front[-1][4]:
            prev_kind = "rel_attr"
        nm = sum(1 for it in front if it[0] == "macro")
        body = front + [nested] + back
        where = rest.index(None)
        p["items"] = rest[:where] + [("include", 0, OUTER)] + rest[where + 1:]
        p["items"].insert(rng.randrange(len(p["items"]) + 1), ("rel", BASE_REL, ["i32"], False, []))
        host = "slice"
        npost = len(back)
    else:
        front = []
        macros = [synth("macro", fresh, rng) for _ in range(nmac)]
        if prev == "macro":
            if nmac < 1:
                raise ValueError("prev = macro needs nmac >= 1")
            front += [synth(rng.choice(PLAIN_KINDS), fresh, rng) for _ in range(rng.choice([0, 0, 1, 2]))]
            front += macros
        elif prev == "first":
            if nmac:
                raise ValueError("prev = first has nothing in front")
        else:
            # macro definitions earlier in the body, other items between / around them, then the item of the wanted kind
            lead = macros + [synth(rng.choice(PLAIN_KINDS), fresh, rng) for _ in range(rng.choice([0, 0, 1]))]
            rng.shuffle(lead)
            front += lead
            if prev == "include":
                p["sources"][OTHER] = [("rel", fresh("o"), ["i32"], False, [])]
                front.append(("include", 0, OTHER))
            else:
                front.append(synth(prev, fresh, rng))
        back = [synth(rng.choice(PLAIN_KINDS + ["macro"]), fresh, rng) for _ in range(post)]
        body = front + [nested] + back
        pos = dict(first=0, last=len(items), middle=rng.randrange(1, max(2, len(items))))[host]
        p["items"] = items[:pos] + [("include", 0, OUTER)] + items[pos:]
        # the relation the synthesised items use: anywhere in the host but not in front of a host include that must stay first
        lo = 1 if host == "first" else 0
        p["items"].insert(rng.randrange(lo, len(p["items"]) + 1), ("rel", BASE_REL, ["i32"], False, []))
        prev_kind, nm, npost = prev, nmac, post
    p["sources"][OUTER] = body
    p["sources"][INNER] = [("rel", fresh("i"), ["i32"], False, [])]
    q = len(front)
    # what the parser of the body meets first: an earlier nested include (prev = include) is the violation itself
    first_inc = next(i for i, it in enumerate(body) if it[0] == "include")
    exp = dict(cls="include_in_source", detail=None)
    if inc_attrs and first_inc == q:
        # two rules are broken at once (an attribute in front of an include_source!, an include_source! in a source): the property
        # demands a rejection by either message; which one comes first is the model's business (Check/CheckModel.v scan_src)
        exp["any_of"] = ["err:unexpected_attr", "err:include_in_source"]
    return p, dict(exp, nest=dict(prev=prev_kind, nmac=nm, post=npost, host=host, q=q, body=len(body),
                                                    attributed=bool(inc_attrs)))


def plan(rng, tier):
    """[(prev, nmac, post, host, kind index, inc_attrs, body_from_host)]"""
    out = []
    i = 0
    # every kind of item in front of the nested include x every macro; last / followed, host position and macro count rotate
    for prev in PREVS:
        for ki in range(4):
            if prev == "macro":
                continue
            nmac = 0 if prev == "first" else [0, 1, 0, 2, 3][i % 5]
            out.append((prev, nmac, [0, 1, 2][i % 3], HOSTS[(i // 2) % 3], ki, (), False))
            i += 1
    # directly behind 1..3 macro definitions: x last / followed x every macro (host position rotates; thorough: every host position)
    for nmac in (1, 2, 3):
        for post in (0, 1):
            for ki in range(4):
                for host in (HOSTS if tier != "quick" else [HOSTS[i % 3]]):
                    out.append(("macro", nmac, post, host, ki, (), False))
                    i += 1
    # the nested include carries an attribute itself
    for prev in ("first", "macro", "rel", "rule"):
        for a in (["doc"], ["other"]) if tier != "quick" else ([["doc"], ["other"]][i % 2],):
            out.append((prev, 1 if prev == "macro" else 0, i % 2, HOSTS[i % 3], i % 4, tuple(a), False))
            i += 1
    # bodies cut out of the host: the item kinds and orders the program generator produces
    for j in range(8 if tier == "quick" else 120):
        out.append((None, None, None, "slice", j % 4, (), True))
    if tier != "quick":
        for prev in PREVS:
            for nmac in (0, 1, 2, 3):
                for post in (0, 1, 2):
                    for host in HOSTS:
                        if (prev == "macro" and nmac == 0) or (prev == "first" and nmac):
                            continue
                        out.append((prev, nmac, post, host, i % 4, (), False))
                        i += 1
    return out


def cases(rng, tier, bases, kinds):
    """bases: well-formed cases (dicts with program / info) inside the typed subset; returns case dicts (one macro kind each)"""
    bases = [b for b in bases if b["info"]["rustc_ok"] and not b["program"].get("sources")]
    if not bases:
        return []
    out = []
    start = rng.randrange(len(bases))
    for i, (prev, nmac, post, host, ki, inc_attrs, from_host) in enumerate(plan(rng, tier)):
        for t in range(len(bases)):
            base = bases[(start + i + t) % len(bases)]
            try:
                mp, exp = build(rng, base["program"], prev, nmac, post, host, inc_attrs, from_host)
                A.rust_text(mp)
                A.coq_program(mp)
            except (NoSite, IndexError):
                continue
            out.append(dict(id="n%d" % i, program=mp, expect=[exp], mutation="nested_include", info=base["info"], only_kind=kinds[ki],
                            no_splice=True, rustc_nest=True))
            break
    return out
