"""C09 packagings: one logical program (python AST of gen/dl.py) rendered as many real artefacts.

A packaging job = dict(id, kind, macro, src=<text of one Rust module>, nscripts, script_desc=[..]).
The module defines `pub fn run_all(out: &mut Vec<String>)` which prints one JSON line per script:
   {"job": id, "script": k, "snaps": [{rel: [[col strings]]}], "flags": [bool..]}     (flags = values returned by run_timeout)
or {"job": id, "script": k, "panic": msg}.

Crate writer / builder modelled on gen/prog.py (one bin per group of jobs, shared target dir
/verif/build/target_prog, compile errors attributed to jobs, `features` passed to the `ascent` dependency).
"""
import concurrent.futures as cf
import json
import os
import re
import shutil
import subprocess

from . import dl, lib, prog

PACK_DIR = os.path.join(lib.BUILD, "prog")

MAIN_HELPERS = r'''
pub fn emit(out: &mut Vec<String>, job: &str, k: usize, r: std::thread::Result<(Vec<String>, Vec<bool>)>) {
   match r {
      Ok((snaps, flags)) => {
         let fl: Vec<String> = flags.iter().map(|b| b.to_string()).collect();
         out.push(format!("{{\"job\":\"{}\",\"script\":{},\"snaps\":[{}],\"flags\":[{}]}}", job, k, snaps.join(","), fl.join(",")));
      }
      Err(e) => {
         let msg = if let Some(s) = e.downcast_ref::<&str>() { s.to_string() } else if let Some(s) = e.downcast_ref::<String>() { s.clone() } else { "?".to_string() };
         out.push(format!("{{\"job\":\"{}\",\"script\":{},\"panic\":{:?}}}", job, k, msg));
      }
   }
}
'''


# ------------------------------------------------------------------ rendering pieces

def program_items(p, ty="i32", cmap=None):
    """(declaration lines, rule lines) of the logical program"""
    decls = [dl.rust_decl(n, a, k, ty) for (n, a, k) in p["rels"]]
    old = dl.CONST_RENDER[0]
    if cmap:
        dl.CONST_RENDER[0] = cmap
    try:
        rules = [dl.rust_rule(r) for r in p["rules"]]
    finally:
        dl.CONST_RENDER[0] = old
    return decls, rules


def tuple_ty(arity, ty="i32"):
    return "(" + "".join("%s, " % ty for _ in range(arity)) + ")"


def vec_lit(tuples, ty="i32"):
    return "vec![%s]" % ", ".join(prog.rust_tuple(t, ty) for t in tuples)


def snap_macro(rels):
    lines = ["macro_rules! snap { ($p:expr) => {{ let p = &$p; let mut parts: Vec<String> = vec![];"]
    for name, arity, _ in rels:
        cols = ", ".join('format!("{:?}", t.%d)' % i for i in range(arity))
        lines.append('   { let ts: Vec<String> = p.%s.iter().map(|t| { let c: Vec<String> = vec![%s]; format!("[{}]", c.iter().map(|s| format!("{:?}", s)).collect::<Vec<_>>().join(",")) }).collect();' % (name, cols))
        lines.append('     parts.push(format!("\\"%s\\":[{}]", ts.join(","))); }' % name)
    lines.append('   format!("{{{}}}", parts.join(",")) }} }')
    return "\n".join(lines)


def module_text(jid, rels, items, scripts):
    """items: module-level Rust items (text); scripts: Rust blocks of type (Vec<String>, Vec<bool>)"""
    src = ["#![allow(warnings)]", "use std::hash::Hash;", "use std::sync::atomic::{AtomicUsize, Ordering};",
           "static CUR: AtomicUsize = AtomicUsize::new(0);", snap_macro(rels)]
    src += items
    src.append("pub fn run_all(out: &mut Vec<String>) {")
    for k, sc in enumerate(scripts):
        src.append("   CUR.store(%d, Ordering::SeqCst);" % k)
        src.append("   crate::emit(out, \"%s\", %d, std::panic::catch_unwind(std::panic::AssertUnwindSafe(|| -> (Vec<String>, Vec<bool>) {\n%s\n   })));" % (jid, k, sc))
    src.append("}")
    return "\n".join(src)


def input_fns(rels, inputs, ty="i32", prefix="in_"):
    """fn in_<rel>() -> Vec<tuple>: the input of the script that is currently running (selected by CUR)"""
    out = []
    for name, arity, _ in rels:
        arms = ["%d => %s," % (k, vec_lit(inp.get(name, []), ty)) for k, inp in enumerate(inputs)]
        out.append("fn %s%s() -> Vec<%s> { match CUR.load(Ordering::SeqCst) { %s _ => vec![] } }" % (prefix, name, tuple_ty(arity, ty), " ".join(arms)))
    return out


def set_fields(rels, inp, ty="i32", var="p"):
    return ["%s.%s = %s.into_iter().collect();" % (var, name, vec_lit(inp.get(name, []), ty)) for name, _, _ in rels]


def struct_script(rels, inp, ty="i32", ctor="Prog::default()", run="p.run();", set_input=True):
    body = ["let mut flags: Vec<bool> = vec![];", "let mut p = %s;" % ctor]
    if set_input:
        body += set_fields(rels, inp, ty)
    body += [run, "(vec![snap!(p)], flags)"]
    return "\n".join("      " + l for l in body)


def source_block(name, lines, doc=False, nested=False):
    body = "\n".join("      " + l for l in lines)
    d = "   /// source block %s\n" % name if doc else ""
    blk = "ascent::ascent_source! {\n%s   %s:\n%s\n}" % (d, name, body)
    if nested:
        return "mod srcs_%s {\n%s\n}" % (name, blk), "srcs_%s::%s" % (name, name)
    return blk, name


def split_with_includes(rng, jid, lines, mode, hoist=None):
    """replace segments of the item list by include_source! of source blocks.
    hoist(line) -> True: the line stays in the program text (just after the include) instead of moving into the source
    returns (module items defining the sources, new item lines, description)"""
    n = len(lines)
    srcs, desc = [], mode
    if mode == "start":
        cuts = [(0, rng.randint(1, n - 1) if n > 1 else n)]
    elif mode == "end":
        cuts = [(rng.randint(1, n - 1) if n > 1 else 0, n)]
    elif mode == "middle":
        if n >= 3:
            a = rng.randint(1, n - 2)
            cuts = [(a, rng.randint(a + 1, n - 1))]
        else:
            cuts = [(n // 2, n // 2)]          # an empty source block between the items
    elif mode == "all":
        cuts = [(0, n)]
    elif mode == "two":
        pts = sorted(rng.randint(0, n) for _ in range(4))
        cuts = [(pts[0], pts[1]), (pts[2], pts[3])]
    elif mode == "two_adjacent":
        pts = sorted(rng.randint(0, n) for _ in range(3))
        cuts = [(pts[0], pts[1]), (pts[1], pts[2])]
    else:
        raise ValueError(mode)
    out, pos = [], 0
    for ci, (a, b) in enumerate(cuts):
        out += lines[pos:a]
        sname = "src_%s_%s" % (jid, "ab"[ci])
        seg = lines[a:b]
        kept = [l for l in seg if hoist and hoist(l)]
        seg = [l for l in seg if not (hoist and hoist(l))]
        blk, path = source_block(sname, seg, doc=(rng.random() < 0.3), nested=(rng.random() < 0.4))
        srcs.append(blk)
        out.append("include_source!(%s);" % path)
        out += kept          # after the include: a hoisted initialiser stays the LAST declaration of its relation
        pos = b
    out += lines[pos:]
    return srcs, out, "%s%s" % (mode, cuts)


def macro_call(macro, header, lines):
    body = "\n".join("   " + l for l in header + lines)
    return "ascent::%s! {\n%s\n}" % (macro, body)


def go_fn(macro, rels, header, lines, ty="i32", generic=None):
    """ascent_run!/ascent_run_par! inside a function whose parameters are the captured locals"""
    params = ", ".join("in_%s: Vec<%s>" % (n, tuple_ty(a, ty)) for n, a, _ in rels)
    g = "<%s: %s>" % (ty, generic) if generic else ""
    return "fn go%s(%s) -> String {\n   let p = %s;\n   snap!(p)\n}" % (g, params, macro_call(macro, header, lines).replace("\n", "\n   "))


def go_script(rels, inp, ty="i32", turbofish=""):
    args = ", ".join(vec_lit(inp.get(n, []), ty) for n, _, _ in rels)
    return "      let s = go%s(%s);\n      (vec![s], vec![])" % (turbofish, args)


def init_decl(decl, expr):
    assert decl.endswith(";")
    return decl[:-1] + " = " + expr + ";"


GEN_BOUNDS = "Clone + Eq + Hash + From<i32>"
PAR_EXTRA = " + Send + Sync"


def generic_header(form, bounds, name="Prog"):
    if form == 0:
        return ["pub struct %s<T: %s>;" % (name, bounds)]
    if form == 1:
        return ["pub struct %s<T> where T: %s;" % (name, bounds)]
    if form == 2:
        return ["pub struct %s<T>;" % name, "impl<T: %s> %s<T>;" % (bounds, name)]
    return ["pub struct %s<T>;" % name, "impl<T> %s<T> where T: %s;" % (name, bounds)]


# ------------------------------------------------------------------ the packagings

def is_pure(p):
    """no interpreted functions / conditions / generators / aggregates: columns may be of a generic type"""
    for r in p["rules"]:
        for it in r["body"]:
            if it[0] != "clause" or it[3] or any(t[0] == "f" for t in it[2]):
                return False
        for _, args in r["heads"]:
            if any(t[0] == "f" for t in args):
                return False
    return True


def packagings(rng, cid, p, inputs, tier, witness=False):
    """all packaging jobs of one logical program"""
    rels = p["rels"]
    decls, rules = program_items(p)
    plain = decls + rules
    jobs = []

    def add(kind, macro, items, scripts, desc="", smap=None, flags=None):
        jid = "%s_%s" % (cid, kind)
        jobs.append(dict(id=jid, kind=kind, macro=macro, items=items, scripts=scripts, desc=desc, rels=rels,
                         script_input=smap or list(range(len(scripts))), expect_flags=flags or [[] for _ in scripts]))

    def jid_of(kind):
        return "%s_%s" % (cid, kind)

    thorough = tier != "quick"
    run_macros = ["ascent_run", "ascent_run_par"]

    def captures(line):
        # an item that mentions a captured local: macro_rules hygiene makes locals invisible to the tokens of an
        # ascent_source! block (finding include_source_hides_captured_locals), so these stay in the program text
        return re.search(r"\bin_\w+\b", line) is not None

    # 0. the reference packaging: ascent! + run()
    add("base", "ascent", [macro_call("ascent", ["pub struct Prog;"], plain)], [struct_script(rels, inp) for inp in inputs])

    # 1. ascent_run!: inputs are captured locals used as initialisers (README form `relation r(..) = r;`)
    lines = [init_decl(d, "in_%s" % n) for d, (n, _, _) in zip(decls, rels)] + rules
    add("run_init", "ascent_run", [go_fn("ascent_run", rels, [], lines)], [go_script(rels, inp) for inp in inputs])
    # 2. ascent_run_par!: initialisers are expressions over the captured locals
    lines = [init_decl(d, "in_%s.iter().cloned().collect()" % n) for d, (n, _, _) in zip(decls, rels)] + rules
    add("runpar_init", "ascent_run_par", [go_fn("ascent_run_par", rels, ["pub struct Prog;"], lines)], [go_script(rels, inp) for inp in inputs])
    # 3. ascent_run!: captured locals read by rule bodies
    caps = []
    for n, a, _ in rels:
        vs = ["c%d" % i for i in range(a)]
        caps.append("%s(%s) <-- for (%s) in in_%s.iter();" % (n, ", ".join("*" + v for v in vs), "".join(v + ", " for v in vs), n))
    m3 = rng.choice(run_macros) if thorough else "ascent_run"
    add("run_rules", m3, [go_fn(m3, rels, [], decls + rng.sample(caps, len(caps)) + rules)], [go_script(rels, inp) for inp in inputs])
    # 4. ascent_par! + run()
    add("par", "ascent_par", [macro_call("ascent_par", ["pub struct Prog;"], plain)], [struct_script(rels, inp) for inp in inputs])
    # 5. include_source! compositions
    modes = ["start", "middle", "end", "two", "two_adjacent", "all"]
    chosen = modes if thorough else rng.sample(modes[:3], 1) + ["two"] + rng.sample(modes[4:], 1)
    for mi, mode in enumerate(chosen):
        macro = ["ascent", "ascent_par", "ascent_run", "ascent_run_par"][(mi + rng.randrange(4)) % 4]
        kind = "inc_%s" % mode
        if macro.startswith("ascent_run"):
            base = [init_decl(d, "in_%s.iter().cloned().collect()" % n) for d, (n, _, _) in zip(decls, rels)] + rules
            srcs, lines, desc = split_with_includes(rng, jid_of(kind), base, mode, hoist=captures)
            add(kind, macro, srcs + [go_fn(macro, rels, rng.choice([[], ["pub struct Prog;"]]), lines)], [go_script(rels, inp) for inp in inputs], desc)
        else:
            srcs, lines, desc = split_with_includes(rng, jid_of(kind), plain, mode)
            add(kind, macro, srcs + [macro_call(macro, ["pub struct Prog;"], lines)], [struct_script(rels, inp) for inp in inputs], desc)
    # 5b. the same with the captured locals mentioned INSIDE the source block (as if pasted: must work too)
    if witness:
        mw = rng.choice(run_macros)
        base = [init_decl(d, "in_%s.iter().cloned().collect()" % n) for d, (n, _, _) in zip(decls, rels)] + rules
        srcs, lines, desc = split_with_includes(rng, jid_of("inc_captured"), base, "all")
        add("inc_captured", mw, srcs + [go_fn(mw, rels, [], lines)], [go_script(rels, inp) for inp in inputs], desc)
    # 6. relation r(..) = e in ascent!: Default::default() evaluates e (here: a function returning the current input)
    m6 = rng.choice(["ascent", "ascent_par"])
    lines = [init_decl(d, "in_%s().into_iter().collect()" % n) for d, (n, _, _) in zip(decls, rels)] + rules
    add("init_default", m6, input_fns(rels, inputs) + [macro_call(m6, ["pub struct Prog;"], lines)],
        [struct_script(rels, inp, set_input=False) for inp in inputs])
    # 7. re-declarations: the last declaration of a relation wins (initialiser included)
    decoy_inputs = [{n: [tuple(rng.choice(range(6)) for _ in range(a)) for _ in range(rng.choice([1, 2, 3]))] for n, a, _ in rels} for _ in inputs]
    m7 = rng.choice(["ascent", "ascent_par"]) if thorough else "ascent"
    first, last, needs_set, how = [], [], [], {}
    for d, (n, a, _) in zip(decls, rels):
        mode = rng.choice(["decoy_then_init", "same_twice", "decoy_then_plain", "plain_then_init", "triple"])
        how[n] = mode
        real, decoy = "in_%s().into_iter().collect()" % n, "decoy_%s().into_iter().collect()" % n
        if mode == "decoy_then_init":
            first.append(init_decl(d, decoy)); last.append(init_decl(d, real))
        elif mode == "same_twice":
            first.append(init_decl(d, real)); last.append(init_decl(d, real))
        elif mode == "decoy_then_plain":
            first.append(init_decl(d, decoy)); last.append(d); needs_set.append(n)
        elif mode == "plain_then_init":
            first.append(d); last.append(init_decl(d, real))
        else:
            first.append(init_decl(d, real)); first.append(init_decl(d, decoy)); last.append(init_decl(d, real))
    where = rng.choice(["adjacent", "around_rules", "interleaved"])
    if where == "adjacent":
        lines = first + last + rules
    elif where == "around_rules":
        lines = first + rules + last
    else:
        k = rng.randint(0, len(rules))
        lines = first + rules[:k] + rng.sample(last, len(last)) + rules[k:]
    scripts = []
    for inp in inputs:
        body = ["let mut flags: Vec<bool> = vec![];", "let mut p = Prog::default();"]
        body += ["p.%s = %s.into_iter().collect();" % (n, vec_lit(inp.get(n, []))) for n in needs_set]
        body += ["p.run();", "(vec![snap!(p)], flags)"]
        scripts.append("\n".join("      " + l for l in body))
    add("redecl", m7, input_fns(rels, inputs) + input_fns(rels, decoy_inputs, prefix="decoy_") + [macro_call(m7, ["pub struct Prog;"], lines)],
        scripts, "%s %s" % (where, how))
    # 8. generic struct signature (+ diverging impl signature)
    form = rng.randrange(4)
    m8 = rng.choice(["ascent", "ascent", "ascent_par"])
    bounds = GEN_BOUNDS + (PAR_EXTRA if m8 == "ascent_par" else "")
    if is_pure(p):
        gd, gr = program_items(p, ty="T", cmap=lambda c: "T::from(%d)" % c)
        inst = rng.choice(["i32", "i64"])
        add("generic", m8, [macro_call(m8, generic_header(form, bounds), gd + gr)],
            [struct_script(rels, inp, ctor="Prog::<%s>::default()" % inst) for inp in inputs], "columns of type T = %s, signature form %d" % (inst, form))
    else:
        add("generic", m8, [macro_call(m8, generic_header(form, bounds), ["relation gtag(T);", "gtag(T::from(0));"] + plain)],
            [struct_script(rels, inp, ctor="Prog::<i64>::default()") for inp in inputs], "tag relation of type T, signature form %d" % form)
    # 9. #![measure_rule_times]
    m9 = rng.choice(["ascent", "ascent_par"])
    add("times", m9, [macro_call(m9, ["#![measure_rule_times]", "pub struct Prog;"], plain)], [struct_script(rels, inp) for inp in inputs])
    # 10. #![generate_run_timeout]: run() and run_timeout(Duration::MAX)
    m10 = rng.choice(["ascent", "ascent_par"])
    scripts = []
    for inp in inputs:
        scripts.append(struct_script(rels, inp))
        scripts.append(struct_script(rels, inp, run="flags.push(p.run_timeout(std::time::Duration::MAX));"))
    add("timeout", m10, [macro_call(m10, ["#![generate_run_timeout]", "pub struct Prog;"], plain)], scripts,
        smap=[k for k in range(len(inputs)) for _ in (0, 1)], flags=[f for _ in inputs for f in ([], [True])])
    # 11. everything at once
    m11 = rng.choice(["ascent", "ascent_par", "ascent_run", "ascent_run_par"])
    attrs = ["#![measure_rule_times]", "#![generate_run_timeout]"]
    rng.shuffle(attrs)
    par = m11.endswith("par")
    pure = is_pure(p)
    bounds = GEN_BOUNDS + (PAR_EXTRA if par else "")
    if pure:
        gd, gr = program_items(p, ty="T", cmap=lambda c: "T::from(%d)" % c)
        ty = "T"
    else:
        gd, gr = ["relation gtag(T);"] + decls, ["gtag(T::from(0));"] + rules
        ty = "i32"
    header = attrs + generic_header(rng.randrange(4), bounds)
    crels = rels
    if m11.startswith("ascent_run"):
        dd = gd if pure else gd[1:]
        idecls = []
        for d, (n, _, _) in zip(dd, rels):
            idecls.append(init_decl(d, "Default::default()"))
            idecls.append(init_decl(d, "in_%s.iter().cloned().collect()" % n))
        base = ([] if pure else [gd[0]]) + idecls + gr
        srcs, lines, desc = split_with_includes(rng, jid_of("combo"), base, "two", hoist=captures)
        params = ", ".join("in_%s: Vec<%s>" % (n, tuple_ty(a, ty)) for n, a, _ in rels)
        fn = "fn go<T: %s>(%s) -> String where T: std::fmt::Debug {\n   let p = %s;\n   snap!(p)\n}" % (
            bounds, params, macro_call(m11, header, lines).replace("\n", "\n   "))
        inst = "i64"
        add("combo", m11, srcs + [fn], [go_script(crels, inp, turbofish="::<%s>" % inst) for inp in inputs], "%s generic columns=%s" % (desc, pure))
    else:
        srcs, lines, desc = split_with_includes(rng, jid_of("combo"), gd + gr, "two")
        add("combo", m11, srcs + [macro_call(m11, header, lines)],
            [struct_script(rels, inp, ctor="Prog::<i64>::default()", run="flags.push(p.run_timeout(std::time::Duration::MAX));") for inp in inputs],
            "%s generic columns=%s" % (desc, pure), flags=[[True] for _ in inputs])
    for j in jobs:
        j["src"] = module_text(j["id"], rels, j.pop("items"), j["scripts"])
        j["nscripts"] = len(j.pop("scripts"))
    return jobs


# ------------------------------------------------------------------ crate writer / builder (after gen/prog.py)

def _mod(j):
    return "m_" + re.sub(r"\W", "_", j["id"])


def write_crate(tag, jobs, nbins, features=()):
    d = os.path.join(PACK_DIR, tag)
    if os.path.exists(d):
        shutil.rmtree(d)
    os.makedirs(os.path.join(d, "src", "bin"))
    os.makedirs(os.path.join(d, ".cargo"))
    open(os.path.join(d, ".cargo", "config.toml"), "w").write('[net]\noffline = true\n[build]\ntarget-dir = "%s"\n' % os.path.join(lib.BUILD, "target_prog"))
    shutil.copy(os.path.join(lib.REPO, "Cargo.lock"), os.path.join(d, "Cargo.lock"))
    bins = []
    groups = [jobs[i::nbins] for i in range(nbins)]
    groups = [g for g in groups if g]
    for b, g in enumerate(groups):
        bname = "%s_b%d" % (tag, b)
        bins.append('[[bin]]\nname = "%s"\npath = "src/bin/%s.rs"\n' % (bname, bname))
        main = ["#![allow(warnings)]", MAIN_HELPERS]
        os.makedirs(os.path.join(d, "src", "bin", bname), exist_ok=True)
        for j in g:
            open(os.path.join(d, "src", "bin", bname, _mod(j) + ".rs"), "w").write(j["src"])
            main.append("#[path = \"%s/%s.rs\"] mod %s;" % (bname, _mod(j), _mod(j)))
        main.append("fn main() {")
        main.append("   std::panic::set_hook(Box::new(|_| {}));")
        main.append("   let mut out: Vec<String> = vec![];")
        for j in g:
            main.append("   %s::run_all(&mut out);" % _mod(j))
        main.append("   for l in out { println!(\"{}\", l); }")
        main.append("}")
        open(os.path.join(d, "src", "bin", bname + ".rs"), "w").write("\n".join(main))
    feats = ""
    if features:
        feats = ", features = [%s]" % ", ".join('"%s"' % f for f in features)
    open(os.path.join(d, "Cargo.toml"), "w").write(prog.CARGO_TOML % dict(name=tag, features=feats, bins="\n".join(bins), repo=lib.REPO))
    return d, [("%s_b%d" % (tag, b), g) for b, g in enumerate(groups)]


def build_and_run(tag, jobs, nbins=None, features=(), run_timeout=180, build_timeout=1500):
    """returns {job id: [result per script]}; a job that does not compile gets dict(compile_error=..) per script"""
    nbins = nbins or min(lib.NCPU, max(1, len(jobs) // 4))
    results = {}
    todo = list(jobs)
    for attempt in range(5):
        if not todo:
            break
        d, groups = write_crate(tag, todo, nbins, features)
        with lib.Lock("cargo_prog"):
            rc, out = lib.sh(["cargo", "build", "--offline", "--bins", "--message-format=short"], cwd=d, timeout=build_timeout)
        if rc == 0:
            break
        bad = set()
        for m in re.finditer(r"src/bin/[^/\s]+/(m_\w+)\.rs:\d+:\d+: error", out):
            bad.add(m.group(1))
        if not bad:
            raise lib.Infra("generated crate does not build and no job could be blamed:\n" + out[-3000:])
        keep = []
        for j in todo:
            if _mod(j) in bad:
                msgs = [l for l in out.splitlines() if ("/" + _mod(j) + ".rs:") in l]
                results[j["id"]] = [dict(compile_error="\n".join(msgs[:6]))] * j["nscripts"]
            else:
                keep.append(j)
        todo = keep
    else:
        raise lib.Infra("generated crate still does not build after blaming jobs")
    if not todo:
        return results
    tdir = os.path.join(lib.BUILD, "target_prog", "debug")

    def run(g):
        bname, js = g
        try:
            p = subprocess.run([os.path.join(tdir, bname)], stdout=subprocess.PIPE, stderr=subprocess.PIPE, text=True, timeout=run_timeout)
            return bname, js, p.returncode, p.stdout, p.stderr
        except subprocess.TimeoutExpired as e:
            return bname, js, "timeout", (e.stdout or b"").decode() if isinstance(e.stdout, bytes) else (e.stdout or ""), ""
    with cf.ThreadPoolExecutor(lib.NCPU) as ex:
        outs = list(ex.map(run, groups))
    for bname, js, rc, so, se in outs:
        per = {}
        for line in so.splitlines():
            try:
                o = json.loads(line)
            except ValueError:
                continue
            per.setdefault(o["job"], {})[o["script"]] = o
        for j in js:
            res = []
            for k in range(j["nscripts"]):
                o = per.get(j["id"], {}).get(k)
                if o is None:
                    res.append(dict(timeout=True) if rc == "timeout" else dict(crash="binary exited rc=%s before this script: %s" % (rc, se[-300:])))
                else:
                    res.append(o)
            results[j["id"]] = res
    return results
