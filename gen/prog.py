"""PROG harness: generated crates containing ascent programs, compiled by the real rustc against
/repo's working tree, run on embedded inputs; FRONT harness: the in-process front-end hook.

A job = dict(id=str, text=<program text inside the macro braces>, macro='ascent'|'ascent_par',
             rels=[(name, arity, kind)], scripts=[script], ty='i32', threads=None, pre='' )
A script = list of steps: ('set', {rel: [tuple]}) | ('push', {rel: [tuple]}) | ('run',) | ('snap',)
Result per job: list per script of dict(snaps=[{rel: {'len': n, 'tuples': sorted distinct}}], iters=[...])
              or dict(panic=msg) / dict(compile_error=msg) / dict(timeout=True)
"""
import concurrent.futures as cf
import json
import os
import re
import shutil
import subprocess

from . import lib

PROG_DIR = os.path.join(lib.BUILD, "prog")

CARGO_TOML = """[package]
name = "%(name)s"
version = "0.0.0"
edition = "2021"

[workspace]

[dependencies]
ascent = { path = "%(repo)s/ascent"%(features)s }
ascent-byods-rels = { path = "%(repo)s/byods/ascent-byods-rels" }

[profile.dev]
opt-level = 0
debug = false
incremental = false
%(bins)s
"""


def rust_tuple(t, ty="i32"):
    if len(t) == 0:
        return "()"
    return "(" + "".join("%s, " % rust_val(v, ty) for v in t) + ")"


def rust_val(v, ty):
    if isinstance(v, str):
        return v          # already a Rust expression (lattice values etc.)
    if ty == "String":
        return 'String::from("s%d")' % v
    return "%d" % v


def snap_code(rels, par=False):
    lines = ["fn snap(p: &Prog) -> String {", "   let mut parts: Vec<String> = vec![];"]
    for name, arity, kind in rels:
        is_lat = isinstance(kind, tuple) and kind[0] == "lat"
        row = "t.read().unwrap()" if (is_lat and par) else "t"
        cols = ", ".join("format!(\"{:?}\", %s.%d)" % ("r", i) for i in range(arity))
        lines.append("   { let mut v: Vec<Vec<String>> = p.%s.iter().map(|t| { let r = %s; let c: Vec<String> = vec![%s]; c }).collect();" % (name, row, cols))
        lines.append("     let ts: Vec<String> = v.iter().map(|t| format!(\"[{}]\", t.iter().map(|s| format!(\"{:?}\", s)).collect::<Vec<_>>().join(\",\"))).collect();")
        lines.append("     parts.push(format!(\"\\\"%s\\\":[{}]\", ts.join(\",\"))); }" % name)
    lines.append("   format!(\"{{{}}}\", parts.join(\",\"))")
    lines.append("}")
    return "\n".join(lines)


def job_source(job):
    macro = job.get("macro", "ascent")
    ty = job.get("ty", "i32")
    par = macro.endswith("par")
    src = ["#![allow(warnings)]", job.get("pre", ""), "ascent::%s! {" % macro, "\n".join(job.get("attrs", [])), "   pub struct Prog;", job["text"], "}", snap_code(job["rels"], par)]
    src.append("pub fn run_all(out: &mut Vec<String>) {")
    for k, script in enumerate(job["scripts"]):
        body = ["let mut p = Prog::default();", "let mut snaps: Vec<String> = vec![];"]
        for st in script:
            if st[0] in ("set", "push"):
                for rel, tuples in st[1].items():
                    vec = "vec![%s]" % ", ".join(rust_tuple(t, ty) for t in tuples)
                    if st[0] == "set":
                        body.append("p.%s = %s.into_iter().collect();" % (rel, vec))
                    else:
                        body.append("for t in %s { p.%s.push(t); }" % (vec, rel))
            elif st[0] == "run":
                body.append("p.run();")
            elif st[0] == "snap":
                body.append("snaps.push(snap(&p));")
            elif st[0] == "raw":
                body.append(st[1])
            else:
                raise ValueError(st)
        body.append("let iters = p.scc_times_summary();")
        body.append("(snaps, iters)")
        pool = job.get("threads")
        call = "(|| { %s })()" % "\n      ".join(body)
        if pool:
            call = "ascent::rayon::ThreadPoolBuilder::new().num_threads(%d).build().unwrap().install(|| { %s })" % (pool, "\n      ".join(body))
        src.append("   {")
        src.append("   let r = std::panic::catch_unwind(std::panic::AssertUnwindSafe(|| { %s }));" % call)
        src.append("   match r {")
        src.append("      Ok((snaps, iters)) => { let its: Vec<String> = iters.lines().filter_map(|l| l.split(\"iterations: \").nth(1).map(|s| s.split(',').next().unwrap().to_string())).collect();")
        src.append("         out.push(format!(\"{{\\\"job\\\":\\\"%s\\\",\\\"script\\\":%d,\\\"snaps\\\":[{}],\\\"iters\\\":[{}]}}\", snaps.join(\",\"), its.join(\",\"))); }" % (job["id"], k))
        src.append("      Err(e) => { let msg = if let Some(s) = e.downcast_ref::<&str>() { s.to_string() } else if let Some(s) = e.downcast_ref::<String>() { s.clone() } else { \"?\".to_string() };")
        src.append("         out.push(format!(\"{{\\\"job\\\":\\\"%s\\\",\\\"script\\\":%d,\\\"panic\\\":{:?}}}\", msg)); }" % (job["id"], k))
        src.append("   }")
        src.append("   }")
    src.append("}")
    return "\n".join(src)


def write_crate(tag, jobs, nbins, features=(), main_mode="seq"):
    d = os.path.join(PROG_DIR, tag)
    if os.path.exists(d):
        shutil.rmtree(d)
    os.makedirs(os.path.join(d, "src", "bin"))
    os.makedirs(os.path.join(d, ".cargo"))
    open(os.path.join(d, ".cargo", "config.toml"), "w").write('[net]\noffline = true\n[build]\ntarget-dir = "%s"\n' % os.path.join(lib.BUILD, "target_prog"))
    shutil.copy(os.path.join(lib.REPO, "Cargo.lock"), os.path.join(d, "Cargo.lock"))
    bins = []
    groups = [jobs[i::nbins] for i in range(nbins)]
    groups = [g for g in groups if g]
    for b, g in enumerate(groups):
        bname = "%s_b%d" % (tag, b)
        bins.append('[[bin]]\nname = "%s"\npath = "src/bin/%s.rs"\n' % (bname, bname))
        main = ["#![allow(warnings)]"]
        for j in g:
            mod = "m_" + re.sub(r"\W", "_", j["id"])
            os.makedirs(os.path.join(d, "src", "bin", bname), exist_ok=True)
            open(os.path.join(d, "src", "bin", bname, mod + ".rs"), "w").write(job_source(j))
            main.append("#[path = \"%s/%s.rs\"] mod %s;" % (bname, mod, mod))
        main.append("fn main() {")
        main.append("   std::panic::set_hook(Box::new(|_| {}));")
        main.append("   let mut out: Vec<String> = vec![];")
        if main_mode == "threads":
            # all jobs of this binary run at the same time on their own OS threads (C20)
            main.append("   let mut hs = vec![];")
            for j in g:
                mod = "m_" + re.sub(r"\W", "_", j["id"])
                main.append("   hs.push(std::thread::spawn(|| { let mut o: Vec<String> = vec![]; %s::run_all(&mut o); o }));" % mod)
            main.append("   for h in hs { out.extend(h.join().unwrap()); }")
        else:
            for j in g:
                mod = "m_" + re.sub(r"\W", "_", j["id"])
                main.append("   %s::run_all(&mut out);" % mod)
        main.append("   for l in out { println!(\"{}\", l); }")
        main.append("}")
        open(os.path.join(d, "src", "bin", bname + ".rs"), "w").write("\n".join(main))
    feats = ""
    if features:
        feats = ", features = [%s]" % ", ".join('"%s"' % f for f in features)
    open(os.path.join(d, "Cargo.toml"), "w").write(CARGO_TOML % dict(name=tag, features=feats, bins="\n".join(bins), repo=lib.REPO))
    return d, [("%s_b%d" % (tag, b), g) for b, g in enumerate(groups)]


def build_and_run(tag, jobs, nbins=None, features=(), run_timeout=120, build_timeout=1500, main_mode="seq"):
    """returns {job id: [result per script]}; compile errors are attributed to jobs and the rest is rebuilt.
    Two checks using the same tag at the same time (the same check started twice, or two properties sharing a family) are serialised:
    the crate directory and its binaries are keyed by the tag."""
    with lib.Lock("prog_tag_" + re.sub(r"\W", "_", tag)):
        return _build_and_run(tag, jobs, nbins, features, run_timeout, build_timeout, main_mode)


def _build_and_run(tag, jobs, nbins=None, features=(), run_timeout=120, build_timeout=1500, main_mode="seq"):
    nbins = nbins or min(lib.NCPU, max(1, len(jobs) // 4))
    results = {}
    todo = list(jobs)
    for attempt in range(4):
        if not todo:
            break
        d, groups = write_crate(tag, todo, nbins, features, main_mode)
        with lib.Lock("cargo_prog"):
            rc, out = lib.sh(["cargo", "build", "--offline", "--bins", "--message-format=short"], cwd=d, timeout=build_timeout)
        if rc == 0:
            break
        bad = set()
        for m in re.finditer(r"src/bin/[^/\s]+/(m_\w+)\.rs:\d+:\d+: error", out):
            bad.add(m.group(1))
        if not bad:
            # no diagnostic points at a generated program: rustc itself died (killed under memory pressure, interrupted ...);
            # cargo resumes where it stopped, so build once more (single job) before giving up
            rc, out2 = lib.sh(["cargo", "build", "--offline", "--bins", "--message-format=short", "-j", "4"], cwd=d, timeout=build_timeout)
            if rc == 0:
                break
            out = out2
            for m in re.finditer(r"src/bin/[^/\s]+/(m_\w+)\.rs:\d+:\d+: error", out):
                bad.add(m.group(1))
        if not bad:
            raise lib.Infra("generated crate does not build and no job could be blamed:\n" + out[-3000:])
        keep = []
        for j in todo:
            mod = "m_" + re.sub(r"\W", "_", j["id"])
            if mod in bad:
                msgs = [l for l in out.splitlines() if ("/" + mod + ".rs:") in l]
                results[j["id"]] = [dict(compile_error="\n".join(msgs[:6]))] * len(j["scripts"])
            else:
                keep.append(j)
        todo = keep
    else:
        raise lib.Infra("generated crate still does not build after blaming jobs")
    if not todo:
        return results
    tdir = os.path.join(lib.BUILD, "target_prog", "debug")

    def run(g):
        bname, js = g
        try:
            p = subprocess.run([os.path.join(tdir, bname)], stdout=subprocess.PIPE, stderr=subprocess.PIPE, text=True, timeout=run_timeout)
            return bname, js, p.returncode, p.stdout, p.stderr
        except subprocess.TimeoutExpired as e:
            return bname, js, "timeout", (e.stdout or b"").decode() if isinstance(e.stdout, bytes) else (e.stdout or ""), ""
    with cf.ThreadPoolExecutor(lib.NCPU) as ex:
        outs = list(ex.map(run, groups))
    for bname, js, rc, so, se in outs:
        per = {}
        for line in so.splitlines():
            try:
                o = json.loads(line)
            except ValueError:
                continue
            per.setdefault(o["job"], {})[o["script"]] = o
        for j in js:
            res = []
            for k in range(len(j["scripts"])):
                o = per.get(j["id"], {}).get(k)
                if o is None:
                    res.append(dict(timeout=True) if rc == "timeout" else dict(crash="binary exited rc=%s before this script: %s" % (rc, se[-300:])))
                else:
                    res.append(o)
            results[j["id"]] = res
    return results


def canon_snap(snap):
    """{rel: [[str..]..] rows in order} -> {rel: (len, sorted distinct tuples of python values)}"""
    out = {}
    for rel, rows in snap.items():
        ts = [tuple(_val(s) for s in t) for t in rows]
        out[rel] = (len(ts), sorted(set(ts), key=repr))
    return out


def rows_snap(snap):
    """{rel: rows in order as tuples of python values}"""
    return {rel: [tuple(_val(s) for s in t) for t in rows] for rel, rows in snap.items()}


def _val(s):
    try:
        return int(s)
    except ValueError:
        return s


# ------------------------------------------------------------------ FRONT

def front_run(records, timeout=900):
    """records: list of (id, kind, text) -> {id: dump dict}; runs the verif_hooks driver of ascent_macro"""
    os.makedirs(lib.BUILD, exist_ok=True)
    tag = "%d" % os.getpid()
    fin = os.path.join(lib.BUILD, "front_in_%s.txt" % tag)
    fout = os.path.join(lib.BUILD, "front_out_%s.txt" % tag)
    with open(fin, "w") as f:
        for i, kind, text in records:
            f.write("@@PROGRAM %s %s\n%s\n" % (i, kind, text))
    if os.path.exists(fout):
        os.remove(fout)
    env = dict(lib.ENV, VERIF_FRONT_IN=fin, VERIF_FRONT_OUT=fout, CARGO_TARGET_DIR=os.path.join(lib.BUILD, "target_front" + ("" if lib.REPO == "/repo" else "_" + __import__("hashlib").sha1(lib.REPO.encode()).hexdigest()[:8])))
    with lib.Lock("cargo_front"):
        rc, out = lib.sh(["cargo", "test", "--offline", "-p", "ascent_macro", "--features", "verif_hooks", "verif_front_driver"],
                         cwd=lib.REPO, timeout=timeout, env=env)
    if rc != 0 or not os.path.exists(fout):
        raise lib.Infra("front-end hook driver failed (rc=%s):\n%s" % (rc, out[-3000:]))
    res = {}
    for line in open(fout):
        o = json.loads(line)
        res[o["id"]] = o
    os.remove(fin)
    os.remove(fout)
    return res
