"""C13 for programs with a BYODS relation (#[ds(eqrel)], #[ds(trrel)], #[ds(trrel_uf)]): the state of such a relation lives only in
its provider's `ind_common` structure (the field is a FakeVec), which is exactly what survives between two runs.

Histories, all through the real macro and rustc (programs of the C10 / C11 / C12 program generators):
    A:  set I1 ; run ; snap ; run ; snap                     idempotence: the second snapshot equals the first
    B:  set I1 ; run ; push I2 ; run ; snap                  = the FRESH run  set (I1 + I2) ; run ; snap   (property text)
    C:  set I1 ; run ; run ; push I2 ; run ; snap            = the same fresh run (a defect may depend on the parity of the runs)
    D:  set () ; run ; push I1 ; run ; push I2 ; run ; snap  = the same fresh run
Observed: every plain relation (the tagged relation is observed through the rules that read it), as sets, and row count = distinct
count.  The specification of a history is the fresh run of the same program on the union of the inputs — C10 / C11 / C12 tie that fresh
run to the explicit closure and to the Coq specification; programs with negation / aggregation over the history are excluded here as the
property excludes them.  There is no model column (Engine/Rerun.v models plain relations only)."""
import json

from . import c10_prog, c11_prog, c12_prog, dl, lib, prog


def has_agg(p):
    def walk(items):
        for it in items:
            if it[0] in ("agg", "neg"):
                return True
            if it[0] == "disj" and any(walk(alt) for alt in it[1]):
                return True
        return False
    return any(walk(r["body"]) for r in p["rules"])


def split_input(rng, inp):
    """I1, I2 with I1 + I2 = inp (as sets per relation); I2 non-empty when inp is"""
    i1, i2 = {}, {}
    for rel, ts in inp.items():
        ts = list(ts)
        rng.shuffle(ts)
        k = rng.randrange(len(ts) + 1) if ts else 0
        if rng.random() < 0.3:
            k = len(ts)            # this relation is not touched between the runs
        i1[rel], i2[rel] = ts[:k], ts[k:]
    if not any(i2.values()):
        rels = [r for r, ts in inp.items() if ts]
        if rels:
            r = rng.choice(rels)
            i2[r] = [i1[r].pop()]
    return i1, i2


def canonical(rng):
    """the documented use of each provider: one rule fills the tagged relation from a plain one, a LATER stratum joins it with a query"""
    V = lambda x: ("v", x)   # noqa: E731
    out = []
    for prov, path in (("eqrel", "ascent_byods_rels::eqrel"), ("trrel", "ascent_byods_rels::trrel"), ("trrel_uf", "ascent_byods_rels::trrel_uf")):
        for tern in (False, True):
            for macro in (("ascent", "ascent_par") if prov == "eqrel" and not tern else ("ascent",)):
                k = [V("k")] if tern else []
                A = 3 if tern else 2
                rels = [("t", A, ("ds", path)), ("link", A, "rel"), ("query", 1, "rel"), ("answer", A, "rel")]
                rules = [dict(heads=[("t", k + [V("x"), V("y")])], body=[("clause", "link", k + [V("x"), V("y")], [])]),
                         dict(heads=[("answer", k + [V("x"), V("y")])], body=[("clause", "query", [V("x")], []), ("clause", "t", k + [V("x"), V("y")], [])])]
                inputs = []
                for _ in range(2):
                    n = rng.choice([3, 4, 6])
                    links = [tuple(([rng.randrange(2)] if tern else []) + [rng.randrange(5), rng.randrange(5)]) for _ in range(n)]
                    inputs.append({"link": sorted(set(links)), "query": sorted({(rng.randrange(5),) for _ in range(3)})})
                out.append(("canon_%s_%d_%s" % (prov, A, macro), prov, dict(rels=rels, rules=rules), [r for r in rels if r[2] == "rel"], macro, inputs))
    return out


def sources(tier, seed):
    """[(id, provider, program AST, snapshot rels, macro, input)]"""
    n = 6 if tier == "quick" else 40
    out = canonical(lib.rng_for(seed, "C13", "byods_canon"))
    for c in [c for c in c10_prog.gen_cases(tier, seed, prop="C13") if not has_agg(c10_prog.programs_of(c)[0])][:n]:
        tagged, _ = c10_prog.programs_of(c)
        out.append((c["id"], "eqrel", tagged, [r for r in tagged["rels"] if r[2] == "rel"], "ascent_par" if c["cfg"].get("par") else "ascent", c["inputs"]))
    for c in c11_prog.gen_cases(tier, seed, prop="C13")[:n]:
        out.append((c["id"], "trrel", c["prog"], c11_prog.observed_rels(c["prog"]), "ascent", c["inputs"]))
    rng = lib.rng_for(seed, "C13", "byods_c12")
    for i in range(n):
        p = c12_prog.gen_program(rng, tern=(i % 2 == 1))
        tagged, _ = c12_prog.asts(p)
        rels = [(nm, a, "rel") for nm, a in p["rels_in"]] + [(nm, a, "rel") for nm, a in p["rels_out"]]
        out.append(("c12p%d" % i, "trrel_uf", tagged, rels, "ascent", [c12_prog.gen_input(rng, p) for _ in range(2)]))
    return [s for s in out if not has_agg(s[2])]


def run(tier, seed, tag="c13byods"):
    rng = lib.rng_for(seed, "C13", "byods")
    jobs, meta = [], {}
    for cid, prov, p, rels, macro, inputs in sources(tier, seed):
        relnames = {r[0] for r in rels}
        scripts, hists = [], []
        for inp in inputs[:2]:
            inp = {r: [tuple(t) for t in ts] for r, ts in inp.items() if r in relnames}
            i1, i2 = split_input(rng, inp)
            scripts.append([("set", inp), ("run",), ("snap",)])                                                   # fresh
            scripts.append([("set", inp), ("run",), ("snap",), ("run",), ("snap",)])                            # A
            scripts.append([("set", i1), ("run",), ("push", i2), ("run",), ("snap",)])                          # B
            scripts.append([("set", i1), ("run",), ("run",), ("push", i2), ("run",), ("snap",)])                # C
            scripts.append([("run",), ("push", i1), ("run",), ("push", i2), ("run",), ("snap",)])               # D
            hists.append((inp, i1, i2))
        jid = "b_" + cid
        jobs.append(dict(id=jid, text=dl.rust_program_text(p), macro=macro, rels=rels, scripts=scripts))
        meta[jid] = (prov, p, rels, macro, hists)
    impl = prog.build_and_run(tag, jobs, run_timeout=120) if jobs else {}
    mism, distinct, by = [], set(), {}
    for jid, (prov, p, rels, macro, hists) in meta.items():
        res = impl.get(jid)
        text = dl.rust_program_text(p)
        for h, (inp, i1, i2) in enumerate(hists):
            rs = res[5 * h:5 * h + 5] if res else [None] * 5
            base = dict(program=text, macro=macro, provider=prov, input=inp, first_part=i1, pushed_later=i2)
            if any(r is None or "snaps" not in r for r in rs):
                bad = [r for r in rs if r is None or "snaps" not in r][0]
                if rs[0] is None or "snaps" not in rs[0]:
                    continue          # the fresh run itself fails: C10 / C11 / C12's subject
                mism.append(dict(case=base, impl=bad, model=None, spec="fresh run completes", kind="impl_violates_spec", known=None,
                                 what="%s program: a re-run history did not complete although the fresh run does: %s" % (prov, json.dumps(bad)[:300])))
                continue
            fresh = prog.canon_snap(rs[0]["snaps"][-1])
            by[prov] = by.get(prov, 0) + 1
            for name, label, got in (("A", "run; run", prog.canon_snap(rs[1]["snaps"][-1])), ("B", "run; push; run", prog.canon_snap(rs[2]["snaps"][-1])),
                                     ("C", "run; run; push; run", prog.canon_snap(rs[3]["snaps"][-1])), ("D", "run(empty); push; run; push; run", prog.canon_snap(rs[4]["snaps"][-1]))):
                distinct.add((jid, h, name))
                for rel, _, _ in rels:
                    if got[rel][1] != fresh[rel][1]:
                        mism.append(dict(case=dict(base, history=label), impl={rel: got[rel][1]}, model=None, spec={rel: fresh[rel][1]}, kind="impl_violates_spec", known=None,
                                         what="%s program, history %s: relation %s differs from a fresh run on the union of the inputs: missing %s; extra %s" % (
                                             prov, label, rel, [t for t in fresh[rel][1] if t not in got[rel][1]][:4], [t for t in got[rel][1] if t not in fresh[rel][1]][:4])))
                        break
            first = prog.canon_snap(rs[1]["snaps"][0])
            second = prog.canon_snap(rs[1]["snaps"][1])
            if first != second:
                mism.append(dict(case=dict(base, history="run; run"), impl=second, model=None, spec=first, kind="impl_violates_spec", known=None,
                                 what="%s program: a second run() on an unmodified program value changed a relation (rows or row count)" % prov))
    return dict(mismatches=mism, evaluations=len(distinct), distinct=len(distinct), distribution=dict(programs=len(meta), histories_by_provider=by))
