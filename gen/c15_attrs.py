"""C15 — the SPELLING of attributes as a generated dimension.

An attribute is data (gen/c15_ast.py: ('sp', lead, [segment], args)): a path of one to three segments, with or without a
leading `::`, and one of the argument forms  none / (..) / [..] / {..} / = value.  This module places such an attribute at
every attribute position the model knows

    prog      #![..] of the program                      decided by AscentConfig::new on the whole path (is_ident)
    sig       in front of the struct signature            handed to the generated struct (rustc decides)
    rel, lat  in front of a relation / a lattice          `ds` (exactly) is the macro's; anything else goes to the struct field
    rule, macro, include                                  any attribute is "unexpected attribute(s)"
    src_rel, src_rule                                     the same inside an ascent_source! body that the program includes

with the expectation the PROPERTY has for it (python oracle; it never looks at the Coq model): an attribute whose path is
not exactly one of the recognised identifiers is an unknown attribute at the program position, whatever its last segment
is (`ascent::measure_rule_times`, `::ds(..)`), a recognised flag must be a bare path, `ds` must carry a list that names a
provider."""
import copy

from . import c15_ast as A

POSITIONS = ["prog", "sig", "rel", "lat", "rule", "macro", "include", "src_rel", "src_rule"]
PATH_FORMS = ["ident", "two", "three", "lead1", "lead2"]
ARG_FORMS = ["none", "(", "[", "{", "="]
# made-up segments: none of them names anything rustc could resolve (the crate `ascent` exists: `ascent::x` fails on x)
PREFIXES = ["ascent", "c15_tools", "c15_my"]
NAMES = ["trace_rules", "c15_unknown_attr", "profile", "c15_made_up"]
LIST_TOKENS = ["level = 3", "c15", "", "ascent::rel"]
EQ_VALUES = ["3", '"c15"']


class NoSite(Exception):
    pass


def make_path(rng, form, last):
    """(lead, segments) of the given form ending in `last`"""
    if form == "ident":
        return False, [last]
    if form == "two":
        return False, [rng.choice(PREFIXES), last]
    if form == "three":
        return False, [rng.choice(PREFIXES), rng.choice(["internal", "c15_cfg"]), last]
    if form == "lead1":
        return True, [last]
    if form == "lead2":
        return True, [rng.choice(PREFIXES), last]
    raise ValueError(form)


def make_args(rng, form, tokens=None):
    if form == "none":
        return None
    if form == "=":
        return ("eq", rng.choice(EQ_VALUES))
    return ("list", form, rng.choice(LIST_TOKENS) if tokens is None else tokens)


def make_attr(rng, path_form, arg_form, last=None, tokens=None):
    """an attribute of the given spelling; last = None: a made-up name, else the last segment (e.g. a recognised name)"""
    lead, segs = make_path(rng, path_form, last or rng.choice(NAMES))
    if tokens is None and path_form == "ident" and last == "ds":
        tokens = rng.choice(sorted(A.DS_TOKENS))       # exactly `ds`: token lists whose parse as a provider path is known
    return A.sp(segs, lead, make_args(rng, arg_form, tokens))


def spelling(a):
    """the class of a spelling, for the histograms of the evidence"""
    a = A.as_sp(a)
    form = ("lead%d" % len(a[2])) if a[1] else {1: "ident", 2: "two", 3: "three"}[len(a[2])]
    return dict(path=form, args=A.args_form(a), last=a[2][-1] if a[2][-1] in A.RECOGNISED else "made_up")


# ------------------------------------------------------------------ sites

def _ensure(p, position, rng):
    """make sure the program has an item of the position's kind; returns (container, index) of the item to attribute"""
    items = p["items"]
    if position in ("rel", "lat"):
        lat = position == "lat"
        cands = [(cont, i) for cont in [items] for i, it in enumerate(cont) if it[0] == "rel" and bool(it[3]) == lat and not any(A.is_ds(x) for x in it[4])]
        # a declaration repeated with the same identity survives only as its last copy: take declarations without a twin
        cands = [(c, i) for c, i in cands if sum(1 for it in _all_decls(p) if it[1] == c[i][1]) == 1]
        if cands:
            return rng.choice(cands)
        name = "c15_l%d" % len(items) if lat else "c15_r%d" % len(items)
        items.insert(rng.randrange(len(items) + 1), ("rel", name, ["i32", "i32"], lat, []))
        return items, [i for i, it in enumerate(items) if it[0] == "rel" and it[1] == name][0]
    if position == "rule":
        cands = [i for i, it in enumerate(items) if it[0] == "rule"]
        if not cands:
            items.append(("rule", 0, dict(heads=[("c15_aux", [("c", 3)])], body=[])))
            cands = [len(items) - 1]
        return items, rng.choice(cands)
    if position == "macro":
        cands = [i for i, it in enumerate(items) if it[0] == "macro"]
        if not cands:
            items.insert(rng.randrange(len(items) + 1), ("macro", 0, "c15_am", ["q0"], [("clause", "c15_aux", [("v", "q0")], [])]))
            cands = [i for i, it in enumerate(items) if it[0] == "macro"]
        return items, rng.choice(cands)
    if position in ("include", "src_rel", "src_rule"):
        name = "c15_asrc"
        p["sources"][name] = [("rel", "c15_sr", ["i32"], False, []), ("rule", 0, dict(heads=[("c15_sr", [("c", 1)])], body=[]))]
        pos = rng.randrange(len(items) + 1)
        items.insert(pos, ("include", 0, name))
        if position == "include":
            return items, pos
        return p["sources"][name], 0 if position == "src_rel" else 1
    raise ValueError(position)


def _all_decls(p):
    for it in p["items"]:
        if it[0] == "rel":
            yield it
    for src in p.get("sources", {}).values():
        for it in src:
            if it[0] == "rel":
                yield it


def place(rng, p, position, attr):
    """write attr at the position (in place); returns the item kind it landed on"""
    if position == "prog":
        name = A.path_ident(attr)
        if name in A.RECOGNISED:
            # one attribute of a recognised name: the real code looks at the FIRST flag of a name and counts the ds attributes
            p["attrs"] = [x for x in p["attrs"] if A.path_ident(x) != name]
        p["attrs"].insert(rng.randrange(len(p["attrs"]) + 1), attr)
        return "prog"
    if position == "sig":
        sig = list(p.get("sig") or [])
        sig.insert(rng.randrange(len(sig) + 1), attr)
        p["sig"] = sig
        return "sig"
    cont, i = _ensure(p, position, rng)
    it = list(cont[i])
    if it[0] == "rel":
        attrs = list(it[4])
        attrs.insert(rng.randrange(len(attrs) + 1), attr)
        it[4] = attrs
    else:
        old = A.item_attrs(tuple(it))
        old = [x for x in old if x != "legacy"]
        old.insert(rng.randrange(len(old) + 1), attr)
        it[1] = old
    cont[i] = tuple(it)
    return it[0]


# ------------------------------------------------------------------ the property's verdict on (position, attribute)

def expectation(position, attr):
    """the class the property gives the program once attr stands at the position (the rest of the program is well-formed,
    attr is the only attribute of its name at a program position and the only ds of its relation)"""
    name = A.path_ident(attr)
    sp = spelling(attr)
    e = dict(detail=None, position=position, spelling=sp, attr=A.sp_text(A.as_sp(attr), inner=(position == "prog")))
    if position in ("rule", "macro", "include", "src_rule"):
        return dict(e, cls="unexpected_attr")
    if position == "prog":
        if name not in A.RECOGNISED:
            return dict(e, cls="unknown_attr")        # decided on the whole path: `ascent::measure_rule_times` is not recognised
        if name in A.FLAGS:
            if A.args_form(attr) != "none":
                return dict(e, cls="flag_args")
            return dict(e, cls="irp_serial" if name == "inter_rule_parallelism" else "ok")
    if position == "sig" or name != "ds":
        # handed to the generated struct / struct field: the macro accepts, rustc must reject what it does not know
        return dict(e, cls="rustc_unknown_rel_attr")
    # exactly `ds`, at the program or on a relation / lattice
    if A.args_form(attr) in ("none", "="):
        return dict(e, cls="ds_not_list")
    if not A.ds_list_ok(attr):
        return dict(e, cls="syntax")
    return dict(e, cls="ds_on_lattice" if position == "lat" else "ok")


def inject(rng, base, position, attr):
    """(program, expectation): a deep copy of the well-formed base with attr at the position"""
    p = copy.deepcopy(base)
    on = place(rng, p, position, attr)
    exp = expectation(position, attr)
    exp["on"] = on
    return p, exp


# ------------------------------------------------------------------ the family

def plan(rng, tier):
    """[(position, attribute)]: every position x every path form x {a made-up name, each recognised name as last segment}
    with a random argument form; every position x every argument form x {made-up single identifier, made-up path}; at the
    positions where `ds` is the macro's own, every argument form of `ds` with good and bad token lists; the flags with every
    argument form at the program"""
    out = []
    for pos in POSITIONS:
        for pf in PATH_FORMS:
            for last in [None] + A.RECOGNISED:
                if pf == "ident" and last is not None:
                    continue                      # the recognised spellings themselves: below
                out.append((pos, make_attr(rng, pf, rng.choice(ARG_FORMS), last,
                                           tokens=("ascent::rel" if last == "ds" and rng.random() < 0.7 else None))))
        for af in ARG_FORMS:
            out.append((pos, make_attr(rng, "ident", af)))
            out.append((pos, make_attr(rng, rng.choice(PATH_FORMS[1:]), af)))
    for pos in ("prog", "rel", "lat", "src_rel", "sig", "rule"):
        for af in ARG_FORMS:
            toks = sorted(A.DS_TOKENS) if af in ("(", "[", "{") else [None]
            for t in toks:
                out.append((pos, A.sp(["ds"], False, make_args(rng, af, t))))
    for flag in A.FLAGS:
        for af in ARG_FORMS:
            out.append(("prog", A.sp([flag], False, make_args(rng, af))))
    extra = 30 if tier == "quick" else 1500
    for _ in range(extra):
        last = rng.choice([None, None] + A.RECOGNISED)
        out.append((rng.choice(POSITIONS), make_attr(rng, rng.choice(PATH_FORMS), rng.choice(ARG_FORMS), last)))
    return out


def shadowed_flag(rng, base):
    """#![flag] .. #![flag(args)]: the real code looks at the first attribute of a name only; the property lists unknown
    attributes, and this one is known: no verdict is demanded (the model must agree with the code)"""
    p = copy.deepcopy(base)
    flag = rng.choice(A.FLAGS[:2])
    p["attrs"] = [x for x in p["attrs"] if A.path_ident(x) != flag]
    bad = A.sp([flag], False, make_args(rng, rng.choice(ARG_FORMS[1:])))
    first_bad = rng.random() < 0.4
    pair = [bad, A.sp([flag])] if first_bad else [A.sp([flag]), bad]
    i = rng.randrange(len(p["attrs"]) + 1)
    p["attrs"][i:i] = pair
    return p, dict(cls="flag_args", detail=None, position="prog", spelling=spelling(bad), shadowed=not first_bad,
                   any_of=(None if first_bad else ["ok", "err:flag_args"]))
