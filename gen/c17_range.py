"""C17, value RANGE family (function level): the library aggregators instantiated at the integer column types
i8 .. i64 / u8 .. u64 (mean: the types with `Into<f64>` = at most 32 bits, and f32 holding integers) on values AT and NEAR
the ends of the type, and on long columns of moderate values whose TOTAL leaves the type although every input, and the
result, is inside it.

What the property says about range:
  * min, max, percentile, count, not, mean: the definition involves no value of the column type other than the inputs
    themselves (mean converts every input to f64 first), so they must return the definition's value for EVERY column of
    values of the type -- a total outside the type is irrelevant, and a panic is a violation ("none of them panics").
  * sum : N -> N adds in the column type.  Its precondition (trusted base of C17, `Agg/AggRange.v`): every prefix total is a
    value of N.  The order independent form used here: the negative inputs and the positive inputs each total within N
    (Props/C17.v c17_sum_in_column_type: then sum is the mathematical sum in every iteration order, with overflow checks
    on and off).  Columns outside the precondition are NOT compared with the definition; they are still run, and compared
    with the model of the code: `agg_sum_checked` (overflow checks on: panic) / `agg_sum_wrapped` (off: two's complement).

Oracle of mean and its tolerance: the exact rational sum / n (python `fractions`), rounded to the nearest f64
(`float(Fraction)` rounds correctly).  Every case satisfies sum(|v|) <= 2^53 (asserted per case; for <= 32 bit types this
allows 2^21 rows).  Then every prefix total is an integer of magnitude <= 2^53, hence an f64 value, so each f64 addition of the
code is exact in whatever order the rows arrive; `count as f64` is exact; the single IEEE division is correctly rounded.
So the code must return EXACTLY that f64: the comparison is bit-exact, tolerance 0 (Props/C17.v
c17_mean_not_limited_by_column_type is the model-side statement of this).  A total kept in the column type cannot hide
inside tolerance 0: it differs from the true total by a non-zero multiple of 2^bits, i.e. the quotient by >= 2^bits / n.

Every case is run twice: on the harness built with overflow checks (dev profile) and without (release profile); a change
that narrows an accumulator panics in the first and returns a wrapped value in the second.

The same holds for the NUMBER of rows: columns of 300 .. 700 (thorough: .. 5000) rows and one of 70 000 rows put counts,
percentile ranks and totals beyond what a u8 / u16 counter or index holds (count / not under the four iterator shapes,
percentile at every p of PS, mean).

Program level (`range_programs`): the rule shapes of gen/c17_prog.py except those using `sum`, over aggregated relations
whose i32 columns hold values at / near i32::MIN and i32::MAX under small keys (the generated programs are compiled with
overflow checks; a panic inside an aggregator takes the whole `run()` down).
"""
import hashlib
import os
import shutil
from fractions import Fraction

from . import lib

TYPES = dict(i8=(True, 8), i16=(True, 16), i32=(True, 32), i64=(True, 64), u8=(False, 8), u16=(False, 16), u32=(False, 32), u64=(False, 64))
ORD_TYPES = ["i32", "i64", "u8", "u16", "u32", "i8", "i16", "u64"]      # min / max / sum / percentile / count / not
MEAN_TYPES = ["i32", "u8", "u16", "u32", "i8", "i16", "f32"]            # N: Into<f64>
F32_INT = 2 ** 24                                                       # integers of magnitude <= 2^24 are f32 values
PS = [(0, 1), (50, 1), (100, 1), (25, 2), (99, 1), (1, 4)]
COQ_TY = {t: t for t in TYPES}
BUILDS = ("debug", "release")
VERY_LONG = 70000       # more rows than a u16 counts


def tmin(t):
    if t == "f32":
        return -F32_INT
    s, b = TYPES[t]
    return -(1 << (b - 1)) if s else 0


def tmax(t):
    if t == "f32":
        return F32_INT
    s, b = TYPES[t]
    return (1 << (b - 1)) - 1 if s else (1 << b) - 1


def in_type(t, v):
    return tmin(t) <= v <= tmax(t)


def sum_precondition(t, l):
    """order independent form of sum's stated precondition (Agg/AggRange.v pos_part / neg_part)"""
    return tmin(t) <= sum(v for v in l if v < 0) and sum(v for v in l if v > 0) <= tmax(t)


def edge_values(t):
    lo, hi = tmin(t), tmax(t)
    vs = {lo, lo + 1, hi - 1, hi, hi // 2, hi // 2 + 1, 0, 1}
    if lo < 0:
        vs |= {-1, lo // 2}
    return sorted(v for v in vs if lo <= v <= hi)


def draw(rng, t, mode):
    lo, hi = tmin(t), tmax(t)
    span = min(1000, (hi - lo) // 4)
    if mode == "high":
        return hi - rng.randint(0, span)
    if mode == "low":
        return lo + rng.randint(0, span)
    if mode == "ends":
        return rng.choice([hi - rng.randint(0, span), lo + rng.randint(0, span)])
    if mode == "edge":
        return rng.choice(edge_values(t))
    if mode == "moderate":
        return rng.randint(0, max(1, hi // 4))
    return rng.randint(lo, hi)      # "full"


def value_lists(rng, t, tier):
    """(family, list) pairs for one column type"""
    out = []
    ev = edge_values(t)
    out.append(("edge-exhaustive", []))
    for a in ev:
        out.append(("edge-exhaustive", [a]))
    for a in ev:
        for b in ev:
            out.append(("edge-exhaustive", [a, b]))
    nrand = 24 if tier == "quick" else 300
    for i in range(nrand):
        mode = ["high", "low", "ends", "edge", "full", "high"][i % 6]
        n = rng.choice([2, 3, 3, 4, 5, 8, 16, 33, 100])
        l = [draw(rng, t, mode) for _ in range(n)]
        if rng.random() < 0.3:                       # repeated values (percentile ranks over a multiset)
            l += [rng.choice(l) for _ in range(rng.randint(1, 3))]
        out.append(("random-" + mode, l))
    # long columns of moderate values: each far from the ends, the total far outside the type (small types)
    for n in ([300, 700] if tier == "quick" else [300, 700, 1000, 5000]):
        out.append(("long-moderate", [draw(rng, t, "moderate") for _ in range(n)]))
        out.append(("long-constant", [rng.choice([100, tmax(t) // 3, tmax(t)])] * n))
    return out


def sum_lists(rng, t, tier):
    """columns INSIDE sum's precondition whose totals reach the ends of the type: MAX - r split into positive parts,
    MIN + r split into negative parts, shuffled together"""
    out = []
    lo, hi = tmin(t), tmax(t)
    for i in range(12 if tier == "quick" else 120):
        parts = []
        for bound, sign in ((hi, 1), (-lo, -1)):
            if bound == 0 or (i % 3 == 1 and sign < 0) or (i % 3 == 2 and sign > 0):
                continue
            total = bound - (0 if i % 2 == 0 else rng.randint(0, min(5, bound)))
            k = rng.choice([1, 2, 3, 5])
            cuts = sorted(rng.randint(0, total) for _ in range(k - 1))
            ps = [b - a for a, b in zip([0] + cuts, cuts + [total])]
            parts += [sign * p for p in ps]
        rng.shuffle(parts)
        assert sum_precondition(t, parts), (t, parts)
        out.append(("sum-to-the-end", parts))
    return out


def gen_cases(tier, seed):
    rng = lib.rng_for(seed, "C17", "range")
    cases = []

    def add(name, t, fam, l, p=(0, 1), kind="exact", **kw):
        for b in BUILDS:
            cases.append(dict(name=name, p=list(p), kind=kind, vals=list(l), ty=t, build=b, family="range/" + fam, **kw))

    for t in ORD_TYPES:
        lists = value_lists(rng, t, tier)
        for i, (fam, l) in enumerate(lists):
            add("min", t, fam, l)
            add("max", t, fam, l)
            # long columns: every p (ranks beyond 255 / 65535 must not be narrowed either)
            for p in (PS if fam.startswith("long-moderate") else PS[:3] if fam == "edge-exhaustive" and len(l) == 2 and i % 4 == 0 else [PS[i % len(PS)]]):
                add("percentile", t, fam, l, p=p)
            pre = sum_precondition(t, l)
            if pre or i % 4 == 0:       # a share of the columns outside the precondition: model of the code only
                add("sum", t, fam, l, pre=pre)
            if (len(l) <= 2 and i % 5 == 0) or fam.startswith("long-moderate"):
                for kind in ("exact", "filter", "chain", "flat"):
                    add("count", t, fam, l, kind=kind)
                    add("not", t, fam, l, kind=kind)
        for fam, l in sum_lists(rng, t, tier):
            add("sum", t, fam, l, pre=True)
    for t in MEAN_TYPES:
        for fam, l in value_lists(rng, t, tier):
            add("mean", t, fam, l)
    # one column with more rows than a u16 counts (cardinality, ranks, and a total beyond any narrowed counter / accumulator);
    # small values, because the model side parses the literal
    l = [draw(rng, "u8", "moderate") for _ in range(VERY_LONG)]
    add("mean", "u8", "very-long", l)
    add("percentile", "u8", "very-long", l, p=(99, 1))
    add("percentile", "u8", "very-long", l, p=(100, 1))
    for kind in ("exact", "filter", "chain", "flat"):
        add("count", "u8", "very-long", l, kind=kind)
        add("not", "u8", "very-long", l, kind=kind)
    for c in cases:
        assert all(in_type(c["ty"], v) for v in c["vals"]), c
        if c["name"] == "mean":
            assert sum(abs(v) for v in c["vals"]) <= 2 ** 53, c     # the domain on which tolerance 0 is justified
    return cases


# ------------------------------------------------------------------ oracle / model

def spec(c):
    """the mathematical definition at a column type; None = outside sum's stated precondition (no claim)"""
    l, n = c["vals"], c["name"]
    if n == "sum":
        if not sum_precondition(c["ty"], l):
            return None
        return ("ok", [sum(l)])
    if n == "mean":
        return ("ok", [float(Fraction(sum(l), len(l)))] if l else [])
    raise ValueError(n)


def zlist(xs, block=1000):
    """a Z list literal; long lists as a concatenation of blocks (one 70 000 element literal overflows coqc's stack)"""
    if len(xs) <= 2 * block:
        return lib.zlist(xs)
    return "(" + " ++ ".join(lib.zlist(xs[i:i + block]) for i in range(0, len(xs), block)) + ")"


def coq_expr(c):
    """model expression of the typed aggregators that differ from the unbounded ones; None = use Agg/AggModel.v as is"""
    if c["name"] == "sum" and c["ty"] in TYPES:
        f = "agg_sum_checked" if c.get("build", "debug") == "debug" else "agg_sum_wrapped"
        return "%s %s %s" % (f, COQ_TY[c["ty"]], zlist(c["vals"]))
    if c["name"] == "mean":
        return "agg_mean_f64 %s" % zlist(c["vals"])
    return None


def canon_model(c, v):
    if c["name"] == "sum":
        if c.get("build", "debug") == "debug":
            return "panic" if v == "Panic" else ("ok", list(v[1]))
        return ("ok", list(v))
    if c["name"] == "mean":
        if v == "Rounded":
            raise lib.Infra("C17 range: the model reports f64 rounding on %s (outside the exactness domain)" % c["vals"][:8])
        assert v[0] == "Exact", v
        return ("ok", [float(Fraction(s, k)) for (s, k) in v[1]])
    raise ValueError(c["name"])


# ------------------------------------------------------------------ the harness without overflow checks

def release_build(name="ds_driver"):
    """the harness crate built with the release profile (overflow checks off); same directories as lib.harness_build,
    which must have been called first (it prepares the redirected copy when VERIF_REPO is set)"""
    d = os.path.join(lib.VERIF, "harness", name)
    tdir = os.path.join(lib.BUILD, "target")
    if lib.REPO != "/repo":
        h = hashlib.sha1(lib.REPO.encode()).hexdigest()[:8]
        d = os.path.join(lib.BUILD, "harness_alt_" + h, name)
        tdir = os.path.join(lib.BUILD, "target_alt_" + h)
        if not os.path.exists(d):
            raise lib.Infra("C17 range: %s missing (lib.harness_build not called?)" % d)
    rc, out = lib.cargo_build(d, release=True, extra_env=dict(CARGO_TARGET_DIR=tdir))
    if rc:
        return None, out
    return os.path.join(tdir, "release", name), out


# ------------------------------------------------------------------ program level: `agg` items over columns near the ends of i32

I32_MIN, I32_MAX = -(1 << 31), (1 << 31) - 1


def range_inputs(rng, tier):
    """inputs of gen/c17_prog.py's programs whose AGGREGATED relations (r, w, u; all columns i32) hold values at and near
    i32::MIN / i32::MAX; the clause relations a, b, c keep their small keys.  Every column of an aggregated row is
    independently a small key (0..3) or an extreme value, so that each argument template (key first / last / middle,
    aggregated column anywhere) finds groups of extreme values under a small key."""
    def big(mode):
        if mode == "high":
            return I32_MAX - rng.choice([0, 0, 1, 2, rng.randint(0, 10 ** 6), rng.randint(0, 5 * 10 ** 8)])
        if mode == "low":
            return I32_MIN + rng.choice([0, 0, 1, 2, rng.randint(0, 10 ** 6), rng.randint(0, 5 * 10 ** 8)])
        return rng.choice([big("high"), big("low")])

    def rows(ar, n, mode):
        out = set()
        for _ in range(n):
            t = tuple(rng.randint(0, 3) if rng.random() < 0.5 else big(mode) for _ in range(ar))
            out.add(t)
        # a group of >= 2 extreme values under key 1 for every key position / aggregated position
        for kpos in range(ar):
            for _ in range(2):
                out.add(tuple(1 if i == kpos else big(mode) for i in range(ar)))
        return sorted(out)
    small = dict(a=[(0,), (1,), (2,)], b=[(0, 1), (1, 1), (2, 0), (1, 2)], c=[(0,), (1,), (2,), (3,), (5,)])   # clause relations stay small: rules compute `k + 1` on their variables
    ins = []
    for i, mode in enumerate(["high", "low", "both"] + ([] if tier == "quick" else ["high", "low", "both", "both"])):
        d = dict(small)
        d["r"] = rows(2, 10, mode)
        d["w"] = rows(3, 14, mode)
        d["u"] = sorted(set((big(mode),) for _ in range(4)) | {(1,)})
        ins.append(("range-%s-%d" % (mode, i), d))
    return ins


def range_programs(tier, seed, c17_prog):
    """the rule shapes of gen/c17_prog.py (all but the ones that use `sum`, whose precondition these inputs violate), run on
    `range_inputs`; all mean rules, and every third rule of the other aggregators in the quick tier"""
    rng = lib.rng_for(seed, "C17", "rangeprog")
    inputs = range_inputs(rng, tier)
    heads, seen = [], set()
    for p in c17_prog.gen_programs(tier, seed):
        if p["macro"] != "ascent":
            continue
        for h, _ in c17_prog.heads_of(p):
            if h in seen:
                continue
            seen.add(h)
            rs = c17_prog.rules_for_head(p, h)
            kinds = [c17_prog.rule_kind(r) for r in rs if c17_prog.rule_kind(r)]
            if "sum" in kinds:
                continue
            heads.append((kinds[0] if kinds else None, rs))
    chosen = [hr for i, hr in enumerate(heads) if tier != "quick" or hr[0] == "mean" or i % 3 == 0]
    progs = []
    for i in range(0, len(chosen), 6):
        rules = [r for _, rs in chosen[i:i + 6] for r in rs]
        macro = "ascent_par" if (i // 6) % 4 == 3 else "ascent"
        progs.append(dict(id="rg%d" % (i // 6), macro=macro, rules=rules, inputs=inputs))
    return progs
