"""Tie of the per-index engine model (coq/Engine/IndexedEval.v) to the REAL index fields of the generated program struct.

For generated programs (serial `ascent!`, plain relations) the PROG harness runs histories  set F0; run; push F1; run  and prints,
after every run(), the content of EVERY physical index field of every relation (`<rel>_indices_<cols>` / `<rel>_indices_none`),
read only through the public traits the generated code itself uses (ToRelIndex::to_rel_index, RelIndexReadAll::iter_all,
RelIndexRead::index_get / len_estimate).  The same histories are evaluated in Coq with IndexedEval.run_script_idx on the plan
dumped by the real front end, and compared index by index:

  model_differs        key set / per-key value multiset / len_estimate of an index field, or the rows of a relation, differ from
                       the stored indices of the model; plan_idx_ok / fact_idx_ok false; model out of fuel
  impl_violates_spec   (python oracle on the real data only) an index field does not hold exactly the rows of the relation's Vec
                       (with multiplicity for hash indices, as a set for the full index), or index_get disagrees with iter_all

  python3 -m gen.indexed_tie quick|thorough|corpus [seed]        (exit code 1 on any mismatch)
  run_tie(tier, seed) -> dict(evaluations, distinct_nontrivial, mismatches, coverage, rule)   for the property modules (C13 / C19)

corpus/INDEXED.jsonl (one case per line: name, note, prog = program AST of gen/dl.py, pairs = [[F0, F1]..]) runs first on every invocation.
"""
import collections
import json
import os
import sys
import time

from . import dl, gen_dl, lib, prog

PRELUDE = ("From Coq Require Import List ZArith Bool.\n"
           "From AV Require Import Engine.Core Engine.Sem Engine.Eval Engine.Vocab Engine.IndexedEval.\n"
           "Import ListNotations.\nOpen Scope Z_scope.\n")
FUEL = 200
CORPUS = os.path.join(lib.VERIF, "corpus", "INDEXED.jsonl")
MAX_ARITY = 4
PRINT_PROGRAMS, PRINT_PER_PROGRAM = 8, 4

# ------------------------------------------------------------------ Rust side: dump of the index fields

RUST_PRE = r"""
use ascent::internal::RelIndexRead as IxRelIndexRead;
pub trait IxInts: Sized { fn ints(&self) -> Vec<i64>; fn probes() -> Vec<Self>; }
impl IxInts for () { fn ints(&self) -> Vec<i64> { vec![] } fn probes() -> Vec<Self> { vec![()] } }
impl IxInts for (i32,) { fn ints(&self) -> Vec<i64> { vec![self.0 as i64] }
   fn probes() -> Vec<Self> { (-2..9).map(|v| (v,)).collect() } }
impl IxInts for (i32, i32) { fn ints(&self) -> Vec<i64> { vec![self.0 as i64, self.1 as i64] }
   fn probes() -> Vec<Self> { let mut r = vec![]; for a in -1..8 { for b in -1..8 { r.push((a, b)); } } r } }
impl IxInts for (i32, i32, i32) { fn ints(&self) -> Vec<i64> { vec![self.0 as i64, self.1 as i64, self.2 as i64] }
   fn probes() -> Vec<Self> { let mut r = vec![]; for a in -1..8 { for b in 0..7 { for c in [-1, 0, 1, 2, 3, 5, 7] { r.push((a, b, c)); } } } r } }
impl IxInts for (i32, i32, i32, i32) { fn ints(&self) -> Vec<i64> { vec![self.0 as i64, self.1 as i64, self.2 as i64, self.3 as i64] }
   fn probes() -> Vec<Self> { let mut r = vec![]; for a in [-1, 0, 1, 2, 5] { for b in [0, 1, 3, 4] { for c in [-1, 0, 2, 5] { for d in [0, 1, 2, 3, 4, 5, 9] { r.push((a, b, c, d)); } } } } r } }
pub fn ix_probes<'a, I: IxRelIndexRead<'a>>(_ix: &'a I) -> Vec<I::Key> where I::Key: IxInts { <I::Key as IxInts>::probes() }
pub fn ix_json(v: &Vec<i64>) -> String { format!("[{}]", v.iter().map(|x| x.to_string()).collect::<Vec<_>>().join(",")) }
macro_rules! dump_ix {
   ($field: expr, $ix: expr) => {{
      let ix = $ix;
      let mut ents: Vec<(Vec<i64>, Vec<Vec<i64>>)> = vec![];
      let mut get_ok = true;
      for (k, vs) in ix.iter_all() {
         let mut vals: Vec<Vec<i64>> = vs.map(|v| v.ints()).collect();
         vals.sort();
         // index_get of a key listed by iter_all returns the same values
         match ix.index_get(k) {
            Some(it) => { let mut g: Vec<Vec<i64>> = it.map(|v| v.ints()).collect(); g.sort(); if g != vals { get_ok = false; } },
            None => { get_ok = false; }
         }
         ents.push((k.ints(), vals));
      }
      ents.sort();
      // index_get of a key iter_all does not list is None (and Some for the listed ones)
      let mut probe_ok = true;
      let mut nprobe = 0usize;
      for pk in ix_probes(ix) {
         let present = ents.iter().any(|e| e.0 == pk.ints());
         if ix.index_get(&pk).is_some() != present { probe_ok = false; }
         if !present { nprobe += 1; }
      }
      let es: Vec<String> = ents.iter().map(|(k, vs)| format!("[{},[{}]]", ix_json(k), vs.iter().map(ix_json).collect::<Vec<_>>().join(","))).collect();
      format!("{{\"field\":\"{}\",\"len\":{},\"get_ok\":{},\"probe_ok\":{},\"absent_probed\":{},\"ents\":[{}]}}", $field, ix.len_estimate(), get_ok, probe_ok, nprobe, es.join(","))
   }};
}
"""


def field_name(rel, cols):
    return "%s_indices_%s" % (rel, "_".join(str(c) for c in cols) if cols else "none")


def dump_step(relations):
    """('raw', rust) script step: pushes one JSON object {"indices": [...]} describing every index field"""
    parts = []
    for r in relations:
        for cols in r["indices"]:
            f = field_name(r["name"], cols)
            parts.append('dump_ix!("%s", p.%s.to_rel_index(&p.__%s_ind_common))' % (f, f, r["name"]))
    code = "{ use ascent::internal::{RelIndexRead, RelIndexReadAll, ToRelIndex0}; let parts: Vec<String> = vec![%s]; snaps.push(format!(\"{{\\\"indices\\\":[{}]}}\", parts.join(\",\"))); }" % ", ".join(parts)
    return ("raw", code)


# ------------------------------------------------------------------ programs

def V(x):
    return ("v", x)


def rule(heads, body):
    return dict(heads=heads, body=body)


def cl(rel, *args):
    return ("clause", rel, [a if isinstance(a, tuple) else (("w",) if a == "_" else (("c", a) if isinstance(a, int) else V(a))) for a in args], [])


def hd(rel, *args):
    return (rel, [a if isinstance(a, tuple) else (("c", a) if isinstance(a, int) else V(a)) for a in args])


def gen_multi_index(rng):
    """a relation r read through several different column sets in different rules (3-5 physical indices incl. `[]`), recursion
    through r, heads into r from several rules, sometimes several heads per rule"""
    ar = rng.choice([2, 3, 3, 3])
    rels = [("e", 2, "rel"), ("s", 1, "rel"), ("r", ar, "rel"), ("q1", 1, "rel"), ("q2", 2, "rel")]
    subsets = []
    allsub = [[i for i in range(ar) if (m >> i) & 1] for m in range(1, 2 ** ar)]
    rng.shuffle(allsub)
    for s in allsub[:rng.choice([2, 3, 3, 4])]:
        subsets.append(s)
    rules = []
    # rows enter r from e / s
    if ar == 2:
        rules.append(rule([hd("r", "x", "y")], [cl("e", "x", "y")]))
    else:
        rules.append(rule([hd("r", "x", "y", "z")], [cl("e", "x", "y"), cl("s", "z")]) if rng.random() < 0.5 else
                     rule([hd("r", "x", "y", "x")], [cl("e", "x", "y")]))
    for k, S in enumerate(subsets):
        names = ["a", "b", "c"]
        body = []
        if len(S) == 1:
            body.append(cl("s", names[0]) if rng.random() < 0.6 else cl("q1", names[0]))
        elif len(S) == 2:
            body.append(cl("e", names[0], names[1]) if rng.random() < 0.6 else cl("q2", names[1], names[0]))
        else:
            body += [cl("e", names[0], names[1]), cl("s", names[2])]
        args, fresh = [], []
        j = 0
        for i in range(ar):
            if i in S:
                u = rng.random()
                if u < 0.12:
                    args.append(rng.choice(gen_dl.DOM))        # a constant is an index column as well
                else:
                    args.append(names[j])
                j += 1
            elif rng.random() < 0.25:
                args.append("_")
            else:
                x = "f%d" % i
                args.append(x)
                fresh.append(x)
        if rng.random() < 0.3:
            body = [cl("r", *args)] + body           # r first: read through `[]` or through the join's index
        else:
            body.append(cl("r", *args))
        scope = [x for x in names[:len(S)]] + fresh
        u = rng.random()
        pick = lambda: rng.choice(scope)
        if u < 0.35:
            heads = [hd("r", *[pick() for _ in range(ar)])]                       # recursion through r
        elif u < 0.55:
            heads = [hd("q1", pick()), hd("r", *[pick() for _ in range(ar)])]     # several heads
        elif u < 0.7:
            heads = [hd("q2", pick(), pick()), hd("q1", pick())]
        elif u < 0.85:
            heads = [hd("q2", pick(), pick())]
        else:
            heads = [hd("s", pick())]
        rules.append(rule(heads, body))
    if rng.random() < 0.5:
        rules.append(rule([hd("q1", "x")], [cl("r", *(["x"] + ["_"] * (ar - 1)))]))     # r through `[]`
    if rng.random() < 0.4:
        rules.append(rule([hd("e", "y", "x")], [cl("q2", "x", "y"), cl("s", "x")]))
    rng.shuffle(rules)
    return dict(rels=rels, rules=rules, shape="multi_index")


def gen_multi_head(rng):
    """rules with two / three heads (a(x,y), b(y,x) <-- ...), a zero-arity relation among heads and bodies, recursion"""
    rels = [("a", 2, "rel"), ("b", 2, "rel"), ("c", 2, "rel"), ("u", 1, "rel"), ("z", 0, "rel")]
    ar = dict((n, k) for n, k, _ in rels)
    rules = [rule([hd("a", "x", "y"), hd("b", "y", "x")], [cl("c", "x", "y")])]
    for _ in range(rng.choice([2, 3, 3, 4])):
        nb = rng.choice([1, 2, 2, 3])
        body, scope = [], []
        nv = [0]

        def var():
            u = rng.random()
            if scope and u < 0.45:
                return rng.choice(scope)
            nv[0] += 1
            x = "x%d" % nv[0]
            return x
        for _ in range(nb):
            n = rng.choice(["a", "a", "b", "b", "c", "u", "z"])
            args = []
            for _ in range(ar[n]):
                u = rng.random()
                args.append(rng.choice(gen_dl.DOM) if u < 0.08 else ("_" if u < 0.14 else var()))
            scope += [x for x in args if isinstance(x, str) and x != "_" and x not in scope]
            body.append(cl(n, *args))
        heads = []
        for _ in range(rng.choice([2, 2, 2, 3])):
            n = rng.choice(["a", "a", "b", "b", "u", "z", "c"])
            heads.append(hd(n, *[(rng.choice(scope) if scope and rng.random() < 0.9 else rng.choice(gen_dl.DOM)) for _ in range(ar[n])]))
        rules.append(rule(heads, body))
    if rng.random() < 0.5:
        rules.append(rule([hd("b", "x", "y")], [cl("z"), cl("c", "y", "x")]))
    rng.shuffle(rules)
    return dict(rels=rels, rules=rules, shape="multi_head")


def with_duplicates(rng, inp):
    """some rows of the input repeated (the Vec fields are public: a caller may store a row twice)"""
    out = {}
    for rel, ts in inp.items():
        ts = list(ts)
        if ts and rng.random() < 0.6:
            for _ in range(rng.choice([1, 1, 2, 3])):
                ts.insert(rng.randrange(len(ts) + 1), rng.choice(ts))
        out[rel] = ts
    return out


def gen_pair(rng, p, k):
    """(F0, F1): F1 holds rows already present in F0 and new ones"""
    styles = ["small", "mixed", "sparse_chain", "small", "mixed"]
    f0 = gen_dl.gen_input(rng, p["rels"], style=styles[k % len(styles)] if rng.random() < 0.8 else "some_empty")[0]
    dup0 = rng.random() < 0.4
    if dup0:
        f0 = with_duplicates(rng, f0)
    f1 = gen_dl.gen_input(rng, p["rels"], style="small")[0]
    for rel in f1:
        old = f0.get(rel, [])
        if old and rng.random() < 0.5:
            f1[rel] = f1[rel] + [rng.choice(old) for _ in range(rng.choice([1, 2]))]
            rng.shuffle(f1[rel])
    dup1 = rng.random() < 0.2
    if dup1:
        f1 = with_duplicates(rng, f1)
    return f0, f1


def program_ok(p):
    return all(k == "rel" and a <= MAX_ARITY for _, a, k in p["rels"])


def gen_cases(tier, seed):
    rng = lib.rng_for(seed, "INDEXED")
    n = {"corpus": 0, "quick": 96}.get(tier, 520)
    cases = []
    i = 0
    while len(cases) < n:
        i += 1
        fam = ["core", "multi_index", "core", "strat", "multi_head", "core", "multi_index", "multi_head"][len(cases) % 8]
        if fam == "core":
            p = gen_dl.gen_program(rng, dict(p_two_heads=0.25))
        elif fam == "strat":
            p = gen_dl.gen_strat_program(rng)
        elif fam == "multi_index":
            p = gen_multi_index(rng)
        else:
            p = gen_multi_head(rng)
        if not program_ok(p):
            continue
        npairs = 2 if (tier == "quick" or len(cases) % 2) else 3
        pairs = [gen_pair(rng, p, k) for k in range(npairs)]
        cases.append(dict(id="ix_%d" % len(cases), family=fam, prog=dict(rels=p["rels"], rules=p["rules"]), pairs=pairs))
    return cases


def _tuplify(x):
    if isinstance(x, list):
        return tuple(_tuplify(y) for y in x)
    return x


def load_corpus():
    cases = []
    if not os.path.exists(CORPUS):
        return cases
    for ln, line in enumerate(open(CORPUS)):
        line = line.strip()
        if not line or line.startswith("#"):
            continue
        o = json.loads(line)
        p = dict(rels=[tuple(r) for r in o["prog"]["rels"]], rules=[dict(heads=[(h[0], [_tuplify(t) for t in h[1]]) for h in r["heads"]],
                                                                        body=[_tuplify(it) for it in r["body"]]) for r in o["prog"]["rules"]])
        # items are tuples whose list-valued fields (args, conds, bound) the renderers only iterate: tuples are fine
        pairs = [({r: [tuple(t) for t in ts] for r, ts in a.items()}, {r: [tuple(t) for t in ts] for r, ts in b.items()}) for a, b in o["pairs"]]
        cases.append(dict(id="ixc_%s" % o.get("name", ln), family="corpus", prog=p, pairs=pairs))
    return cases


# ------------------------------------------------------------------ running

def facts_of_input(inp, rels):
    fs = []
    for name, _, _ in rels:
        for t in inp.get(name, []):
            fs.append((name, tuple(t)))
    return fs


def coq_decls(dump, R):
    ds = []
    for r in dump["relations"]:
        for cols in r["indices"]:
            ds.append("(%s, %s, %s)" % (dl.cnat(R(r["name"])), dl.cnat(r["arity"]), dl.cnats(cols)))
    return dl.coq_list(ds)


def model_expr(p, dump, pairs):
    """ONE Coq expression per program: (plan_idx_ok, all facts declared, [history per pair])"""
    R = dl.Names()
    for name, _, _ in p["rels"]:
        R(name)
    plan, _ = dl.coq_plan(dump, R)
    decls = coq_decls(dump, R)
    allf, hs = [], []
    for f0, f1 in pairs:
        a, b = facts_of_input(f0, p["rels"]), facts_of_input(f1, p["rels"])
        allf += a + b
        hs.append("run_script_idx std_interp std_swap %d%%nat pl [IPush %s; IRun; IPush %s; IRun] (init_istate ds [])" % (FUEL, dl.coq_facts(a, R), dl.coq_facts(b, R)))
    e = "let pl := %s in let ds := %s in (plan_idx_ok ds pl, forallb (fact_idx_ok ds) %s, %s)" % (plan, decls, dl.coq_facts(allf, R), dl.coq_list(hs))
    inv = {v: k for k, v in R.d.items()}
    return e, inv


def run_cases(cases, tag, coq_timeout=60):
    """-> list of result dicts (case, text, dump, impl, model, ...)"""
    texts = {c["id"]: dl.rust_program_text(c["prog"]) for c in cases}
    t0 = time.time()
    dumps = prog.front_run([(c["id"], "ascent", texts[c["id"]]) for c in cases])
    t1 = time.time()
    jobs = []
    for c in cases:
        d = dumps.get(c["id"])
        if d is None or d.get("status") != "ok" or "sccs" not in d:
            continue
        if any(r["lattice"] for r in d["relations"]):
            continue
        dstep = dump_step(d["relations"])
        scripts = [[("set", f0), ("run",), ("snap",), dstep, ("push", f1), ("run",), ("snap",), dstep] for f0, f1 in c["pairs"]]
        jobs.append(dict(id=c["id"], text=texts[c["id"]], macro="ascent", rels=c["prog"]["rels"], scripts=scripts, pre=RUST_PRE))
    impl = prog.build_and_run(tag, jobs, nbins=min(lib.NCPU, max(1, len(jobs) // 3))) if jobs else {}
    t2 = time.time()
    groups, gids, invs, parse_errors = [], [], {}, {}
    for c in cases:
        d = dumps.get(c["id"])
        if c["id"] not in impl:
            continue
        try:
            e, inv = model_expr(c["prog"], d, c["pairs"])
        except (dl.ParseError, AssertionError, KeyError, IndexError) as ex:
            parse_errors[c["id"]] = repr(ex)
            continue
        invs[c["id"]] = inv
        groups.append([e])
        gids.append(c["id"])
    # the Coq case files are keyed by the tag: two runs at the same time (C13 and C19 both wire this tie) must not share them
    vals = lib.coq_eval_groups("%s_%d" % (tag, os.getpid()), PRELUDE, groups, timeout=coq_timeout)
    t3 = time.time()
    byid = dict(zip(gids, vals))
    out = []
    for c in cases:
        d = dumps.get(c["id"], {})
        out.append(dict(case=c, text=texts[c["id"]], dump=d, front_status=d.get("status"), front_errors=d.get("errors"), impl=impl.get(c["id"]),
                        parse_error=parse_errors.get(c["id"]), model=byid.get(c["id"]), inv=invs.get(c["id"]),
                        skipped=(c["id"] in byid and byid[c["id"]] is None)))
    return out, dict(front=t1 - t0, cargo_and_run=t2 - t1, coq=t3 - t2)


# ------------------------------------------------------------------ comparison

def split_entry(cols, arity, tup):
    key = tuple(tup[i] for i in cols)
    val = tuple(tup[i] for i in range(arity) if i not in cols)
    return key, val


def multiset_diff(a, b):
    """Counter a (expected) vs Counter b (got) -> (missing, extra, wrong multiplicity)"""
    missing = sorted(k for k in a if k not in b)
    extra = sorted(k for k in b if k not in a)
    wrong = sorted((k, a[k], b[k]) for k in a if k in b and a[k] != b[k])
    return missing, extra, wrong


def fmt_diff(missing, extra, wrong, exp_name):
    parts = []
    if missing:
        parts.append("missing (key, value) %s" % missing[:6])
    if extra:
        parts.append("extra (key, value) %s" % extra[:6])
    if wrong:
        parts.append("wrong multiplicity (entry, %s, index field) %s" % (exp_name, wrong[:6]))
    return "; ".join(parts)


def compare_result(r, stats):
    mism = []
    c = r["case"]
    rels = c["prog"]["rels"]
    base = dict(program=r["text"], id=c["id"], family=c["family"])
    if r["front_status"] != "ok":
        mism.append(dict(case=dict(base), impl=dict(front=r["front_status"], errors=r["front_errors"]), model=None, spec="well-formed program: must compile",
                         kind="impl_violates_spec", known=None, what="front end rejects / panics on a well-formed generated program: %s %s" % (r["front_status"], r["front_errors"])))
        return mism
    if r["parse_error"]:
        raise lib.Infra("cannot translate the dumped plan of %s: %s\n%s" % (c["id"], r["parse_error"], r["text"]))
    if r["impl"] is None:
        return mism           # lattice relation etc.: not in scope
    decl = [(rd["name"], rd["arity"], list(cols)) for rd in r["dump"]["relations"] for cols in rd["indices"]]
    model = r["model"][0] if r["model"] else None
    if model is not None:
        ok_plan, ok_facts, hist = model
        if ok_plan is not True:
            mism.append(dict(case=dict(base, relations=r["dump"]["relations"]), impl="plan + physical indices computed by the macro", model="plan_idx_ok = %s" % ok_plan, spec=None,
                             kind="model_differs", known=None, what="IndexedEval.plan_idx_ok is false on the dumped plan: a clause / aggregate / head uses an index that is not a declared index field, or a relation lacks its full index"))
        if ok_facts is not True:
            mism.append(dict(case=dict(base), impl=None, model="fact_idx_ok = %s" % ok_facts, spec=None, kind="model_differs", known=None,
                             what="IndexedEval.fact_idx_ok is false for an input fact (relation without a declared full index of the fact's arity)"))
    inv = r["inv"]
    for k, (f0, f1) in enumerate(c["pairs"]):
        cs = dict(base, F0=f0, F1=f1)
        iv = r["impl"][k]
        if "snaps" not in iv or len(iv["snaps"]) != 4:
            mism.append(dict(case=cs, impl=iv, model=None, spec=None, kind="impl_violates_spec", known=None,
                             what="implementation did not complete the history (compile error / panic / timeout): %s" % json.dumps(iv)[:600]))
            continue
        stats["histories"] += 1
        mh = None
        if model is not None:
            mh = hist[k]
            if mh == "None":
                mism.append(dict(case=cs, impl="completed", model="None (out of fuel)", spec=None, kind="model_differs", known=None,
                                 what="IndexedEval.run_script_idx did not terminate within fuel %d" % FUEL))
                mh = None
            else:
                mh = mh[1]
        for j in range(2):
            run = j + 1
            rows = prog.rows_snap(iv["snaps"][2 * j])
            real = {ix["field"]: ix for ix in iv["snaps"][2 * j + 1]["indices"]}
            stats["snapshots"] += 1
            m_rows, m_idx = None, None
            if mh is not None:
                m_rows = collections.defaultdict(list)
                for (rid, t) in mh[j][0]:
                    m_rows[inv[rid]].append(tuple(t))
                m_idx = {}
                for (rid, cols, ents) in mh[j][1]:
                    m_idx[field_name(inv[rid], cols)] = ents
                # rows: same set, same length
                for name, _, _ in rels:
                    rr, mr = rows.get(name, []), m_rows.get(name, [])
                    if set(rr) != set(mr) or len(rr) != len(mr):
                        mism.append(dict(case=dict(cs, run=run), impl={name: dict(len=len(rr), rows=sorted(set(rr)))}, model={name: dict(len=len(mr), rows=sorted(set(mr)))}, spec=None,
                                         kind="model_differs", known=None,
                                         what="rows of relation %s after run #%d: implementation %d rows, model %d rows; only in implementation %s; only in model %s" % (
                                             name, run, len(rr), len(mr), sorted(set(rr) - set(mr))[:6], sorted(set(mr) - set(rr))[:6])))
            for name, ar, cols in decl:
                f = field_name(name, cols)
                full = (len(cols) == ar)
                ix = real.get(f)
                if ix is None:
                    raise lib.Infra("index field %s missing from the dump of %s" % (f, c["id"]))
                got = collections.Counter()
                for key, vals in ix["ents"]:
                    for v in vals:
                        got[(tuple(key), tuple(v))] += 1
                nkeys = len(ix["ents"])
                stats["indices"] += 1
                stats["entries"] += sum(got.values())
                stats["absent_probes"] += ix["absent_probed"]
                if not full and sum(got.values()) > 0:
                    stats["nonfull_nonempty"] += 1
                # --- oracle on the real data only: the index holds exactly the rows of the Vec field
                exp = collections.Counter()
                for t in rows.get(name, []):
                    exp[split_entry(cols, ar, t)] += 1
                if full:
                    exp = collections.Counter(dict.fromkeys(exp, 1))
                d = multiset_diff(exp, got)
                bad_len = ix["len"] != nkeys
                if any(d) or bad_len or not ix["get_ok"] or not ix["probe_ok"]:
                    why = fmt_diff(d[0], d[1], d[2], "rows of the Vec field")
                    if bad_len:
                        why += "; len_estimate %d but iter_all lists %d keys" % (ix["len"], nkeys)
                    if not ix["get_ok"]:
                        why += "; index_get(key) differs from the values iter_all lists under the key"
                    if not ix["probe_ok"]:
                        why += "; index_get is Some for a key iter_all does not list (or None for a listed one)"
                    mism.append(dict(case=dict(cs, run=run, index=f), impl=dict(index=ix, rows=sorted(rows.get(name, []))), model=None,
                                     spec="every index field of a relation holds exactly the rows of the relation (hash index: with multiplicity; full index: as a set)",
                                     kind="impl_violates_spec", known=None,
                                     what="index field %s after run #%d does not agree with the %d rows of relation %s: %s" % (f, run, len(rows.get(name, [])), name, why.strip("; "))))
                # --- against the model
                if m_idx is not None:
                    ments = m_idx.get(f)
                    if ments is None:
                        raise lib.Infra("model has no index %s (%s)" % (f, c["id"]))
                    mexp = collections.Counter()
                    for key, t in ments:
                        kk, vv = split_entry(cols, ar, tuple(t))
                        if tuple(key) != kk:
                            kk = tuple(key)         # the model's own key is what is compared
                        mexp[(kk, vv)] += 1
                    mkeys = len({kv[0] for kv in mexp})
                    d = multiset_diff(mexp, got)
                    if any(d) or ix["len"] != mkeys:
                        why = fmt_diff(d[0], d[1], d[2], "model")
                        if ix["len"] != mkeys:
                            why += "; len_estimate %d, model %d keys" % (ix["len"], mkeys)
                        mism.append(dict(case=dict(cs, run=run, index=f), impl=dict(index=ix), model=dict(entries=ments), spec=None, kind="model_differs", known=None,
                                         what="index field %s after run #%d differs from IndexedEval's stored index (%s, %s): %s" % (f, run, name, cols, why.strip("; "))))
                    stats["indices_vs_model"] += 1
    return mism


def coverage_of(results, stats, timing):
    progs = [r for r in results if r["impl"] is not None and r["front_status"] == "ok"]
    multi_nonfull = 0
    multi_head = 0
    multi_head_rules = 0
    idx_hist = collections.Counter()
    zero_ar = 0
    for r in progs:
        mx = 0
        for rd in r["dump"]["relations"]:
            nf = sum(1 for cols in rd["indices"] if len(cols) != rd["arity"])
            mx = max(mx, nf)
            idx_hist[len(rd["indices"])] += 1
        if mx >= 2:
            multi_nonfull += 1
        nmh = sum(1 for ru in r["case"]["prog"]["rules"] if len(ru["heads"]) > 1)
        multi_head_rules += nmh
        if nmh:
            multi_head += 1
        if any(a == 0 for _, a, _ in r["case"]["prog"]["rels"]):
            zero_ar += 1
    fams = collections.Counter(r["case"]["family"] for r in progs)
    return dict(programs=len(progs), families=dict(fams), histories=stats["histories"], snapshots=stats["snapshots"], indices_compared=stats["indices"],
                indices_compared_with_model=stats["indices_vs_model"], entries_compared=stats["entries"], nonfull_nonempty_indices=stats["nonfull_nonempty"],
                absent_keys_probed=stats["absent_probes"],
                programs_with_2_nonfull_indices_on_a_relation=multi_nonfull, programs_with_multi_head_rules=multi_head, multi_head_rules=multi_head_rules, programs_with_zero_arity_relation=zero_ar,
                indices_per_relation_histogram={str(k): v for k, v in sorted(idx_hist.items())},
                programs_model_too_slow=sum(1 for r in results if r["skipped"]), wall=timing)


def run_tie(tier="quick", seed=1, tag=None):
    tag = tag or ("indexed_q" if tier == "quick" else "indexed_t")
    cases = load_corpus() + gen_cases(tier, seed)
    results, timing = [], collections.Counter()
    chunk = 160
    for i in range(0, len(cases), chunk):
        rs, tm = run_cases(cases[i:i + chunk], tag)
        results += rs
        timing.update(tm)
    stats = collections.Counter()
    mism = []
    for r in results:
        if r["skipped"]:
            r["model"] = None
        mism += compare_result(r, stats)
    cov = coverage_of(results, stats, {k: round(v, 1) for k, v in timing.items()})
    distinct = len({(r["text"], json.dumps(r["case"]["pairs"], sort_keys=True)) for r in results if r["impl"] is not None})
    return dict(evaluations=stats["histories"], distinct_nontrivial=distinct, mismatches=mism, coverage=cov,
                rule="programs: gen_dl.gen_program / gen_strat_program (aggregates, negation) + own families multi_index (one relation read through 2-4 column sets, recursion) "
                     "and multi_head (2-3 heads per rule, a zero-arity relation); history set F0; run; push F1; run with duplicate rows in some F0 / F1 and F1 partly already present; "
                     "after every run EVERY index field (keys, per-key value multisets, len_estimate, index_get) vs the stored indices of IndexedEval.run_script_idx and vs the rows; "
                     "distinct = distinct (program, inputs)")


def main(argv=None):
    argv = list(sys.argv[1:] if argv is None else argv)
    tier = argv[0] if argv else "quick"
    seed = int(argv[1]) if len(argv) > 1 else 1
    t0 = time.time()
    res = run_tie(tier, seed)
    cov = res["coverage"]
    print("indexed tie %s seed=%d repo=%s: %d programs, %d histories, %d snapshots, %d index fields compared (%d with the model), %d entries compared" % (
        tier, seed, lib.REPO, cov["programs"], cov["histories"], cov["snapshots"], cov["indices_compared"], cov["indices_compared_with_model"], cov["entries_compared"]))
    print("  programs with >= 2 non-full indices on some relation: %d; with multi-head rules: %d (%d such rules); with a zero-arity relation: %d; families %s" % (
        cov["programs_with_2_nonfull_indices_on_a_relation"], cov["programs_with_multi_head_rules"], cov["multi_head_rules"], cov["programs_with_zero_arity_relation"], cov["families"]))
    print("  indices per relation %s; non-empty non-full indices %d; absent keys probed %d; model too slow (skipped) %d" % (
        cov["indices_per_relation_histogram"], cov["nonfull_nonempty_indices"], cov["absent_keys_probed"], cov["programs_model_too_slow"]))
    print("  wall %.1fs (%s)" % (time.time() - t0, cov["wall"]))
    ms = res["mismatches"]
    # every mismatch is in res["mismatches"]; printed: per program the first few (index fields first), for the first programs
    by_prog = collections.OrderedDict()
    for m in ms:
        by_prog.setdefault(m["case"].get("id"), []).append(m)
    shown = 0
    for pid, lst in list(by_prog.items())[:PRINT_PROGRAMS]:
        lst = sorted(lst, key=lambda m: 0 if "index field" in m["what"] else 1)
        cs = lst[0]["case"]
        print("MISMATCH in program %s: %s" % (pid, cs.get("program", "").replace("\n", " | ")))
        for m in lst[:PRINT_PER_PROGRAM]:
            shown += 1
            print("   kind=%s %s" % (m["kind"], m["what"]))
            if "F0" in m["case"]:
                print("      F0=%s F1=%s" % (json.dumps(m["case"]["F0"]), json.dumps(m["case"]["F1"])))
    if len(ms) > shown:
        print("... %d more mismatches (%d programs affected)" % (len(ms) - shown, len(by_prog)))
    print("mismatches: %d (model_differs %d, impl_violates_spec %d)" % (len(ms), sum(1 for m in ms if m["kind"] == "model_differs"), sum(1 for m in ms if m["kind"] == "impl_violates_spec")))
    return 1 if ms else 0


if __name__ == "__main__":
    sys.exit(main())
