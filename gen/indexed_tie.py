"""Tie of the per-index engine model (coq/Engine/IndexedEval.v + Engine/IndexedHistory.v) to the REAL index fields of the generated
program struct, over HISTORIES of one program value.

For generated programs (serial `ascent!`, plain relations; two thirds with `#![generate_run_timeout]`, where run() is
run_timeout(Duration::MAX), the others with the plain run() body) the PROG harness runs histories made of

  set F        the Vec fields of the relations are assigned (first step)
  push F       rows appended to the Vec fields
  over G       the Vec fields of the relations in G are OVERWRITTEN with other rows (same / smaller / larger count, a permutation of
               the same rows, nothing), the others untouched - what a caller does who re-uses a program value for another query
  run          p.run()
  timeout k    p.run_timeout(..) under the hook's virtual clock: the k-th deadline check finds the timeout expired

(kinds: push = set; run; push; run / overwrite = set; run; over; run / resume = set; timeout; [timeout;] run /
 rerun_timeout = set; run; push|over; timeout; run / timeout_overwrite = set; timeout; over; run)
and prints, around EVERY call of run() / run_timeout(), the rows before the call, the returned flag, the rows after it and the content of
EVERY physical index field of every relation (`<rel>_indices_<cols>` / `<rel>_indices_none`), read only through the public traits the
generated code itself uses (ToRelIndex::to_rel_index, RelIndexReadAll::iter_all, RelIndexRead::index_get / len_estimate).  The same
histories are evaluated in Coq with IndexedHistory.run_history_idx on the plan dumped by the real front end, and compared:

  impl_violates_spec   (specification oracle, computed from the REAL rows found before the call; positive programs)
                       after run() / run_timeout() == true the relations are not the least model (Coq naive_fix, proved correct:
                       c01_oracle_correct) of the rows present when the call started; the rows present before the call are not an
                       unmodified prefix; a row was added twice / again; after run_timeout() == false a row is not derivable;
                       (all programs) after a completed call an index field does not hold exactly the rows of the relation's Vec
                       (with multiplicity for hash indices, as a set for the full index), or index_get disagrees with iter_all
  model_differs        returned flag / key set / per-key value multiset / len_estimate of an index field / the rows of a relation differ
                       from the model's (after interrupted calls too: the index fields the interrupted SCC had moved out are empty,
                       the others intact); plan_idx_ok / fact_idx_ok false; model out of fuel

  python3 -m gen.indexed_tie quick|thorough|corpus [seed]        (exit code 1 on any mismatch)
  run_tie(tier, seed) -> dict(evaluations, distinct_nontrivial, mismatches, coverage, rule)   for the property module (C01)

corpus/INDEXED.jsonl (one case per line: name, note, prog = program AST of gen/dl.py, pairs = [[F0, F1]..] and / or
hists = [[step..]..] with steps ["set", F] ["push", F] ["over", G] ["run"] ["timeout", k]) runs first on every invocation.
"""
import collections
import json
import os
import sys
import time

from . import dl, gen_dl, lib, prog

PRELUDE = ("From Coq Require Import List ZArith Bool.\n"
           "From AV Require Import Engine.Core Engine.Sem Engine.Eval Engine.Vocab Engine.IndexedEval Engine.IndexedHistory.\n"
           "Import ListNotations.\nOpen Scope Z_scope.\n")
FUEL = 200
ATTRS = ["#![generate_run_timeout]"]
RETFMT = "snaps.push(format!(\"{{\\\"__ret\\\":[[\\\"{}\\\"]]}}\", __r));"
CORPUS = os.path.join(lib.VERIF, "corpus", "INDEXED.jsonl")
MAX_ARITY = 4
PRINT_PROGRAMS, PRINT_PER_PROGRAM = 8, 4

# ------------------------------------------------------------------ Rust side: dump of the index fields

RUST_PRE = r"""
use ascent::internal::RelIndexRead as IxRelIndexRead;
pub trait IxInts: Sized { fn ints(&self) -> Vec<i64>; fn probes() -> Vec<Self>; }
impl IxInts for () { fn ints(&self) -> Vec<i64> { vec![] } fn probes() -> Vec<Self> { vec![()] } }
impl IxInts for (i32,) { fn ints(&self) -> Vec<i64> { vec![self.0 as i64] }
   fn probes() -> Vec<Self> { (-2..9).map(|v| (v,)).collect() } }
impl IxInts for (i32, i32) { fn ints(&self) -> Vec<i64> { vec![self.0 as i64, self.1 as i64] }
   fn probes() -> Vec<Self> { let mut r = vec![]; for a in -1..8 { for b in -1..8 { r.push((a, b)); } } r } }
impl IxInts for (i32, i32, i32) { fn ints(&self) -> Vec<i64> { vec![self.0 as i64, self.1 as i64, self.2 as i64] }
   fn probes() -> Vec<Self> { let mut r = vec![]; for a in -1..8 { for b in 0..7 { for c in [-1, 0, 1, 2, 3, 5, 7] { r.push((a, b, c)); } } } r } }
impl IxInts for (i32, i32, i32, i32) { fn ints(&self) -> Vec<i64> { vec![self.0 as i64, self.1 as i64, self.2 as i64, self.3 as i64] }
   fn probes() -> Vec<Self> { let mut r = vec![]; for a in [-1, 0, 1, 2, 5] { for b in [0, 1, 3, 4] { for c in [-1, 0, 2, 5] { for d in [0, 1, 2, 3, 4, 5, 9] { r.push((a, b, c, d)); } } } } r } }
pub fn ix_probes<'a, I: IxRelIndexRead<'a>>(_ix: &'a I) -> Vec<I::Key> where I::Key: IxInts { <I::Key as IxInts>::probes() }
pub fn ix_json(v: &Vec<i64>) -> String { format!("[{}]", v.iter().map(|x| x.to_string()).collect::<Vec<_>>().join(",")) }
macro_rules! dump_ix {
   ($field: expr, $ix: expr) => {{
      let ix = $ix;
      let mut ents: Vec<(Vec<i64>, Vec<Vec<i64>>)> = vec![];
      let mut get_ok = true;
      for (k, vs) in ix.iter_all() {
         let mut vals: Vec<Vec<i64>> = vs.map(|v| v.ints()).collect();
         vals.sort();
         // index_get of a key listed by iter_all returns the same values
         match ix.index_get(k) {
            Some(it) => { let mut g: Vec<Vec<i64>> = it.map(|v| v.ints()).collect(); g.sort(); if g != vals { get_ok = false; } },
            None => { get_ok = false; }
         }
         ents.push((k.ints(), vals));
      }
      ents.sort();
      // index_get of a key iter_all does not list is None (and Some for the listed ones)
      let mut probe_ok = true;
      let mut nprobe = 0usize;
      for pk in ix_probes(ix) {
         let present = ents.iter().any(|e| e.0 == pk.ints());
         if ix.index_get(&pk).is_some() != present { probe_ok = false; }
         if !present { nprobe += 1; }
      }
      let es: Vec<String> = ents.iter().map(|(k, vs)| format!("[{},[{}]]", ix_json(k), vs.iter().map(ix_json).collect::<Vec<_>>().join(","))).collect();
      format!("{{\"field\":\"{}\",\"len\":{},\"get_ok\":{},\"probe_ok\":{},\"absent_probed\":{},\"ents\":[{}]}}", $field, ix.len_estimate(), get_ok, probe_ok, nprobe, es.join(","))
   }};
}
"""


def field_name(rel, cols):
    return "%s_indices_%s" % (rel, "_".join(str(c) for c in cols) if cols else "none")


def dump_step(relations):
    """('raw', rust) script step: pushes one JSON object {"indices": [...]} describing every index field"""
    parts = []
    for r in relations:
        for cols in r["indices"]:
            f = field_name(r["name"], cols)
            parts.append('dump_ix!("%s", p.%s.to_rel_index(&p.__%s_ind_common))' % (f, f, r["name"]))
    code = "{ use ascent::internal::{RelIndexRead, RelIndexReadAll, ToRelIndex0}; let parts: Vec<String> = vec![%s]; snaps.push(format!(\"{{\\\"indices\\\":[{}]}}\", parts.join(\",\"))); }" % ", ".join(parts)
    return ("raw", code)


# ------------------------------------------------------------------ programs

def V(x):
    return ("v", x)


def rule(heads, body):
    return dict(heads=heads, body=body)


def cl(rel, *args):
    return ("clause", rel, [a if isinstance(a, tuple) else (("w",) if a == "_" else (("c", a) if isinstance(a, int) else V(a))) for a in args], [])


def hd(rel, *args):
    return (rel, [a if isinstance(a, tuple) else (("c", a) if isinstance(a, int) else V(a)) for a in args])


def gen_multi_index(rng):
    """a relation r read through several different column sets in different rules (3-5 physical indices incl. `[]`), recursion
    through r, heads into r from several rules, sometimes several heads per rule"""
    ar = rng.choice([2, 3, 3, 3])
    rels = [("e", 2, "rel"), ("s", 1, "rel"), ("r", ar, "rel"), ("q1", 1, "rel"), ("q2", 2, "rel")]
    subsets = []
    allsub = [[i for i in range(ar) if (m >> i) & 1] for m in range(1, 2 ** ar)]
    rng.shuffle(allsub)
    for s in allsub[:rng.choice([2, 3, 3, 4])]:
        subsets.append(s)
    rules = []
    # rows enter r from e / s
    if ar == 2:
        rules.append(rule([hd("r", "x", "y")], [cl("e", "x", "y")]))
    else:
        rules.append(rule([hd("r", "x", "y", "z")], [cl("e", "x", "y"), cl("s", "z")]) if rng.random() < 0.5 else
                     rule([hd("r", "x", "y", "x")], [cl("e", "x", "y")]))
    for k, S in enumerate(subsets):
        names = ["a", "b", "c"]
        body = []
        if len(S) == 1:
            body.append(cl("s", names[0]) if rng.random() < 0.6 else cl("q1", names[0]))
        elif len(S) == 2:
            body.append(cl("e", names[0], names[1]) if rng.random() < 0.6 else cl("q2", names[1], names[0]))
        else:
            body += [cl("e", names[0], names[1]), cl("s", names[2])]
        args, fresh = [], []
        j = 0
        for i in range(ar):
            if i in S:
                u = rng.random()
                if u < 0.12:
                    args.append(rng.choice(gen_dl.DOM))        # a constant is an index column as well
                else:
                    args.append(names[j])
                j += 1
            elif rng.random() < 0.25:
                args.append("_")
            else:
                x = "f%d" % i
                args.append(x)
                fresh.append(x)
        if rng.random() < 0.3:
            body = [cl("r", *args)] + body           # r first: read through `[]` or through the join's index
        else:
            body.append(cl("r", *args))
        scope = [x for x in names[:len(S)]] + fresh
        u = rng.random()
        pick = lambda: rng.choice(scope)
        if u < 0.35:
            heads = [hd("r", *[pick() for _ in range(ar)])]                       # recursion through r
        elif u < 0.55:
            heads = [hd("q1", pick()), hd("r", *[pick() for _ in range(ar)])]     # several heads
        elif u < 0.7:
            heads = [hd("q2", pick(), pick()), hd("q1", pick())]
        elif u < 0.85:
            heads = [hd("q2", pick(), pick())]
        else:
            heads = [hd("s", pick())]
        rules.append(rule(heads, body))
    if rng.random() < 0.5:
        rules.append(rule([hd("q1", "x")], [cl("r", *(["x"] + ["_"] * (ar - 1)))]))     # r through `[]`
    if rng.random() < 0.4:
        rules.append(rule([hd("e", "y", "x")], [cl("q2", "x", "y"), cl("s", "x")]))
    rng.shuffle(rules)
    return dict(rels=rels, rules=rules, shape="multi_index")


def gen_multi_head(rng):
    """rules with two / three heads (a(x,y), b(y,x) <-- ...), a zero-arity relation among heads and bodies, recursion"""
    rels = [("a", 2, "rel"), ("b", 2, "rel"), ("c", 2, "rel"), ("u", 1, "rel"), ("z", 0, "rel")]
    ar = dict((n, k) for n, k, _ in rels)
    rules = [rule([hd("a", "x", "y"), hd("b", "y", "x")], [cl("c", "x", "y")])]
    for _ in range(rng.choice([2, 3, 3, 4])):
        nb = rng.choice([1, 2, 2, 3])
        body, scope = [], []
        nv = [0]

        def var():
            u = rng.random()
            if scope and u < 0.45:
                return rng.choice(scope)
            nv[0] += 1
            x = "x%d" % nv[0]
            return x
        for _ in range(nb):
            n = rng.choice(["a", "a", "b", "b", "c", "u", "z"])
            args = []
            for _ in range(ar[n]):
                u = rng.random()
                args.append(rng.choice(gen_dl.DOM) if u < 0.08 else ("_" if u < 0.14 else var()))
            scope += [x for x in args if isinstance(x, str) and x != "_" and x not in scope]
            body.append(cl(n, *args))
        heads = []
        for _ in range(rng.choice([2, 2, 2, 3])):
            n = rng.choice(["a", "a", "b", "b", "u", "z", "c"])
            heads.append(hd(n, *[(rng.choice(scope) if scope and rng.random() < 0.9 else rng.choice(gen_dl.DOM)) for _ in range(ar[n])]))
        rules.append(rule(heads, body))
    if rng.random() < 0.5:
        rules.append(rule([hd("b", "x", "y")], [cl("z"), cl("c", "y", "x")]))
    rng.shuffle(rules)
    return dict(rels=rels, rules=rules, shape="multi_head")


def with_duplicates(rng, inp):
    """some rows of the input repeated (the Vec fields are public: a caller may store a row twice)"""
    out = {}
    for rel, ts in inp.items():
        ts = list(ts)
        if ts and rng.random() < 0.6:
            for _ in range(rng.choice([1, 1, 2, 3])):
                ts.insert(rng.randrange(len(ts) + 1), rng.choice(ts))
        out[rel] = ts
    return out


def gen_pair(rng, p, k):
    """(F0, F1): F1 holds rows already present in F0 and new ones"""
    styles = ["small", "mixed", "sparse_chain", "small", "mixed"]
    f0 = gen_dl.gen_input(rng, p["rels"], style=styles[k % len(styles)] if rng.random() < 0.8 else "some_empty")[0]
    dup0 = rng.random() < 0.4
    if dup0:
        f0 = with_duplicates(rng, f0)
    f1 = gen_dl.gen_input(rng, p["rels"], style="small")[0]
    for rel in f1:
        old = f0.get(rel, [])
        if old and rng.random() < 0.5:
            f1[rel] = f1[rel] + [rng.choice(old) for _ in range(rng.choice([1, 2]))]
            rng.shuffle(f1[rel])
    dup1 = rng.random() < 0.2
    if dup1:
        f1 = with_duplicates(rng, f1)
    return f0, f1


def program_ok(p):
    return all(k == "rel" and a <= MAX_ARITY for _, a, k in p["rels"])


def positive(p):
    """no aggregate / negation: the least-model oracle of C01 applies"""
    return not (gen_dl.program_features(p) & {"agg", "neg"})


# ------------------------------------------------------------------ histories

def body_rels(p):
    out = []
    for r in p["rules"]:
        for it in r["body"]:
            n = it[1] if it[0] in ("clause", "neg") else (it[4] if it[0] == "agg" else None)
            if n is not None and n not in out:
                out.append(n)
    return out


def head_rels(p):
    return sorted({h[0] for r in p["rules"] for h in r["heads"]})


def other_rows(rng, arity, n, avoid):
    """n distinct rows over the value domain, as different from `avoid` as the domain allows"""
    if arity == 0:
        return [()] if n else []
    out, seen = [], set()
    space = len(gen_dl.DOM) ** arity
    n = min(n, space)
    tries = 0
    while len(out) < n and tries < 40 * n + 40:
        tries += 1
        t = tuple(rng.choice(gen_dl.DOM) for _ in range(arity))
        if t in seen or (t in avoid and tries < 20 * n):
            continue
        seen.add(t)
        out.append(t)
    return out


def overwrite_rows(rng, arity, cur):
    """(mode, rows): other contents for a relation that holds the rows `cur` (count known: a relation no rule writes)"""
    cur = list(cur)
    dist = list(dict.fromkeys(cur))
    n = len(dist)
    modes = ["same_count", "same_count", "same_count", "shift", "shift", "swap_cols", "permute", "smaller", "smaller", "larger", "larger", "empty"]
    mode = rng.choice(modes)
    if n == 0 and mode in ("same_count", "shift", "swap_cols", "permute", "smaller", "empty"):
        mode = "larger"
    if arity == 0:
        return ("empty", []) if cur else ("larger", [()])
    if mode == "same_count":
        rows = other_rows(rng, arity, n, set(dist))
    elif mode == "shift":
        c = rng.randrange(arity)
        d = rng.choice([1, 1, 2, 3])
        rows = [tuple(((v + d) % len(gen_dl.DOM)) if i == c else v for i, v in enumerate(t)) for t in dist]
    elif mode == "swap_cols":
        rows = [tuple(reversed(t)) for t in dist] if arity > 1 else other_rows(rng, arity, n, set(dist))
    elif mode == "permute":
        rows = list(dist)
        rng.shuffle(rows)
    elif mode == "smaller":
        k = rng.randrange(0, n) if n > 1 else 0
        rows = rng.sample(dist, k) if rng.random() < 0.5 else other_rows(rng, arity, k, set(dist))
    elif mode == "larger":
        rows = (dist if rng.random() < 0.5 else other_rows(rng, arity, n, set(dist))) + other_rows(rng, arity, rng.choice([1, 2, 4]), set(dist))
        rows = list(dict.fromkeys(rows))
    else:
        rows = []
    return mode, rows


def gen_over(rng, p, f0):
    """({rel: rows}, [modes]): the caller re-uses the program value: 1-2 relations the rules READ get other contents (preferably
    relations no rule writes, whose row count at that point is known: |F0[rel]|), the derived relations are sometimes cleared"""
    heads = head_rels(p)
    ar = {n: a for n, a, _ in p["rels"]}
    reads = body_rels(p) or [n for n, _, _ in p["rels"]]
    inputs = [n for n in reads if n not in heads]
    g, modes = {}, []
    pool = inputs if (inputs and rng.random() < 0.85) else reads
    for rel in rng.sample(pool, min(len(pool), rng.choice([1, 1, 2]))):
        mode, rows = overwrite_rows(rng, ar[rel], f0.get(rel, []))
        if rel in heads:
            mode = "derived_" + mode
        g[rel] = rows
        modes.append(mode)
    u = rng.random()
    if u < 0.4:
        for h in heads:
            g.setdefault(h, [])
        modes.append("results_cleared")
    elif u < 0.55:
        for h in heads:
            g.setdefault(h, list(f0.get(h, [])))
        modes.append("results_reset")
    return g, modes


TIMEOUT_KINDS = ["resume", "rerun_timeout", "timeout_overwrite", "resume", "timeout_overwrite", "rerun_timeout"]


def gen_hist(rng, p, kind, k):
    if kind == "push":
        f0, f1 = gen_pair(rng, p, k)
        return dict(kind=kind, steps=[["set", f0], ["run"], ["push", f1], ["run"]])
    style = rng.choice(["sparse_chain", "mixed", "small", "dense"] if kind != "overwrite" else ["small", "mixed", "sparse_chain", "mixed"])
    f0 = gen_dl.gen_input(rng, p["rels"], style=style if rng.random() < 0.85 else "some_empty")[0]
    if rng.random() < 0.15:
        f0 = with_duplicates(rng, f0)
    if kind == "overwrite":
        g, modes = gen_over(rng, p, f0)
        return dict(kind=kind, modes=modes, steps=[["set", f0], ["run"], ["over", g], ["run"]])
    if kind == "resume":
        ks = [rng.choice([1, 1, 2, 3])] + ([rng.choice([1, 2])] if rng.random() < 0.3 else [])
        return dict(kind=kind, steps=[["set", f0]] + [["timeout", x] for x in ks] + [["run"]])
    if kind == "rerun_timeout":
        if rng.random() < 0.5:
            mid, modes = ["push", {r: ts for r, ts in gen_dl.gen_input(rng, p["rels"], style="small")[0].items() if ts}], ["push"]
        else:
            g, modes = gen_over(rng, p, f0)
            mid = ["over", g]
        return dict(kind=kind, modes=modes, steps=[["set", f0], ["run"], mid, ["timeout", rng.choice([1, 1, 2])], ["run"]])
    if kind == "timeout_overwrite":
        g, modes = gen_over(rng, p, f0)
        return dict(kind=kind, modes=modes, steps=[["set", f0], ["timeout", rng.choice([1, 1, 2, 3])], ["over", g], ["run"]])
    raise ValueError(kind)


def gen_cases(tier, seed):
    rng = lib.rng_for(seed, "INDEXED")
    n = {"corpus": 0, "quick": 96}.get(tier, 400)
    cases = []
    i = 0
    while len(cases) < n:
        i += 1
        fam = ["core", "multi_index", "core", "strat", "multi_head", "core", "multi_index", "multi_head"][len(cases) % 8]
        if fam == "core":
            p = gen_dl.gen_program(rng, dict(p_two_heads=0.25))
        elif fam == "strat":
            p = gen_dl.gen_strat_program(rng)
        elif fam == "multi_index":
            p = gen_multi_index(rng)
        else:
            p = gen_multi_head(rng)
        if not program_ok(p):
            continue
        c = len(cases)
        # with #![generate_run_timeout] run() IS run_timeout(Duration::MAX); without it run() has its own generated body: a third of
        # the programs is compiled without the attribute (histories push / overwrite only) so that both bodies are exercised
        with_timeout = (c % 3 != 1)
        if with_timeout:
            t = c - c // 3
            kinds = ["push" if t % 2 == 0 else "overwrite", TIMEOUT_KINDS[t % len(TIMEOUT_KINDS)], TIMEOUT_KINDS[(t + 1) % len(TIMEOUT_KINDS)]]
        else:
            kinds = ["push", "overwrite", "overwrite"]
        if tier != "quick":
            kinds.append(rng.choice(["push", "overwrite"] + (TIMEOUT_KINDS if with_timeout else [])))
        hists = [gen_hist(rng, p, kind, k) for k, kind in enumerate(kinds)]
        cases.append(dict(id="ix_%d" % c, family=fam, prog=dict(rels=p["rels"], rules=p["rules"]), hists=hists))
    return cases


def uses_timeout(c):
    return any(st[0] == "timeout" for h in c["hists"] for st in h["steps"])


def _tuplify(x):
    if isinstance(x, list):
        return tuple(_tuplify(y) for y in x)
    return x


def _rows(d):
    return {r: [tuple(t) for t in ts] for r, ts in d.items()}


def prog_from_json(o):
    """program AST after a JSON round trip; items are tuples whose list-valued fields (args, conds, bound) the renderers only iterate"""
    return dict(rels=[tuple(r) for r in o["rels"]], rules=[dict(heads=[(h[0], [_tuplify(t) for t in h[1]]) for h in r["heads"]],
                                                                body=[_tuplify(it) for it in r["body"]]) for r in o["rules"]])


def steps_from_json(steps):
    return [[st[0]] + ([_rows(st[1])] if st[0] in ("set", "push", "over") else list(st[1:])) for st in steps]


def replay_case(case):
    """re-run the history of a stored mismatch (case = the `case` field of a replay file) -> list of mismatches"""
    c = dict(id="replay", family=case.get("family", "replay"), prog=prog_from_json(case["prog_ast"]),
             hists=[dict(kind=case.get("history_kind", "replay"), steps=steps_from_json(case["history"]))])
    results, _ = run_cases([c], "indexed_replay")
    stats = collections.Counter()
    mism = []
    for r in results:
        if r["skipped"]:
            r["model"] = None
        mism += compare_result(r, stats)
    return mism, stats


def load_corpus():
    cases = []
    if not os.path.exists(CORPUS):
        return cases
    for ln, line in enumerate(open(CORPUS)):
        line = line.strip()
        if not line or line.startswith("#"):
            continue
        o = json.loads(line)
        p = prog_from_json(o["prog"])
        hists = [dict(kind="push", steps=[["set", _rows(a)], ["run"], ["push", _rows(b)], ["run"]]) for a, b in o.get("pairs", [])]
        for steps in o.get("hists", []):
            hists.append(dict(kind="corpus", steps=steps_from_json(steps)))
        cases.append(dict(id="ixc_%s" % o.get("name", ln), family="corpus", prog=p, hists=hists))
    return cases


# ------------------------------------------------------------------ running

def facts_of_input(inp, rels):
    fs = []
    for name, _, _ in rels:
        for t in inp.get(name, []):
            fs.append((name, tuple(t)))
    return fs


def coq_decls(dump, R):
    ds = []
    for r in dump["relations"]:
        for cols in r["indices"]:
            ds.append("(%s, %s, %s)" % (dl.cnat(R(r["name"])), dl.cnat(r["arity"]), dl.cnats(cols)))
    return dl.coq_list(ds)


def calls_of(steps):
    """the run() / run_timeout() calls of a history: [('run', None) | ('timeout', k)]"""
    return [(st[0], st[1] if st[0] == "timeout" else None) for st in steps if st[0] in ("run", "timeout")]


def script_of(steps, dstep):
    """PROG script; per call four snapshots: rows before, returned flag, rows after, every index field"""
    sc = []
    for st in steps:
        if st[0] in ("set", "over"):
            sc.append(("set", st[1]))          # prog.py's `set` assigns exactly the listed Vec fields
        elif st[0] == "push":
            sc.append(("push", st[1]))
        elif st[0] == "run":
            sc += [("snap",), ("run",), ("raw", 'snaps.push("{\\"__ret\\":[[\\"true\\"]]}".to_string());'), ("snap",), dstep]
        elif st[0] == "timeout":
            sc += [("snap",), ("raw", "ascent::verif_hooks::arm_clock(true); let __r = p.run_timeout(std::time::Duration::from_secs(%d)); ascent::verif_hooks::arm_clock(false); %s" % (st[1], RETFMT)),
                   ("snap",), dstep]
        else:
            raise ValueError(st)
    return sc


def coq_steps(steps, p, R, allf):
    out = []
    for st in steps:
        if st[0] in ("set", "over"):
            fs = facts_of_input(st[1], p["rels"])
            allf += fs
            out.append("HSet %s %s" % (dl.cnats(R(n) for n, _, _ in p["rels"] if n in st[1]), dl.coq_facts(fs, R)))
        elif st[0] == "push":
            fs = facts_of_input(st[1], p["rels"])
            allf += fs
            out.append("HPush %s" % dl.coq_facts(fs, R))
        elif st[0] == "run":
            out.append("HRun")
        else:
            out.append("HTimeout %s" % dl.cnat(st[1]))
    return dl.coq_list(out)


def model_expr(p, dump, hists):
    """ONE Coq expression per program: (plan_idx_ok, all facts declared, [history per hist])"""
    R = dl.Names()
    for name, _, _ in p["rels"]:
        R(name)
    plan, _ = dl.coq_plan(dump, R)
    decls = coq_decls(dump, R)
    allf, hs = [], []
    for h in hists:
        hs.append("run_history_idx std_interp std_swap %d%%nat pl %s (init_istate ds [])" % (FUEL, coq_steps(h["steps"], p, R, allf)))
    allf = list(dict.fromkeys(allf))
    e = "let pl := %s in let ds := %s in (plan_idx_ok ds pl, forallb (fact_idx_ok ds) %s, %s)" % (plan, decls, dl.coq_facts(allf, R), dl.coq_list(hs))
    inv = {v: k for k, v in R.d.items()}
    return e, inv, R


def run_cases(cases, tag, coq_timeout=60):
    """-> list of result dicts (case, text, dump, impl, model, spec, ...)"""
    texts = {c["id"]: dl.rust_program_text(c["prog"]) for c in cases}
    t0 = time.time()
    dumps = prog.front_run([(c["id"], "ascent", texts[c["id"]]) for c in cases])
    t1 = time.time()
    jobs = []
    for c in cases:
        d = dumps.get(c["id"])
        if d is None or d.get("status") != "ok" or "sccs" not in d:
            continue
        if any(r["lattice"] for r in d["relations"]):
            continue
        dstep = dump_step(d["relations"])
        scripts = [script_of(h["steps"], dstep) for h in c["hists"]]
        jobs.append(dict(id=c["id"], text=texts[c["id"]], attrs=ATTRS if uses_timeout(c) else [], macro="ascent", rels=c["prog"]["rels"], scripts=scripts, pre=RUST_PRE))
    impl = prog.build_and_run(tag, jobs, nbins=min(lib.NCPU, max(1, len(jobs) // 3)), features=("verif_hooks",)) if jobs else {}
    t2 = time.time()
    groups, gids, invs, parse_errors = [], [], {}, {}
    sgroups, sgids, skeys = [], [], {}
    for c in cases:
        d = dumps.get(c["id"])
        if c["id"] not in impl:
            continue
        try:
            e, inv, R = model_expr(c["prog"], d, c["hists"])
        except (dl.ParseError, AssertionError, KeyError, IndexError) as ex:
            parse_errors[c["id"]] = repr(ex)
            continue
        invs[c["id"]] = inv
        groups.append([e])
        gids.append(c["id"])
        # specification oracle: the least model (naive_fix; c01_oracle_correct) of the rows the REAL program value held before each call
        if positive(c["prog"]):
            rules = dl.coq_list(dl.coq_rule(r, R) for r in c["prog"]["rules"])
            keys, exprs = [], []
            for k, h in enumerate(c["hists"]):
                iv = impl[c["id"]][k]
                ncall = len(calls_of(h["steps"]))
                if "snaps" not in iv or len(iv["snaps"]) != 4 * ncall:
                    continue
                for j in range(ncall):
                    pre = prog.rows_snap(iv["snaps"][4 * j])
                    key = tuple(sorted(set(facts_of_input(pre, c["prog"]["rels"]))))
                    if key not in keys:
                        keys.append(key)
                        exprs.append("naive_fix std_interp %d%%nat %s %s" % (FUEL, rules, dl.coq_facts(list(key), R)))
            if exprs:
                sgroups.append(exprs)
                sgids.append(c["id"])
                skeys[c["id"]] = keys
    # the Coq case files are keyed by the tag: two runs at the same time must not share them
    vals = lib.coq_eval_groups("%s_%d" % (tag, os.getpid()), PRELUDE, groups, timeout=coq_timeout)
    t3 = time.time()
    svals = lib.coq_eval_groups("%s_spec_%d" % (tag, os.getpid()), PRELUDE, sgroups, timeout=coq_timeout)
    t4 = time.time()
    byid = dict(zip(gids, vals))
    spec = {}
    for cid, vs in zip(sgids, svals):
        if vs is None:
            continue
        inv = invs[cid]
        spec[cid] = {}
        for key, v in zip(skeys[cid], vs):
            spec[cid][key] = None if v == "None" else set((inv[r], tuple(t)) for (r, t) in v[1])
    out = []
    for c in cases:
        d = dumps.get(c["id"], {})
        out.append(dict(case=c, text=texts[c["id"]], dump=d, front_status=d.get("status"), front_errors=d.get("errors"), impl=impl.get(c["id"]),
                        parse_error=parse_errors.get(c["id"]), model=byid.get(c["id"]), inv=invs.get(c["id"]), spec=spec.get(c["id"]),
                        skipped=(c["id"] in byid and byid[c["id"]] is None)))
    return out, dict(front=t1 - t0, cargo_and_run=t2 - t1, coq=t3 - t2, coq_spec=t4 - t3)


# ------------------------------------------------------------------ comparison

def split_entry(cols, arity, tup):
    key = tuple(tup[i] for i in cols)
    val = tuple(tup[i] for i in range(arity) if i not in cols)
    return key, val


def multiset_diff(a, b):
    """Counter a (expected) vs Counter b (got) -> (missing, extra, wrong multiplicity)"""
    missing = sorted(k for k in a if k not in b)
    extra = sorted(k for k in b if k not in a)
    wrong = sorted((k, a[k], b[k]) for k in a if k in b and a[k] != b[k])
    return missing, extra, wrong


def fmt_diff(missing, extra, wrong, exp_name):
    parts = []
    if missing:
        parts.append("missing (key, value) %s" % missing[:6])
    if extra:
        parts.append("extra (key, value) %s" % extra[:6])
    if wrong:
        parts.append("wrong multiplicity (entry, %s, index field) %s" % (exp_name, wrong[:6]))
    return "; ".join(parts)


def describe(steps, upto=None):
    """one-line description of a history (up to and including call number `upto`)"""
    parts, ncall = [], 0
    for st in steps:
        if st[0] == "run":
            parts.append("run()")
            ncall += 1
        elif st[0] == "timeout":
            parts.append("run_timeout(fires at deadline check #%d)" % st[1])
            ncall += 1
        elif st[0] == "set":
            parts.append("set the relations")
        elif st[0] == "push":
            parts.append("push rows into %s" % ", ".join(sorted(r for r, ts in st[1].items() if ts)))
        else:
            parts.append("overwrite %s" % ", ".join("%s (%d rows)" % (r, len(st[1][r])) for r in sorted(st[1])))
        if upto is not None and ncall > upto:
            break
    return "; ".join(parts)


def spec_check(rels, pre, post, ret, lm):
    """the property's statement on the REAL data of one call: pre / post = {rel: rows in order}, lm = least model of pre (set of facts)
    or None when the oracle ran out of fuel -> list of reasons"""
    why = []
    for name, _, _ in rels:
        a, b = pre.get(name, []), post.get(name, [])
        if b[:len(a)] != a:
            why.append("the rows %s held before the call are not an unmodified prefix of its rows afterwards" % name)
            continue
        added = b[len(a):]
        if len(set(added)) != len(added):
            why.append("%s: a derived row was appended twice (%s)" % (name, sorted(t for t in set(added) if added.count(t) > 1)[:4]))
        again = sorted(set(added) & set(a))
        if again:
            why.append("%s: rows already present were appended again: %s" % (name, again[:4]))
    if lm is None:
        return why
    got = set(facts_of_input(post, rels))
    under = sorted(got - lm)
    if under:
        why.append("tuples that are NOT derivable from the rows present before the call: %s" % under[:6])
    if ret:
        missing = sorted(lm - got)
        if missing:
            why.append("derivable tuples MISSING (not the least model of the rows present before the call): %s" % missing[:6])
    return why


def compare_indices(mism, stats, cs, decl, rows, real, m_idx, completed, after):
    for name, ar, cols in decl:
        f = field_name(name, cols)
        full = (len(cols) == ar)
        ix = real.get(f)
        if ix is None:
            raise lib.Infra("index field %s missing from the dump of %s" % (f, cs["id"]))
        got = collections.Counter()
        for key, vals in ix["ents"]:
            for v in vals:
                got[(tuple(key), tuple(v))] += 1
        nkeys = len(ix["ents"])
        stats["indices"] += 1
        stats["entries"] += sum(got.values())
        stats["absent_probes"] += ix["absent_probed"]
        if not full and sum(got.values()) > 0:
            stats["nonfull_nonempty"] += 1
        # --- oracle on the real data only: after a COMPLETED call the index holds exactly the rows of the Vec field
        exp = collections.Counter()
        for t in rows.get(name, []):
            exp[split_entry(cols, ar, t)] += 1
        if full:
            exp = collections.Counter(dict.fromkeys(exp, 1))
        d = multiset_diff(exp, got)
        bad_len = ix["len"] != nkeys
        if completed and (any(d) or bad_len or not ix["get_ok"] or not ix["probe_ok"]):
            why = fmt_diff(d[0], d[1], d[2], "rows of the Vec field")
            if bad_len:
                why += "; len_estimate %d but iter_all lists %d keys" % (ix["len"], nkeys)
            if not ix["get_ok"]:
                why += "; index_get(key) differs from the values iter_all lists under the key"
            if not ix["probe_ok"]:
                why += "; index_get is Some for a key iter_all does not list (or None for a listed one)"
            mism.append(dict(case=dict(cs, index=f), impl=dict(index=ix, rows=sorted(rows.get(name, []))), model=None,
                             spec="every index field of a relation holds exactly the rows of the relation (hash index: with multiplicity; full index: as a set)",
                             kind="impl_violates_spec", known=None,
                             what="index field %s %s does not agree with the %d rows of relation %s: %s" % (f, after, len(rows.get(name, [])), name, why.strip("; "))))
        if not completed and any(d):
            stats["stale_fields_after_interruption"] += 1
            if not full and not got and rows.get(name):
                stats["partial_index_emptied_by_interruption"] += 1
        # --- against the model
        if m_idx is not None:
            ments = m_idx.get(f)
            if ments is None:
                raise lib.Infra("model has no index %s (%s)" % (f, cs["id"]))
            mexp = collections.Counter()
            for key, t in ments:
                kk, vv = split_entry(cols, ar, tuple(t))
                if tuple(key) != kk:
                    kk = tuple(key)         # the model's own key is what is compared
                mexp[(kk, vv)] += 1
            mkeys = len({kv[0] for kv in mexp})
            d = multiset_diff(mexp, got)
            if any(d) or ix["len"] != mkeys:
                why = fmt_diff(d[0], d[1], d[2], "model")
                if ix["len"] != mkeys:
                    why += "; len_estimate %d, model %d keys" % (ix["len"], mkeys)
                mism.append(dict(case=dict(cs, index=f), impl=dict(index=ix), model=dict(entries=ments), spec=None, kind="model_differs", known=None,
                                 what="index field %s %s differs from the model's stored index (%s, %s): %s" % (f, after, name, cols, why.strip("; "))))
            stats["indices_vs_model"] += 1


def compare_result(r, stats):
    mism = []
    c = r["case"]
    rels = c["prog"]["rels"]
    base = dict(program=r["text"], attrs=ATTRS if uses_timeout(c) else [], id=c["id"], family=c["family"], prog_ast=c["prog"])
    if r["front_status"] != "ok":
        mism.append(dict(case=dict(base), impl=dict(front=r["front_status"], errors=r["front_errors"]), model=None, spec="well-formed program: must compile",
                         kind="impl_violates_spec", known=None, what="front end rejects / panics on a well-formed generated program: %s %s" % (r["front_status"], r["front_errors"])))
        return mism
    if r["parse_error"]:
        raise lib.Infra("cannot translate the dumped plan of %s: %s\n%s" % (c["id"], r["parse_error"], r["text"]))
    if r["impl"] is None:
        return mism           # lattice relation etc.: not in scope
    decl = [(rd["name"], rd["arity"], list(cols)) for rd in r["dump"]["relations"] for cols in rd["indices"]]
    model = r["model"][0] if r["model"] else None
    if model is not None:
        ok_plan, ok_facts, hist = model
        if ok_plan is not True:
            mism.append(dict(case=dict(base, relations=r["dump"]["relations"]), impl="plan + physical indices computed by the macro", model="plan_idx_ok = %s" % ok_plan, spec=None,
                             kind="model_differs", known=None, what="IndexedEval.plan_idx_ok is false on the dumped plan: a clause / aggregate / head uses an index that is not a declared index field, or a relation lacks its full index"))
        if ok_facts is not True:
            mism.append(dict(case=dict(base), impl=None, model="fact_idx_ok = %s" % ok_facts, spec=None, kind="model_differs", known=None,
                             what="IndexedEval.fact_idx_ok is false for an input fact (relation without a declared full index of the fact's arity)"))
    inv = r["inv"]
    pos = positive(c["prog"])
    for k, h in enumerate(c["hists"]):
        steps = h["steps"]
        calls = calls_of(steps)
        cs = dict(base, history_kind=h["kind"], history=steps, history_text=describe(steps))
        if h.get("modes"):
            cs["overwrite_modes"] = h["modes"]
        iv = r["impl"][k]
        if "snaps" not in iv or len(iv["snaps"]) != 4 * len(calls):
            mism.append(dict(case=cs, impl=iv, model=None, spec=None, kind="impl_violates_spec", known=None,
                             what="implementation did not complete the history (compile error / panic / timeout): %s" % json.dumps(iv)[:600]))
            continue
        stats["histories"] += 1
        stats["kind_" + h["kind"]] += 1
        for md in h.get("modes", []):
            stats["over_" + md] += 1
        mh = None
        if model is not None:
            mh = hist[k]
            if mh == "None":
                mism.append(dict(case=cs, impl="completed", model="None (out of fuel)", spec=None, kind="model_differs", known=None,
                                 what="IndexedHistory.run_history_idx did not terminate within fuel %d" % FUEL))
                mh = None
            else:
                mh = mh[1]
        for j, (ckind, ck) in enumerate(calls):
            pre = prog.rows_snap(iv["snaps"][4 * j])
            ret = prog.rows_snap(iv["snaps"][4 * j + 1])["__ret"][0][0] == "true"
            rows = prog.rows_snap(iv["snaps"][4 * j + 2])
            real = {ix["field"]: ix for ix in iv["snaps"][4 * j + 3]["indices"]}
            stats["snapshots"] += 1
            callname = "run()" if ckind == "run" else "run_timeout(fires at deadline check #%d)" % ck
            after = "after call #%d = %s of [%s]" % (j + 1, callname, describe(steps, j))
            csj = dict(cs, call=j + 1, rows_before_call=pre)
            if ckind == "timeout":
                stats["timeout_calls"] += 1
                if not ret:
                    stats["timeout_calls_interrupted"] += 1
            # --- the property on the real data: least model of the rows present before the call
            if pos:
                stats["least_model_checks"] += 1
                key = tuple(sorted(set(facts_of_input(pre, rels))))
                lm = (r["spec"] or {}).get(key)
                if lm is None:
                    stats["least_model_oracle_unavailable"] += 1
                elif ret and lm != set(key):
                    stats["least_model_checks_deriving"] += 1
                why = spec_check(rels, pre, rows, ret, lm)
                if why:
                    mism.append(dict(case=csj, impl=dict(returned=ret, rows_after_call={n: rows.get(n, []) for n, _, _ in rels}), model=None,
                                     spec=dict(least_model_of_rows_before_call=sorted(lm) if lm is not None else None),
                                     kind="impl_violates_spec", known=None, what="%s: %s" % (after, "; ".join(why))))
            m_idx = None
            if mh is not None:
                mret, mrows_l, midx_l = mh[j]
                if mret is not ret:
                    mism.append(dict(case=csj, impl=dict(returned=ret), model=dict(returned=mret), spec=None, kind="model_differs", known=None,
                                     what="%s: implementation returned %s, the model %s" % (after, ret, mret)))
                m_rows = collections.defaultdict(list)
                for (rid, t) in mrows_l:
                    m_rows[inv[rid]].append(tuple(t))
                m_idx = {}
                for (rid, cols, ents) in midx_l:
                    m_idx[field_name(inv[rid], cols)] = ents
                # rows: same set, same length
                for name, _, _ in rels:
                    rr, mr = rows.get(name, []), m_rows.get(name, [])
                    if set(rr) != set(mr) or len(rr) != len(mr):
                        mism.append(dict(case=csj, impl={name: dict(len=len(rr), rows=sorted(set(rr)))}, model={name: dict(len=len(mr), rows=sorted(set(mr)))}, spec=None,
                                         kind="model_differs", known=None,
                                         what="rows of relation %s %s: implementation %d rows, model %d rows; only in implementation %s; only in model %s" % (
                                             name, after, len(rr), len(mr), sorted(set(rr) - set(mr))[:6], sorted(set(mr) - set(rr))[:6])))
            compare_indices(mism, stats, csj, decl, rows, real, m_idx, ret, after)
    return mism


def coverage_of(results, stats, timing):
    progs = [r for r in results if r["impl"] is not None and r["front_status"] == "ok"]
    multi_nonfull = 0
    multi_head = 0
    multi_head_rules = 0
    idx_hist = collections.Counter()
    zero_ar = 0
    for r in progs:
        mx = 0
        for rd in r["dump"]["relations"]:
            nf = sum(1 for cols in rd["indices"] if len(cols) != rd["arity"])
            mx = max(mx, nf)
            idx_hist[len(rd["indices"])] += 1
        if mx >= 2:
            multi_nonfull += 1
        nmh = sum(1 for ru in r["case"]["prog"]["rules"] if len(ru["heads"]) > 1)
        multi_head_rules += nmh
        if nmh:
            multi_head += 1
        if any(a == 0 for _, a, _ in r["case"]["prog"]["rels"]):
            zero_ar += 1
    fams = collections.Counter(r["case"]["family"] for r in progs)
    return dict(programs=len(progs), families=dict(fams), histories=stats["histories"],
                programs_with_generate_run_timeout=sum(1 for r in progs if uses_timeout(r["case"])),
                history_kinds={k[5:]: v for k, v in sorted(stats.items()) if k.startswith("kind_")},
                overwrite_modes={k[5:]: v for k, v in sorted(stats.items()) if k.startswith("over_")},
                calls=stats["snapshots"], timeout_calls=stats["timeout_calls"], timeout_calls_interrupted=stats["timeout_calls_interrupted"],
                index_fields_stale_after_an_interruption=stats["stale_fields_after_interruption"],
                partial_index_left_empty_by_an_interruption_while_rows_present=stats["partial_index_emptied_by_interruption"],
                least_model_checks=stats["least_model_checks"], least_model_checks_where_the_call_had_to_derive=stats["least_model_checks_deriving"],
                least_model_oracle_unavailable=stats["least_model_oracle_unavailable"],
                snapshots=stats["snapshots"], indices_compared=stats["indices"],
                indices_compared_with_model=stats["indices_vs_model"], entries_compared=stats["entries"], nonfull_nonempty_indices=stats["nonfull_nonempty"],
                absent_keys_probed=stats["absent_probes"],
                programs_with_2_nonfull_indices_on_a_relation=multi_nonfull, programs_with_multi_head_rules=multi_head, multi_head_rules=multi_head_rules, programs_with_zero_arity_relation=zero_ar,
                indices_per_relation_histogram={str(k): v for k, v in sorted(idx_hist.items())},
                programs_model_too_slow=sum(1 for r in results if r["skipped"]), wall=timing)


def run_tie(tier="quick", seed=1, tag=None):
    tag = tag or ("indexed_q" if tier == "quick" else "indexed_t")
    cases = load_corpus() + gen_cases(tier, seed)
    results, timing = [], collections.Counter()
    chunk = 160
    for i in range(0, len(cases), chunk):
        rs, tm = run_cases(cases[i:i + chunk], tag)
        results += rs
        timing.update(tm)
    stats = collections.Counter()
    mism = []
    for r in results:
        if r["skipped"]:
            r["model"] = None
        mism += compare_result(r, stats)
    cov = coverage_of(results, stats, {k: round(v, 1) for k, v in timing.items()})
    distinct = len({(r["text"], json.dumps(h["steps"], sort_keys=True)) for r in results if r["impl"] is not None for h in r["case"]["hists"]})
    return dict(evaluations=stats["histories"], distinct_nontrivial=distinct, mismatches=mism, coverage=cov,
                rule="programs: gen_dl.gen_program / gen_strat_program (aggregates, negation) + own families multi_index (one relation read through 2-4 column sets, recursion) "
                     "and multi_head (2-3 heads per rule, a zero-arity relation), two thirds of them with #![generate_run_timeout] (run() is then run_timeout(MAX); the others exercise the plain run() body with push / overwrite histories); HISTORIES of one program value: push (set F0; run; push F1; run, duplicate rows in some F0 / F1, "
                     "F1 partly present), overwrite (set; run; 1-2 relations the rules read get OTHER rows: same count / shifted / columns swapped / permuted / fewer / more / none, derived relations left, "
                     "cleared or reset; run), resume (set; run_timeout interrupted at deadline check 1..3 [twice]; run), rerun_timeout (set; run; push or overwrite; run_timeout interrupted; run), "
                     "timeout_overwrite (set; run_timeout interrupted; overwrite; run); around every call: rows before, flag, rows after and EVERY index field (keys, per-key value multisets, len_estimate, "
                     "index_get) vs IndexedHistory.run_history_idx (after interrupted calls too) and, positive programs, vs the least model (naive_fix) of the rows the real program value held before the call; "
                     "distinct = distinct (program, history)")


def main(argv=None):
    argv = list(sys.argv[1:] if argv is None else argv)
    tier = argv[0] if argv else "quick"
    seed = int(argv[1]) if len(argv) > 1 else 1
    t0 = time.time()
    res = run_tie(tier, seed)
    cov = res["coverage"]
    print("indexed tie %s seed=%d repo=%s: %d programs, %d histories, %d snapshots, %d index fields compared (%d with the model), %d entries compared" % (
        tier, seed, lib.REPO, cov["programs"], cov["histories"], cov["snapshots"], cov["indices_compared"], cov["indices_compared_with_model"], cov["entries_compared"]))
    print("  programs with >= 2 non-full indices on some relation: %d; with multi-head rules: %d (%d such rules); with a zero-arity relation: %d; families %s" % (
        cov["programs_with_2_nonfull_indices_on_a_relation"], cov["programs_with_multi_head_rules"], cov["multi_head_rules"], cov["programs_with_zero_arity_relation"], cov["families"]))
    print("  indices per relation %s; non-empty non-full indices %d; absent keys probed %d; model too slow (skipped) %d" % (
        cov["indices_per_relation_histogram"], cov["nonfull_nonempty_indices"], cov["absent_keys_probed"], cov["programs_model_too_slow"]))
    print("  history kinds %s; overwrite modes %s" % (cov["history_kinds"], cov["overwrite_modes"]))
    print("  calls %d; run_timeout calls %d (%d interrupted; index fields stale afterwards %d, of them non-full fields left EMPTY while the relation has rows %d); least-model checks %d (%d where the call had to derive, oracle unavailable %d)" % (
        cov["calls"], cov["timeout_calls"], cov["timeout_calls_interrupted"], cov["index_fields_stale_after_an_interruption"], cov["partial_index_left_empty_by_an_interruption_while_rows_present"],
        cov["least_model_checks"], cov["least_model_checks_where_the_call_had_to_derive"], cov["least_model_oracle_unavailable"]))
    print("  wall %.1fs (%s)" % (time.time() - t0, cov["wall"]))
    ms = res["mismatches"]
    # every mismatch is in res["mismatches"]; printed: per program the first few (index fields first), for the first programs
    by_prog = collections.OrderedDict()
    for m in ms:
        by_prog.setdefault(m["case"].get("id"), []).append(m)
    shown = 0
    for pid, lst in list(by_prog.items())[:PRINT_PROGRAMS]:
        lst = sorted(lst, key=lambda m: 0 if "index field" in m["what"] else 1)
        cs = lst[0]["case"]
        print("MISMATCH in program %s: %s" % (pid, cs.get("program", "").replace("\n", " | ")))
        for m in lst[:PRINT_PER_PROGRAM]:
            shown += 1
            print("   kind=%s %s" % (m["kind"], m["what"]))
            if "history" in m["case"]:
                print("      history=%s" % json.dumps(m["case"]["history"]))
    if len(ms) > shown:
        print("... %d more mismatches (%d programs affected)" % (len(ms) - shown, len(by_prog)))
    print("mismatches: %d (model_differs %d, impl_violates_spec %d)" % (len(ms), sum(1 for m in ms if m["kind"] == "model_differs"), sum(1 for m in ms if m["kind"] == "impl_violates_spec")))
    return 1 if ms else 0


if __name__ == "__main__":
    sys.exit(main())
