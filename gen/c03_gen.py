"""C03: lattice programs — Rust renderer, Coq renderer, specification oracle (Kleene iteration with joins),
seeded generators of programs and inputs.

AST as in gen/dl.py (core form: no wildcards, no repeated variables, body clause arguments are variables or
constants), relation kinds 'rel' | ('lat', ltype) with ltype a key of c03_vocab.LTYPES; function / predicate /
pattern / generator names are keys of the c03_vocab tables.  A lattice value is its integer code everywhere
except in the generated Rust."""
from . import c03_vocab as voc
from . import dl

PLAIN_DOM = list(range(0, 6))


def lat_of(p):
    return {n: k[1] for (n, a, k) in p["rels"] if isinstance(k, tuple) and k[0] == "lat"}


# ------------------------------------------------------------------ Rust

def _subst(tmpl, args):
    out = tmpl
    for i in reversed(range(len(args))):
        out = out.replace("$%d" % i, args[i])
    return out


class Kinds:
    def __init__(self):
        self.k = {}

    def ref(self, x):
        self.k.setdefault(x, "ref")

    def val(self, x):
        self.k.setdefault(x, "val")

    def use(self, x):
        return "(*%s)" % x if self.k.get(x, "ref") == "ref" else x


def rust_term(t, kinds, lty=None, in_expr=False):
    if t[0] == "v":
        return kinds.use(t[1]) if in_expr else t[1]
    if t[0] == "c":
        return voc.rust_value(lty, t[1]) if lty else "%d" % t[1]
    if t[0] == "f":
        return _subst(voc.FUNS[t[1]][2], [kinds.use(x) for x in t[2]])
    raise ValueError(t)


def rust_cond(c, kinds):
    if c[0] == "if":
        return "if " + _subst(voc.PREDS[c[1]][2], [kinds.use(x) for x in c[2]])
    if c[0] == "let":
        s = "let %s = %s" % (c[1], _subst(voc.FUNS[c[2]][2], [kinds.use(x) for x in c[3]]))
        kinds.val(c[1])
        return s
    if c[0] == "iflet":
        pt = voc.PARTIALS[c[2]]
        s = "if let %s = %s" % (pt[2].replace("$x", c[1]), _subst(pt[3], [kinds.use(x) for x in c[3]]))
        kinds.val(c[1])
        return s
    raise ValueError(c)


def rust_item(it, kinds, lats, sugar):
    if it[0] == "clause":
        _, rel, args, conds = it
        conds = list(conds)
        rargs = []
        for i, t in enumerate(args):
            lty = lats.get(rel) if i == len(args) - 1 else None
            if (sugar and lty == "dual" and t[0] == "v" and conds and conds[0][0] == "iflet" and conds[0][2] == "undual"
                    and conds[0][3] == [t[1]]):
                # the ?pattern sugar: the macro introduces the pattern variable itself; l is bound by reference
                rargs.append("?ascent::Dual(%s)" % conds[0][1])
                kinds.ref(conds[0][1])
                kinds.ref(t[1])
                conds = conds[1:]
                continue
            rargs.append(rust_term(t, kinds, lty))
            if t[0] == "v":
                kinds.ref(t[1])
        s = "%s(%s)" % (rel, ", ".join(rargs))
        for c in conds:
            s += " " + rust_cond(c, kinds)
        return s
    if it[0] == "cond":
        return rust_cond(it[1], kinds)
    if it[0] == "gen":
        s = "for %s in %s" % (it[1], _subst(voc.GENS[it[2]][2], [kinds.use(x) for x in it[3]]))
        kinds.val(it[1])
        return s
    raise ValueError(it)


def rust_rule(r, lats, sugar=False):
    kinds = Kinds()
    body = [rust_item(it, kinds, lats, sugar) for it in r["body"]]
    heads = []
    for rel, args in r["heads"]:
        hs = []
        for i, t in enumerate(args):
            lty = lats.get(rel) if i == len(args) - 1 else None
            hs.append(rust_term(t, kinds, lty, in_expr=(t[0] != "v")))     # a bare variable goes through Convert::convert
        heads.append("%s(%s)" % (rel, ", ".join(hs)))
    if not body:
        return "%s;" % ", ".join(heads)
    return "%s <-- %s;" % (", ".join(heads), ", ".join(body))


def rust_decl(name, arity, kind):
    if isinstance(kind, tuple) and kind[0] == "lat":
        cols = ["i32"] * (arity - 1) + [voc.LTYPES[kind[1]][1]]
        return "lattice %s(%s);" % (name, ", ".join(cols))
    return "relation %s(%s);" % (name, ", ".join(["i32"] * arity))


def rust_program_text(p):
    lats = lat_of(p)
    lines = [rust_decl(n, a, k) for (n, a, k) in p["rels"]]
    lines += [rust_rule(r, lats, sugar=p.get("sugar", False)) for r in p["rules"]]
    return "\n".join(lines)


def rust_input(p, inp):
    """{rel: [tuple of codes]} -> {rel: [tuple of ints / Rust expressions]} for gen.prog scripts"""
    lats = lat_of(p)
    out = {}
    for name, arity, _ in p["rels"]:
        rows = []
        for t in inp.get(name, []):
            t = list(t)
            if name in lats:
                t[-1] = voc.rust_value(lats[name], t[-1])
            rows.append(tuple(t))
        out[name] = rows
    return out


def decode_snapshot(p, snap):
    """rows as printed by gen.prog ({rel: [[str]]}) -> {rel: [tuple of codes]} in row order"""
    lats = lat_of(p)
    out = {}
    for name, arity, _ in p["rels"]:
        rows = []
        for t in snap[name]:
            vals = [int(s) for s in t[:-1]] if name in lats else [int(s) for s in t]
            if name in lats:
                vals.append(voc.decode(lats[name], t[-1]))
            rows.append(tuple(vals))
        out[name] = rows
    return out


# ------------------------------------------------------------------ Coq

def coq_term(t, V):
    if t[0] == "v":
        return "TVar %s" % dl.cnat(V(t[1]))
    if t[0] == "c":
        return "TConst (%d)" % t[1]
    if t[0] == "f":
        return "TFun %s %s" % (dl.cnat(voc.FUNS[t[1]][0]), dl.cnats(V(x) for x in t[2]))
    raise ValueError(t)


def coq_cond(c, V):
    if c[0] == "if":
        return "CIf %s %s" % (dl.cnat(voc.PREDS[c[1]][0]), dl.cnats(V(x) for x in c[2]))
    if c[0] == "let":
        args = dl.cnats(V(x) for x in c[3])
        return "CBind %s %s %s" % (dl.cnat(V(c[1])), dl.cnat(voc.FUNS[c[2]][0]), args)
    if c[0] == "iflet":
        args = dl.cnats(V(x) for x in c[3])
        return "CBind %s %s %s" % (dl.cnat(V(c[1])), dl.cnat(voc.PARTIALS[c[2]][0]), args)
    raise ValueError(c)


def coq_heads(heads, V, R):
    return dl.coq_list("(%s, %s)" % (dl.cnat(R(rel)), dl.coq_list(coq_term(t, V) for t in args)) for rel, args in heads)


def coq_bitem(it, V, R):
    if it[0] == "clause":
        return "BClause %s %s %s" % (dl.cnat(R(it[1])), dl.coq_list(coq_term(t, V) for t in it[2]), dl.coq_list(coq_cond(c, V) for c in it[3]))
    if it[0] == "cond":
        return "BCond (%s)" % coq_cond(it[1], V)
    if it[0] == "gen":
        return "BGen %s %s %s" % (dl.cnat(V(it[1])), dl.cnat(voc.GENS[it[2]][0]), dl.cnats(V(x) for x in it[3]))
    raise ValueError(it)


def coq_rule(r, R):
    V = dl.Names()
    body = dl.coq_list(coq_bitem(it, V, R) for it in r["body"])
    heads = coq_heads(r["heads"], V, R)
    return "{| heads := %s; body := %s |}" % (heads, body)


class PlanMismatch(Exception):
    pass


def coq_variant(rule, vdump, hir, R):
    """source rule (core form) + dumped variant; the dumped HIR rule is only checked for the same shape"""
    V = dl.Names()
    ditems = vdump["items"]
    if len(ditems) != len(rule["body"]) or len(hir["body"]) != len(rule["body"]):
        raise PlanMismatch("body length: source %d, hir %d, plan %d" % (len(rule["body"]), len(hir["body"]), len(ditems)))
    items = []
    for it, d, h in zip(rule["body"], ditems, hir["body"]):
        if it[0] == "clause":
            if d["t"] != "clause" or d["rel"] != it[1] or h["t"] != "clause" or h["rel"] != it[1] or len(h["args"]) != len(it[2]):
                raise PlanMismatch("clause %r vs plan %r" % (it, d))
            items.append("PClause %s %s %s %s %s" % (dl.cnat(R(it[1])), dl.coq_list(coq_term(t, V) for t in it[2]),
                                                     dl.coq_list(coq_cond(c, V) for c in it[3]), dl.cnats(d["idx"]), dl.VERS[d["ver"]]))
        elif it[0] == "cond":
            if d["t"] != "cond":
                raise PlanMismatch("cond %r vs plan %r" % (it, d))
            items.append("PCond (%s)" % coq_cond(it[1], V))
        elif it[0] == "gen":
            if d["t"] != "gen":
                raise PlanMismatch("gen %r vs plan %r" % (it, d))
            items.append("PGen %s %s %s" % (dl.cnat(V(it[1])), dl.cnat(voc.GENS[it[2]][0]), dl.cnats(V(x) for x in it[3])))
        else:
            raise ValueError(it)
    heads = coq_heads(rule["heads"], V, R)
    sj = "None" if vdump["sj"] is None else "(Some %s)" % dl.cnat(vdump["sj"])
    return "{| v_rule := %s; v_heads := %s; v_items := %s; v_sj := %s; v_reord := %s |}" % (
        dl.cnat(max(vdump["hir"], 0)), heads, dl.coq_list(items), sj, "true" if vdump["reord"] else "false")


def coq_plan(p, dump, R):
    """the plan of the dump over the SOURCE rules (the macro keeps core-form rules as they are: checked by shape)"""
    if len(dump["hir_rules"]) != len(p["rules"]):
        raise PlanMismatch("rule count: source %d, hir %d" % (len(p["rules"]), len(dump["hir_rules"])))
    sccs = []
    for sc in dump["sccs"]:
        vs = [coq_variant(p["rules"][v["hir"]], v, dump["hir_rules"][v["hir"]], R) for v in sc["variants"]]
        sccs.append("{| s_vars := %s; s_dyn := %s; s_loop := %s |}" % (dl.coq_list(vs), dl.cnats(R(r) for r in sc["dynamic"]), "true" if sc["looping"] else "false"))
    return dl.coq_list(sccs)


def coq_db(p, inp, R):
    """input rows as a function rel -> list tuple (a match on the relation number)"""
    body = "[]"
    for name, arity, _ in reversed(p["rels"]):
        rows = inp.get(name, [])
        if rows:
            body = "if Nat.eqb r %s then %s else %s" % (dl.cnat(R(name)), dl.coq_list("[%s]" % "; ".join("(%d)" % v for v in t) for t in rows), body)
    return "(fun r : nat => %s)" % body


# ------------------------------------------------------------------ specification oracle

class Oracle:
    """least fixed point by Kleene iteration of the naive one-step operator with joins"""

    def __init__(self, p):
        self.p = p
        self.lats = lat_of(p)
        self.raised = {}       # (rel, key) -> number of times the value of the key was raised during the iteration
        self.rounds = 0
        self.multi = 0         # joins (in the oracle's own order) that moved >= 2 components of a composite value at once

    def run(self, inp, max_rounds=500):
        st = {}
        for name, arity, _ in self.p["rels"]:
            st[name] = {} if name in self.lats else set()
        for name, rows in inp.items():
            for t in rows:
                self.add(st, name, tuple(t))
        self.raised = {}
        self.multi = 0
        for rnd in range(max_rounds):
            self.rounds = rnd
            new = []
            for r in self.p["rules"]:
                for e in self.envs(st, r["body"], 0, {}):
                    for rel, args in r["heads"]:
                        new.append((rel, tuple(self.term(e, t) for t in args)))
            changed = False
            for rel, t in new:
                changed |= self.add(st, rel, t)
            if not changed:
                return st
        return None

    def add(self, st, rel, t):
        if rel in self.lats:
            k, v = t[:-1], t[-1]
            if k in st[rel]:
                j = voc.join(self.lats[rel], st[rel][k], v)
                if j != st[rel][k]:
                    if voc.moved(self.lats[rel], st[rel][k], j) >= 2:
                        self.multi += 1
                    st[rel][k] = j
                    self.raised[(rel, k)] = self.raised.get((rel, k), 0) + 1
                    return True
                return False
            st[rel][k] = v
            return True
        if t in st[rel]:
            return False
        st[rel].add(t)
        return True

    def tuples(self, st, rel):
        if rel in self.lats:
            return [k + (v,) for k, v in st[rel].items()]
        return list(st[rel])

    def term(self, e, t):
        if t[0] == "v":
            return e[t[1]]
        if t[0] == "c":
            return t[1]
        return voc.FUNS[t[1]][3](*[e[x] for x in t[2]])

    def cond(self, e, c):
        if c[0] == "if":
            return e if voc.PREDS[c[1]][3](*[e[x] for x in c[2]]) else None
        if c[0] == "let":
            e = dict(e)
            e[c[1]] = voc.FUNS[c[2]][3](*[e[x] for x in c[3]])
            return e
        if c[0] == "iflet":
            v = voc.PARTIALS[c[2]][5](*[e[x] for x in c[3]])
            if v is None:
                return None
            e = dict(e)
            e[c[1]] = v
            return e
        raise ValueError(c)

    def envs(self, st, body, i, e):
        if i == len(body):
            yield e
            return
        it = body[i]
        if it[0] == "clause":
            _, rel, args, conds = it
            for t in self.tuples(st, rel):
                e2 = dict(e)
                ok = True
                for a, v in zip(args, t):
                    if a[0] == "v":
                        if a[1] in e2:
                            if e2[a[1]] != v:
                                ok = False
                                break
                        else:
                            e2[a[1]] = v
                    elif self.term(e2, a) != v:
                        ok = False
                        break
                if not ok:
                    continue
                for c in conds:
                    e2 = self.cond(e2, c)
                    if e2 is None:
                        break
                if e2 is not None:
                    yield from self.envs(st, body, i + 1, e2)
        elif it[0] == "cond":
            e2 = self.cond(e, it[1])
            if e2 is not None:
                yield from self.envs(st, body, i + 1, e2)
        elif it[0] == "gen":
            for v in voc.GENS[it[2]][3](*[e[x] for x in it[3]]):
                e2 = dict(e)
                e2[it[1]] = v
                yield from self.envs(st, body, i + 1, e2)
        else:
            raise ValueError(it)


def canon_state(p, st):
    """oracle state -> {rel: sorted list of tuples of codes}"""
    lats = lat_of(p)
    out = {}
    for name, _, _ in p["rels"]:
        if name in lats:
            out[name] = sorted(k + (v,) for k, v in st[name].items())
        else:
            out[name] = sorted(st[name])
    return out


# ------------------------------------------------------------------ generators

def V(x):
    return ("v", x)


def C(c):
    return ("c", c)


def F(f, *xs):
    return ("f", f, list(xs))


def shortest_path(rng):
    """all-pairs / single-source / global shortest distance over Dual<u32>, linear and non-linear recursion"""
    form = rng.choice(["pairs_linear", "pairs_right", "pairs_nonlinear", "pairs_pattern", "source", "global", "pairs_both"])
    rels = [("edge", 3, "rel")]
    rules = []
    sugar = False
    if form.startswith("pairs"):
        rels.append(("sp", 3, ("lat", "dual")))
        rules.append(dict(heads=[("sp", [V("x"), V("y"), F("dual_of", "w")])], body=[("clause", "edge", [V("x"), V("y"), V("w")], [])]))
        lin = dict(heads=[("sp", [V("x"), V("z"), F("dual_add", "l", "w")])],
                   body=[("clause", "edge", [V("x"), V("y"), V("w")], []), ("clause", "sp", [V("y"), V("z"), V("l")], [])])
        right = dict(heads=[("sp", [V("x"), V("z"), F("dual_add", "l", "w")])],
                     body=[("clause", "sp", [V("x"), V("y"), V("l")], []), ("clause", "edge", [V("y"), V("z"), V("w")], [])])
        nonlin = dict(heads=[("sp", [V("x"), V("z"), F("dual_addl", "a", "b")])],
                      body=[("clause", "sp", [V("x"), V("y"), V("a")], []), ("clause", "sp", [V("y"), V("z"), V("b")], [])])
        pat = dict(heads=[("sp", [V("x"), V("z"), F("dual_addv", "a", "b")])],
                   body=[("clause", "sp", [V("x"), V("y"), V("p")], [("iflet", "a", "undual", ["p"])]),
                         ("clause", "sp", [V("y"), V("z"), V("q")], [("iflet", "b", "undual", ["q"])])])
        if form == "pairs_linear":
            rules.append(lin)
        elif form == "pairs_right":
            rules.append(right)
        elif form == "pairs_nonlinear":
            rules.append(nonlin)
        elif form == "pairs_pattern":
            rules.append(pat)
            sugar = rng.random() < 0.7
        else:
            rules += [lin, nonlin]
        if rng.random() < 0.6:
            rels.append(("near", 2, "rel"))
            rules.append(dict(heads=[("near", [V("x"), V("y")])], body=[("clause", "sp", [V("x"), V("y"), V("l")], [("if", rng.choice(["dual_le4", "dual_le2"]), ["l"])])]))
    elif form == "source":
        rels += [("src", 1, "rel"), ("dist", 2, ("lat", "dual"))]
        rules.append(dict(heads=[("dist", [V("x"), C(0)])], body=[("clause", "src", [V("x")], [])]))
        rules.append(dict(heads=[("dist", [V("y"), F("dual_add", "l", "w")])],
                          body=[("clause", "dist", [V("x"), V("l")], []), ("clause", "edge", [V("x"), V("y"), V("w")], [])]))
        if rng.random() < 0.6:
            rels.append(("close", 1, "rel"))
            rules.append(dict(heads=[("close", [V("x")])], body=[("clause", "dist", [V("x"), V("l")], []), ("cond", ("if", "dual_le4", ["l"]))]))
    else:
        rels += [("best", 1, ("lat", "dual")), ("cheap", 2, "rel")]
        rules.append(dict(heads=[("best", [F("dual_of", "w")])], body=[("clause", "edge", [V("x"), V("y"), V("w")], [])]))
        rules.append(dict(heads=[("cheap", [V("x"), V("y")])],
                          body=[("clause", "best", [V("b")], []), ("clause", "edge", [V("x"), V("y"), V("w")], [("if", "dual_lex", ["b", "w"])])]))
    rng.shuffle(rules)
    return dict(rels=rels, rules=rules, shape="shortest_" + form, sugar=sugar)


def widest_path(rng):
    rels = [("edge", 3, "rel"), ("wp", 3, ("lat", "max"))]
    rules = [dict(heads=[("wp", [V("x"), V("y"), F("max_of", "w")])], body=[("clause", "edge", [V("x"), V("y"), V("w")], [])])]
    if rng.random() < 0.5:
        rules.append(dict(heads=[("wp", [V("x"), V("z"), F("max_minw", "l", "w")])],
                          body=[("clause", "edge", [V("x"), V("y"), V("w")], []), ("clause", "wp", [V("y"), V("z"), V("l")], [])]))
    else:
        rules.append(dict(heads=[("wp", [V("x"), V("z"), F("max_minl", "a", "b")])],
                          body=[("clause", "wp", [V("x"), V("y"), V("a")], []), ("clause", "wp", [V("y"), V("z"), V("b")], [])]))
    if rng.random() < 0.6:
        rels.append(("wide", 2, "rel"))
        rules.append(dict(heads=[("wide", [V("x"), V("y")])], body=[("clause", "wp", [V("x"), V("y"), V("l")], [("if", "max_ge3", ["l"])])]))
    rng.shuffle(rules)
    return dict(rels=rels, rules=rules, shape="widest")


def reach_sets(rng):
    ty = rng.choice(["set", "set", "bset"])
    pre = "set" if ty == "set" else "bset"
    rels = [("edge", 2, "rel"), ("rs", 2, ("lat", ty))]
    rules = [dict(heads=[("rs", [V("x"), F(pre + "_single", "y")])], body=[("clause", "edge", [V("x"), V("y")], [])]),
             dict(heads=[("rs", [V("x"), F(pre + "_id", "l")])], body=[("clause", "edge", [V("x"), V("y")], []), ("clause", "rs", [V("y"), V("l")], [])])]
    if rng.random() < 0.7:
        rels.append(("hit", 2, "rel"))
        rules.append(dict(heads=[("hit", [V("x"), V("t")])],
                          body=[("clause", "rs", [V("x"), V("l")], []), ("clause", "edge", [V("t"), V("u")], [("if", pre + "_has", ["l", "t"])])]))
    if ty == "set" and rng.random() < 0.5:
        rels.append(("member", 2, "rel"))
        rules.append(dict(heads=[("member", [V("x"), V("m")])], body=[("clause", "rs", [V("x"), V("l")], []), ("gen", "m", "set_elems", ["l"])]))
    rng.shuffle(rules)
    return dict(rels=rels, rules=rules, shape="reach_" + ty)


def const_prop(rng):
    rels = [("lit", 2, "rel"), ("add", 3, "rel"), ("copy", 2, "rel"), ("val", 2, ("lat", "cp"))]
    rules = [dict(heads=[("val", [V("v"), F("cp_const", "c")])], body=[("clause", "lit", [V("v"), V("c")], [])]),
             dict(heads=[("val", [V("v"), F("cp_id", "a")])], body=[("clause", "copy", [V("v"), V("x")], []), ("clause", "val", [V("x"), V("a")], [])]),
             dict(heads=[("val", [V("v"), F("cp_add", "a", "b")])],
                  body=[("clause", "add", [V("v"), V("x"), V("y")], []), ("clause", "val", [V("x"), V("a")], []), ("clause", "val", [V("y"), V("b")], [])])]
    if rng.random() < 0.7:
        rels.append(("unknown", 1, "rel"))
        rules.append(dict(heads=[("unknown", [V("v")])], body=[("clause", "val", [V("v"), V("a")], [("if", "cp_top", ["a"])])]))
    rng.shuffle(rules)
    return dict(rels=rels, rules=rules, shape="const_prop")


class LatRuleGen:
    """random monotone rules: lattice variables are used only through the monotone vocabulary"""

    def __init__(self, rng, rels):
        self.rng, self.rels = rng, rels
        self.ty = {}          # variable -> 'p' | lattice type | 'dv'
        self.n = 0

    def fresh(self, ty):
        self.n += 1
        x = "x%d" % self.n
        self.ty[x] = ty
        return x

    def of(self, ty):
        return [x for x, t in self.ty.items() if t == ty]

    def plain_arg(self, allow_fresh=True, pl=None):
        rng = self.rng
        pl = self.of("p") if pl is None else pl
        u = rng.random()
        if allow_fresh and (u < 0.5 or not pl):
            return V(self.fresh("p"))
        if pl and u < 0.85:
            return V(rng.choice(pl))
        return C(rng.choice(PLAIN_DOM))

    def clause(self, rel):
        rng = self.rng
        name, arity, kind = rel
        conds = []
        before = self.of("p")
        if kind == "rel":
            args = [self.plain_arg(pl=before) for _ in range(arity)]
        else:
            args = [self.plain_arg(pl=before) for _ in range(arity - 1)]
            l = self.fresh(kind[1])
            args.append(V(l))
            if kind[1] == "dual" and rng.random() < 0.3:
                conds.append(("iflet", self.fresh("dv"), "undual", [l]))
        if rng.random() < 0.25:
            c = self.some_cond()
            if c:
                conds.append(c)
        return ("clause", name, args, conds)

    def some_cond(self):
        rng = self.rng
        cands = []
        for pn, sig in voc.PRED_SIG.items():
            if all(self.of(t) for t in sig):
                cands.append((pn, sig))
        pl = self.of("p")
        if pl:
            cands += [("lt", ["p", "p"]), ("ne", ["p", "p"]), ("le", ["p", "p"]), ("even", ["p"])]
        if not cands:
            return None
        pn, sig = rng.choice(cands)
        return ("if", pn, [rng.choice(self.of(t)) for t in sig])

    def lat_expr(self, ty):
        rng = self.rng
        cands = []
        for fn, (res, sig) in voc.FUN_SIG.items():
            if res == ty and all(self.of(t) for t in sig):
                cands.append((fn, sig))
        same = self.of(ty)
        u = rng.random()
        if same and u < 0.25:
            return V(rng.choice(same))
        if cands and u < 0.9:
            fn, sig = rng.choice(cands)
            return F(fn, *[rng.choice(self.of(t)) for t in sig])
        return C(const_code(rng, ty))

    def head(self, rel):
        name, arity, kind = rel
        if kind == "rel":
            return (name, [self.plain_head_arg() for _ in range(arity)])
        return (name, [self.plain_head_arg() for _ in range(arity - 1)] + [self.lat_expr(kind[1])])

    def plain_head_arg(self):
        rng = self.rng
        pl = self.of("p")
        u = rng.random()
        if pl and u < 0.75:
            return V(rng.choice(pl))
        if pl and u < 0.85:
            f = rng.choice(["incs", "addm", "mod3", "decs", "max2"])
            return F(f, *[rng.choice(pl) for _ in range(voc.FUNS[f][1])])
        return C(rng.choice(PLAIN_DOM))


def const_code(rng, ty):
    if ty in ("max", "dual"):
        return rng.choice([0, 1, 2, 3, 5, 8])
    if ty == "opt":
        return rng.choice([0, 1, 3, 4])
    if ty == "bool":
        return rng.choice([0, 1])
    if ty == "pair":
        return rng.choice([0, 1, 2]) * voc.PAIRK + rng.choice([0, 1, 3])
    if ty == "prod":
        return rng.choice([0, 1, 2]) * voc.PAIRK + rng.choice([0, 1, 3])
    if ty == "set":
        return rng.choice([0, 1, 2, 5, 6, 12])
    if ty == "bset":
        return rng.choice([0, 1, 2, 3, 6, -1])
    if ty == "cp":
        return rng.choice([-1, -1, 0, 1, 2, 3, -2])
    if ty in voc.COMPOSITE:
        if voc.COMPOSITE[ty][3] and rng.random() < 0.25:
            return 0
        return voc.mk(ty, [rng.choice([0, 1, 2, 3, 5, 8]) for _ in voc.COMPOSITE[ty][2]])
    if ty in voc.LEX:
        if voc.c03_lex.is_opt(ty) and rng.random() < 0.25:
            return 0
        return voc.c03_lex.mk(ty, [rng.choice([0, 1, 2, 3, 5, 8]) for _ in voc.c03_lex.dirs(ty)])
    raise KeyError(ty)


def random_program(rng, types=None):
    types = types or ["max", "dual", "opt", "bool", "pair", "prod", "set", "bset", "cp"]
    nplain = rng.choice([1, 2, 2, 3])
    nlat = rng.choice([1, 1, 2, 2, 3])
    rels = [("r%d" % i, rng.choice([1, 2, 2, 3]), "rel") for i in range(nplain)]
    rels += [("l%d" % i, rng.choice([1, 2, 2, 3]), ("lat", rng.choice(types))) for i in range(nlat)]
    lrels = [r for r in rels if r[2] != "rel"]
    rules = []
    nrules = rng.choice([2, 3, 3, 4, 5, 6])
    shape = rng.choice(["free", "recursive", "recursive", "mutual", "downstream"])
    for k in range(nrules):
        g = LatRuleGen(rng, rels)
        body = []
        nb = rng.choice([1, 2, 2, 3])
        head_rel = rng.choice(rels)
        first = None
        if shape == "recursive" and k == 0:
            head_rel = rng.choice(lrels)
            first = head_rel
        elif shape == "mutual" and k < 2 and len(lrels) >= 2:
            head_rel, first = (lrels[0], lrels[1]) if k == 0 else (lrels[1], lrels[0])
        elif shape == "downstream" and k == 0:
            first = rng.choice(lrels)
            head_rel = rng.choice([r for r in rels if r[2] == "rel"])
        for i in range(nb):
            if i == 0 and first is not None:
                body.append(g.clause(first))
            elif rng.random() < 0.85 or not g.ty:
                body.append(g.clause(rng.choice(rels)))
            else:
                c = g.some_cond()
                if c:
                    body.append(("cond", c))
        if rng.random() < 0.08 and g.of("set"):
            body.append(("gen", g.fresh("p"), "set_elems", [rng.choice(g.of("set"))]))
        heads = [g.head(head_rel)]
        if rng.random() < 0.1:
            heads.append(g.head(rng.choice(rels)))
        rules.append(dict(heads=heads, body=body))
    if rng.random() < 0.25:
        name, arity, kind = rng.choice(lrels)
        rules.append(dict(heads=[(name, [C(rng.choice(PLAIN_DOM)) for _ in range(arity - 1)] + [C(const_code(rng, kind[1]))])], body=[]))
    return dict(rels=rels, rules=rules, shape="random_" + shape)


def gen_program(rng, types=None):
    u = rng.random()
    if u < 0.22:
        return shortest_path(rng)
    if u < 0.30:
        return widest_path(rng)
    if u < 0.38:
        return reach_sets(rng)
    if u < 0.45:
        return const_prop(rng)
    return random_program(rng, types)


# ------------------------------------------------------------------ composite lattice columns
# Programs whose lattice column is a COMPOSITE shipped type (c03_vocab.COMPOSITE: Product over arrays / tuples and the
# wrappers Dual, Option, Rc, Box, Reverse around them): a single join_mut has to move several components, and the
# values derived for one key arrive in many different orders.

def composite_program(rng, ty=None, form=None):
    ty = ty or rng.choice(list(voc.COMPOSITE))
    form = form or rng.choice(["maxima", "maxima", "lockstep", "lockstep", "paths", "merge", "random", "random"])
    n = len(voc.COMPOSITE[ty][2])
    cs = ["c%d" % i for i in range(n)]
    L = ("lat", ty)
    uniform = (ty + "_rot") in voc.FUNS
    if form == "random":
        others = [t for t in voc.COMPOSITE if t != ty] + ["max", "dual", "set"]
        p = random_program(rng, [ty, ty, rng.choice(others)])
        p["shape"] = "composite_random"
        return p
    rels, rules = [], []
    if form == "maxima":
        # per key the component-wise least upper bound of all samples; not recursive
        rels += [("sample", n + 1, "rel"), ("hi", 2, L)]
        rules.append(dict(heads=[("hi", [V("k"), F(ty + "_of", *cs)])], body=[("clause", "sample", [V("k")] + [V(c) for c in cs], [])]))
        main = "hi"
    elif form == "lockstep":
        # every step raises ALL components of the value of its key together
        rels += [("sample", n + 1, "rel"), ("inc", 2, "rel"), ("level", 2, L)]
        rules.append(dict(heads=[("level", [V("k"), F(ty + "_of", *cs)])], body=[("clause", "sample", [V("k")] + [V(c) for c in cs], [])]))
        rules.append(dict(heads=[("level", [V("k"), F(ty + "_step", "l", "w")])], body=[("clause", "level", [V("k"), V("l")], []), ("clause", "inc", [V("k"), V("w")], [])]))
        if uniform and rng.random() < 0.3:
            rules.append(dict(heads=[("level", [V("k"), F(ty + "_rot", "l")])], body=[("clause", "level", [V("k"), V("l")], [])]))
        main = "level"
    elif form == "paths":
        rels += [("sample", n + 1, "rel"), ("edge", 3, "rel"), ("val", 2, L)]
        rules.append(dict(heads=[("val", [V("x"), F(ty + "_of", *cs)])], body=[("clause", "sample", [V("x")] + [V(c) for c in cs], [])]))
        body = [("clause", "val", [V("x"), V("l")], []), ("clause", "edge", [V("x"), V("y"), V("w")], [])]
        if rng.random() < 0.5:
            body.reverse()
        rules.append(dict(heads=[("val", [V("y"), F(ty + "_step", "l", "w")])], body=body))
        main = "val"
    else:
        # non-linear: the values of two keys are merged component-wise into a third
        rels += [("sample", n + 1, "rel"), ("both", 3, "rel"), ("val", 2, L)]
        rules.append(dict(heads=[("val", [V("x"), F(ty + "_of", *cs)])], body=[("clause", "sample", [V("x")] + [V(c) for c in cs], [])]))
        rules.append(dict(heads=[("val", [V("z"), F(ty + "_merge", "a", "b")])],
                          body=[("clause", "both", [V("x"), V("y"), V("z")], []), ("clause", "val", [V("x"), V("a")], []), ("clause", "val", [V("y"), V("b")], [])]))
        if uniform and rng.random() < 0.5:
            rules.append(dict(heads=[("val", [V("x"), F(ty + "_rot", "l")])], body=[("clause", "val", [V("x"), V("l")], [])]))
        main = "val"
    # observers: facts that depend on the lattice value through upward-closed tests, and one global join of every row
    if rng.random() < 0.8:
        rels += [("thr", 1, "rel"), ("reached", 2, "rel")]
        rules.append(dict(heads=[("reached", [V("k"), V("t")])],
                          body=[("clause", main, [V("k"), V("l")], []), ("clause", "thr", [V("t")], [("if", ty + "_all_ge", ["l", "t"])])]))
    if rng.random() < 0.5:
        rels.append(("tail", 1, "rel"))
        rules.append(dict(heads=[("tail", [V("k")])], body=[("clause", main, [V("k"), V("l")], [("if", rng.choice([ty + "_last_hi", ty + "_first_hi"]), ["l"])])]))
    if rng.random() < 0.5:
        rels.append(("top", 1, L))
        rules.append(dict(heads=[("top", [F((ty + "_id"), "l")])], body=[("clause", main, [V("k"), V("l")], [])]))
    rng.shuffle(rules)
    return dict(rels=rels, rules=rules, shape="composite_" + form)


def composite_input(rng, p):
    """inputs for composite_program: few keys, many samples per key with independently drawn components, in an order
    that is random / rising in every component / falling in every component (so that single joins have to move
    several components, one component, or none)"""
    inp, style = gen_input(rng, p)
    order = rng.choice(["random", "random", "rising", "falling", "mixed"])
    for name, arity, kind in p["rels"]:
        if name == "sample":
            nk = rng.choice([1, 2, 3])
            m = rng.choice([2, 3, 4, 6, 9])
            rows = []
            for k in range(nk):
                vals = [tuple(rng.choice([0, 1, 2, 3, 4, 5, 6, 7]) for _ in range(arity - 1)) for _ in range(m)]
                if order == "rising":
                    cols = [sorted(c) for c in zip(*vals)]
                    vals = list(zip(*cols))
                elif order == "falling":
                    cols = [sorted(c, reverse=True) for c in zip(*vals)]
                    vals = list(zip(*cols))
                elif order == "mixed":       # first component rising, the others falling
                    cols = [sorted(c, reverse=(i > 0)) for i, c in enumerate(zip(*vals))]
                    vals = list(zip(*cols))
                rows += [(k,) + tuple(v) for v in vals]
            if order == "random":
                rng.shuffle(rows)
            inp[name] = list(dict.fromkeys(rows))
        elif name == "thr":
            inp[name] = [(t,) for t in rng.sample([1, 2, 3, 4, 5, 6, 7, 9], rng.choice([1, 2, 3]))]
        elif name == "inc":
            inp[name] = list(dict.fromkeys((rng.choice([0, 1, 2]), rng.choice([1, 1, 2, 3])) for _ in range(rng.choice([1, 2, 4]))))
        elif name == "both":
            inp[name] = list(dict.fromkeys((rng.choice([0, 1, 2, 3]), rng.choice([0, 1, 2, 3]), rng.choice([0, 1, 2, 3, 4])) for _ in range(rng.choice([2, 4, 7]))))
    return inp, "composite_" + order


def improving_graph(rng, n):
    """edges with weights such that the distance 0 -> n is improved about n times over n iterations:
    a chain i -> i+1 of weight 1 and shortcuts 0 -> i of weight 2 i (route via i costs n + i)"""
    es = [(i, i + 1, 1) for i in range(n)]
    es += [(0, i, 2 * i) for i in range(2, n + 1)]
    rng.shuffle(es)
    return es


def gen_input(rng, p, style=None):
    """{rel: [tuple of codes]}; lattice relations get at most one row per key"""
    lats = lat_of(p)
    style = style or rng.choice(["small", "mixed", "dense", "chain", "improving", "improving"])
    inp = {}
    for name, arity, kind in p["rels"]:
        rows = []
        if name in lats:
            # lattice-typed input rows (often none: the relation is computed)
            n = rng.choice([0, 0, 0, 1, 2, 4])
            seen = set()
            for _ in range(n):
                k = tuple(rng.choice(PLAIN_DOM) for _ in range(arity - 1))
                if k in seen:
                    continue
                seen.add(k)
                rows.append(k + (const_code(rng, lats[name]),))
        elif name == "edge" and arity == 3:
            if style == "improving":
                rows = improving_graph(rng, rng.choice([3, 5, 8, 12]))
            elif style == "chain":
                m = rng.choice([3, 5, 7])
                rows = [(i, i + 1, rng.choice([1, 2, 3])) for i in range(m)] + [(m, 0, 1)] * rng.choice([0, 1])
            else:
                m = {"small": 3, "mixed": 7, "dense": 14}.get(style, 5)
                rows = [(rng.choice(PLAIN_DOM), rng.choice(PLAIN_DOM), rng.choice([0, 1, 2, 3, 5, 7])) for _ in range(m)]
        elif name == "edge" and arity == 2:
            if style in ("chain", "improving"):
                m = rng.choice([3, 5, 8])
                rows = [(i, i + 1) for i in range(m)] + [(m, 0)] * rng.choice([0, 1])
            else:
                m = {"small": 3, "mixed": 7, "dense": 12}.get(style, 5)
                rows = [(rng.choice(PLAIN_DOM), rng.choice(PLAIN_DOM)) for _ in range(m)]
        else:
            if style == "small":
                m = rng.choice([0, 1, 2, 3])
            elif style == "dense":
                m = rng.choice([8, 12])
            else:
                m = rng.choice([1, 3, 5, 7])
            if style in ("chain", "improving") and arity == 2:
                rows = [(i % 6, (i + 1) % 6) for i in range(m)]
            else:
                rows = [tuple(rng.choice(PLAIN_DOM) for _ in range(arity)) for _ in range(m)]
        seen, out = set(), []
        for t in rows:
            if t not in seen:
                seen.add(t)
                out.append(tuple(t))
        inp[name] = out
    return inp, style


def features(p):
    f = set()
    lats = lat_of(p)
    for ty in lats.values():
        f.add("lat_" + ty)
    for name, arity, kind in p["rels"]:
        if name in lats:
            f.add("lat_arity_%d" % arity)
    for r in p["rules"]:
        nl = 0
        for it in r["body"]:
            if it[0] == "clause":
                if it[1] in lats:
                    nl += 1
                for c in it[3]:
                    f.add("clause_" + c[0])
            else:
                f.add(it[0] if it[0] != "cond" else it[1][0])
        f.add("lat_clauses_%d" % min(nl, 3))
        for rel, _ in r["heads"]:
            if rel in lats and nl:
                f.add("lat_from_lat")
            if rel not in lats and nl:
                f.add("plain_from_lat")
        if not r["body"]:
            f.add("fact")
    if p.get("sugar"):
        f.add("pattern_sugar")
    return f
