"""C17, program level: every library aggregator used through `agg` body items (and `!rel(..)`) of real ascent! /
ascent_par! programs, compiled by rustc against the working tree and run on embedded inputs (gen/prog.py), compared with

  * the python mathematical oracle: a naive evaluation of the rule in which the aggregate of a binding is the
    textbook definition applied to the rows that agree with the key (`kind='impl_violates_spec'`), and
  * the Coq model Agg/AggClauseModel.v `agg_clause` (key matching + Agg/AggModel.v aggregator), evaluated by
    vm_compute on every (aggregator, key pattern, relation rows) the rules ask for (`kind='model_differs'`).

Rule shapes (one head relation per rule, several rules per compiled program):
  body clauses 0 / 1 / 2 (simple join and cross product) / 3 / 4; the aggregate first, in the middle, last;
  optionally a clause AFTER the aggregate that joins on its result; key of the aggregated relation a bound variable,
  a constant, an expression over a bound variable or a wildcard (whole relation); aggregated relation binary (key
  first or second), ternary (projection => repeated values in the aggregated column) or unary (no key);
  a recursive family (the rule sits in a looping stratum, the aggregate's result feeds the recursion);
  the BOUND family (gen_bound_programs): the aggregator is evaluated ONCE by a `let` of the rule and that one value is
  applied to every group -- `o(k, 0, s) <-- let f = ascent::aggregators::percentile(50.0), a(k), agg s = (f)(x) in r(k, x);`,
  the `let` first / after the first clause / right before the aggregate, every aggregator (`let f = ascent::aggregators::min`
  ..), non-recursive and recursive, on inputs with many groups of different sizes incl. empty ones (group_inputs).
Inputs per program: a base input with an empty group / a singleton group / repeated values; the base with each
relation emptied in turn (clause relations AND aggregated relations, the latter also all at once); aggregated
relations holding rows for foreign keys only; singletons; everything empty; random inputs.
"""
import math
import struct
from fractions import Fraction

from . import lib, prog

PRELUDE = ("From Coq Require Import List ZArith.\nFrom AV Require Import Agg.AggModel.\nFrom AV Require Import Agg.AggClauseModel.\n"
           "Import ListNotations.\nOpen Scope Z_scope.\n")

KINDS = ["min", "max", "sum", "count", "mean", "percentile", "not", "neg"]   # neg = the sugar `!rel(..)` (desugars to not())
INT_RES = ("min", "max", "sum", "percentile")                               # result has the column type i32
WITH_X = ("min", "max", "sum", "mean", "percentile")
PS = [(50, 1), (0, 1), (100, 1), (25, 2), (33, 1), (75, 1), (99, 1)]
IN_RELS = [("a", 1), ("b", 2), ("c", 1), ("r", 2), ("w", 3), ("u", 1)]
AGG_RELS = ("r", "w", "u")
# argument templates of the aggregated relation: K = key (per key form), x = aggregated column, _ = wildcard, C = constant 1
T_WITH_X = [("r", "Kx"), ("w", "Kx_"), ("r", "xK"), ("w", "K_x"), ("u", "x"), ("w", "_xK"), ("w", "KxC")]
T_NO_X = [("r", "K_"), ("w", "K__"), ("r", "_K"), ("u", "K"), ("r", "KC"), ("u", "_"), ("w", "_K_")]
CHAINS = {
    0: [[]],
    1: [[["cl", "a", [["v", "k"]]]]],
    2: [[["cl", "a", [["v", "k"]]], ["cl", "b", [["v", "k"], ["v", "j"]]]],
        [["cl", "a", [["v", "k"]]], ["cl", "c", [["v", "j"]]]]],
    3: [[["cl", "a", [["v", "k"]]], ["cl", "b", [["v", "k"], ["v", "j"]]], ["cl", "c", [["v", "j"]]]]],
    4: [[["cl", "a", [["v", "k"]]], ["cl", "b", [["v", "k"], ["v", "j"]]], ["cl", "c", [["v", "j"]]], ["cl", "a", [["v", "j"]]]]],
}


class Panic(Exception):
    pass


# ------------------------------------------------------------------ generation

def bound_vars(items):
    out = []
    for it in items:
        if it[0] == "cl":
            for a in it[2]:
                if a[0] == "v" and a[1] not in out:
                    out.append(a[1])
    return out


def agg_item(kind, p, tmpl, keyform, bound, rng):
    rel, slots = tmpl
    args = []
    for s in slots:
        if s == "x":
            args.append(["x"])
        elif s == "_":
            args.append(["_"])
        elif s == "C":
            args.append(["c", 1])
        else:
            kf = keyform if (bound or keyform in ("const", "wild")) else "const"
            if kf == "var":
                args.append(["v", bound[-1] if rng.random() < 0.7 else bound[0]])
            elif kf == "expr":
                args.append(["e", bound[-1], rng.choice([1, 1, -1, 2])])
            elif kf == "const":
                args.append(["c", rng.choice([1, 1, 2, 0])])
            else:
                args.append(["_"])
    return ["agg", kind, list(p), rel, args]


def make_rule(head, kind, p, nc, pos, chain_i, tmpl_i, keyform, use_res, rng):
    chain = CHAINS[nc][chain_i % len(CHAINS[nc])]
    before, after = chain[:pos], chain[pos:]
    tmpl = (T_WITH_X if kind in WITH_X else T_NO_X)
    tmpl = tmpl[tmpl_i % len(tmpl)]
    body = [_copy(x) for x in before]
    body.append(agg_item(kind, p, tmpl, keyform, bound_vars(before), rng))
    body += [_copy(x) for x in after]
    if use_res and kind in INT_RES:
        body.append(["cl", "c", [["v", "s"]]])
    bv = bound_vars(chain)
    hargs = [["v", "k"] if "k" in bv else ["c", 0], ["v", "j"] if "j" in bv else ["c", 0], ["res"]]
    return dict(head=head, arity=3, hargs=hargs, body=body, shape=dict(kind=kind, nc=nc + (1 if use_res and kind in INT_RES else 0), pos=pos,
                                                                       key=keyform, rel=tmpl[0] + "(" + tmpl[1] + ")", rec=False))


def _copy(x):
    return [_copy(y) for y in x] if isinstance(x, list) else x


def make_rec_rules(head, kind, p, nc, pos, tmpl_i, keyform, rng):
    """d(k) <-- a(k);  d(v) <-- d(k), b(k, j) [, c(j)], agg.., let v = (result + j) mod 4;   the second rule is in a looping stratum"""
    chain = [["cl", head, [["v", "k"]]], ["cl", "b", [["v", "k"], ["v", "j"]]]] + ([["cl", "c", [["v", "j"]]]] if nc >= 3 else [])
    tmpl = (T_WITH_X if kind in WITH_X else T_NO_X)
    tmpl = tmpl[tmpl_i % len(tmpl)]
    before, after = chain[:pos], chain[pos:]
    body = [_copy(x) for x in before] + [agg_item(kind, p, tmpl, keyform, bound_vars(before), rng)] + [_copy(x) for x in after]
    body.append(["letmod", "v", "j", 4])
    r0 = dict(head=head, arity=1, hargs=[["v", "k"]], body=[["cl", "a", [["v", "k"]]]], shape=None)
    r1 = dict(head=head, arity=1, hargs=[["v", "v"]], body=body,
              shape=dict(kind=kind, nc=nc, pos=pos, key=keyform, rel=tmpl[0] + "(" + tmpl[1] + ")", rec=True))
    return [r0, r1]


def gen_programs(tier, seed):
    rng = lib.rng_for(seed, "C17", "prog")
    combos = []
    for kind in KINDS:
        for nc in (0, 1, 2, 3, 4):
            for pos in range(nc + 1):
                combos.append((kind, nc, pos))
    reps = 1 if tier == "quick" else 4
    rules = []
    n = 0
    for rep in range(reps):
        order = list(combos)
        if rep:
            rng.shuffle(order)
        for (kind, nc, pos) in order:
            keyforms = ["var", "const", "expr", "wild"]
            keyform = keyforms[(n + rep) % 4] if rep == 0 else rng.choice(keyforms)
            if pos == 0 and keyform in ("var", "expr"):
                keyform = "const" if (n % 2) else "wild"
            p = PS[n % len(PS)] if kind == "percentile" else (0, 1)
            use_res = (pos < nc or nc <= 1) and (n % 3 == 0)
            rules.append(make_rule("o%d" % n, kind, p, nc, pos, n + rep, n // 2 + rep * 3 + rng.randint(0, 1), keyform, use_res, rng))
            n += 1
    per = 6
    progs = []
    for i in range(0, len(rules), per):
        progs.append(dict(id="p%d" % len(progs), macro="ascent", rules=rules[i:i + per]))
    # recursive family
    recs = []
    m = 0
    for rep in range(reps):
        for kind in KINDS:
            for nc in (2, 3):
                pos = nc if (m % 3) else rng.randint(1, nc)
                keyform = ["var", "expr", "var", "const"][m % 4] if rep == 0 else rng.choice(["var", "expr", "const", "wild"])
                p = PS[m % len(PS)] if kind == "percentile" else (0, 1)
                recs.append(make_rec_rules("d%d" % m, kind, p, nc, pos, m + rep, keyform, rng))
                m += 1
    for i in range(0, len(recs), 4):
        progs.append(dict(id="q%d" % (i // 4), macro="ascent", rules=[r for pair in recs[i:i + 4] for r in pair]))
    # the same programs through the parallel macro (a share of them)
    npar = max(1, len(progs) // 3) if tier == "quick" else len(progs) // 2
    step = max(1, len(progs) // npar)
    par = [dict(id=p["id"] + "par", macro="ascent_par", rules=p["rules"]) for p in progs[::step]][:npar]
    return progs + par


def bind_once(rule, lp, var="f"):
    """the rule with its aggregator evaluated once by a `let` at body position lp (<= position of the aggregate).
    Where the types allow: the bound value is monomorphic in its iterator type (`percentile`'s TInputIter; the `impl Iterator`
    of a fn item bound by `let`), so it can be applied at ONE code site only.  A `let` in front of two clauses that the
    generated code joins in either order (both orders are emitted, each with its own copy of the rest of the body) does
    not compile (E0308 `expected closure, found a different closure`); lp = 0 is therefore used only with at most one
    clause in front of the aggregate."""
    body = [_copy(x) for x in rule["body"]]
    ai = [i for i, it in enumerate(body) if it[0] == "agg"][0]
    assert lp <= ai and body[ai][1] != "neg"
    body[ai] = body[ai][:5] + [var]
    body.insert(lp, ["letagg", var, body[ai][1], body[ai][2]])
    shape = dict(rule["shape"], bound="let-first" if lp == 0 else ("let-before-agg" if lp == ai else "let-middle"))
    return dict(rule, body=body, shape=shape)


BOUND_KINDS = ["percentile", "min", "max", "sum", "count", "mean", "not"]


def gen_bound_programs(tier, seed):
    """rules that evaluate the aggregator ONCE (`let f = ..`) and apply the value per group; each program carries its own inputs"""
    rng = lib.rng_for(seed, "C17", "progbound")
    inputs = group_inputs(lib.rng_for(seed, "C17", "progboundinputs"), tier)
    rules, recs = [], []
    n = 0
    reps = 1 if tier == "quick" else 4
    for rep in range(reps):
        for kind in BOUND_KINDS:
            ps = (PS if rep == 0 else [rng.choice(PS)]) if kind == "percentile" else [(0, 1)]
            for p in ps:
                # (clauses, position of the aggregate): the aggregate is reached once per binding of the clauses before it
                shapes = [(1, 1), (2, 2), (2, 1), (3, 3), (3, 2), (4, 4)]
                take = shapes if (kind == "percentile" and p in PS[:3]) or tier != "quick" else [shapes[n % len(shapes)], shapes[(n + 2) % len(shapes)]]
                for (nc, pos) in take:
                    keyform = "var" if (n % 4) else "expr"
                    use_res = (n % 3 == 0) and pos < nc
                    r = make_rule("g%d" % n, kind, p, nc, pos, n + rep, n // 2 + rng.randint(0, 1), keyform, use_res, rng)
                    lp = [0, 0, pos, rng.randint(0, max(0, pos - 1))][n % 4]
                    if lp == 0 and pos >= 2:
                        lp = 1      # see bind_once: a `let` in front of two clauses is shared by both orders of their join
                    rules.append(bind_once(r, lp))
                    n += 1
    m = 0
    for rep in range(reps):
        for kind in BOUND_KINDS:
            nc = 2 + (m % 2)
            p = PS[m % len(PS)] if kind == "percentile" else (0, 1)
            r0, r1 = make_rec_rules("h%d" % m, kind, p, nc, nc, m + rep, "var" if m % 2 else "expr", rng)
            recs.append([r0, bind_once(r1, [1, nc, 1, 2][m % 4])])
            m += 1
    progs = []
    for i in range(0, len(rules), 6):
        progs.append(dict(id="bp%d" % len(progs), macro="ascent", rules=rules[i:i + 6], inputs=inputs))
    for i in range(0, len(recs), 4):
        progs.append(dict(id="bq%d" % (i // 4), macro="ascent", rules=[r for pair in recs[i:i + 4] for r in pair], inputs=inputs))
    # the parallel macro: the bound value is shared by the workers (it must be Sync; every library aggregator is)
    npar = 1 if tier == "quick" else max(1, len(progs) // 3)
    step = max(1, len(progs) // npar)
    progs += [dict(id=q["id"] + "par", macro="ascent_par", rules=q["rules"], inputs=inputs) for q in progs[::step]][:npar]
    return progs


def group_inputs(rng, tier):
    """inputs with MANY groups of different sizes (empty ones among them) in the aggregated relations, reached through
    several keys of the clause relations, plus the degenerate ones"""
    ins = []
    nrand = 4 if tier == "quick" else 16
    for i in range(nrand):
        keys = list(range(8))
        sizes = [4, 3, 0, 1, 2, 6, 0, 5]
        rng.shuffle(sizes)
        dom = rng.choice([list(range(-20, 60)), list(range(0, 12)), [7 * v - 30 for v in range(40)]])
        d = {}
        d["a"] = [(k,) for k in keys if rng.random() < 0.9]
        rng.shuffle(d["a"])
        d["b"] = sorted(set((rng.choice(keys), rng.choice(keys)) for _ in range(rng.choice([6, 12, 20]))))
        d["c"] = [(k,) for k in range(-1, 9) if rng.random() < 0.8] + [(v,) for v in rng.sample(dom, 6)]
        d["r"], d["w"], d["u"] = [], [], []
        for k, n in zip(keys, sizes):
            vals = rng.sample(dom, min(n, len(dom)))
            d["r"] += [(k, v) for v in vals] if i % 2 == 0 else [(v, k) for v in vals] + [(k, v) for v in vals[:2]]
            d["w"] += [(k, v, z) for v in vals for z in range(rng.choice([1, 1, 2]))]
        sizes2 = list(sizes)
        rng.shuffle(sizes2)
        for k, n in zip(keys, sizes2):
            d["w"] += [(rng.choice(dom), rng.choice(dom), k) for _ in range(n)]
        d["r"], d["w"] = sorted(set(d["r"])), sorted(set(d["w"]))
        d["u"] = sorted(set((v,) for v in rng.sample(dom, rng.choice([1, 3, 7])) + [rng.choice(keys)]))
        ins.append(("groups%d" % i, d))
    base = dict(a=[(0,), (1,), (2,)], b=[(0, 1), (1, 1), (2, 0), (1, 2)], c=[(0,), (1,), (2,), (3,), (5,)],
                r=[(1, 5), (1, -2), (2, 3), (3, 3)], w=[(1, 4, 0), (1, 4, 1), (1, -1, 0), (2, 2, 0), (2, 2, 1), (0, 1, 1)], u=[(3,), (-1,), (1,)])
    ins.append(("base", base))
    d = dict(base)
    for rel in AGG_RELS:
        d[rel] = []
    ins.append(("aggregated-relations-empty", d))
    ins.append(("all-empty", {rel: [] for rel, _ in IN_RELS}))
    return ins


def base_inputs(rng, tier):
    base = dict(a=[(0,), (1,), (2,)], b=[(0, 1), (1, 1), (2, 0), (1, 2)], c=[(0,), (1,), (2,), (3,), (5,)],
                r=[(1, 5), (1, -2), (2, 3), (3, 3)], w=[(1, 4, 0), (1, 4, 1), (1, -1, 0), (2, 2, 0), (2, 2, 1), (0, 1, 1)], u=[(3,), (-1,), (1,)])
    ins = [("base", base)]
    for rel, _ in IN_RELS:
        d = dict(base)
        d[rel] = []
        ins.append(("base-without-" + rel, d))
    d = dict(base)
    for rel in AGG_RELS:
        d[rel] = []
    ins.append(("aggregated-relations-empty", d))
    d = dict(base)
    d.update(r=[(9, 7)], w=[(9, 7, 9), (8, 7, 9)], u=[(2,)])
    ins.append(("foreign-keys-only", d))
    ins.append(("singletons", dict(a=[(1,)], b=[(1, 1)], c=[(1,), (2,)], r=[(1, 2)], w=[(1, 2, 1)], u=[(1,)])))
    ins.append(("all-empty", {rel: [] for rel, _ in IN_RELS}))
    nrand = 5 if tier == "quick" else 20
    for i in range(nrand):
        d = {}
        dens = rng.choice([0.25, 0.5, 0.8])
        d["a"] = [(k,) for k in range(4) if rng.random() < 0.7]
        d["b"] = [(k, j) for k in range(4) for j in range(4) if rng.random() < dens * 0.6]
        d["c"] = [(k,) for k in range(-2, 7) if rng.random() < 0.6]
        vals = rng.choice([[-3, -1, 0, 2, 5], [1, 2], [0, 1, 2, 3], [4]])
        d["r"] = sorted(set((rng.randint(0, 4), rng.choice(vals)) for _ in range(rng.choice([1, 3, 6, 10]))))
        d["w"] = sorted(set((rng.randint(0, 4), rng.choice(vals), rng.randint(0, 2)) for _ in range(rng.choice([1, 4, 8, 12]))))
        d["u"] = sorted(set((rng.choice(vals),) for _ in range(rng.choice([1, 2, 5]))))
        if rng.random() < 0.3:
            d[rng.choice(AGG_RELS)] = []
        ins.append(("random%d" % i, d))
    return ins


# ------------------------------------------------------------------ rendering

def r_arg(a):
    if a[0] == "v":
        return a[1]
    if a[0] == "c":
        return "%d" % a[1]
    if a[0] == "e":
        return "%s + %d" % (a[1], a[2]) if a[2] >= 0 else "%s - %d" % (a[1], -a[2])
    if a[0] == "x":
        return "x"
    return "_"


def res_i64(kind):
    if kind == "mean":
        return "(s.to_bits() as i64)"
    if kind in ("not", "neg"):
        return "0i64"
    return "(s as i64)"


def res_floor_i64(kind):
    if kind == "mean":
        return "(s.floor() as i64)"
    if kind in ("not", "neg"):
        return "0i64"
    return "(s as i64)"


def rule_kind(rule):
    for it in rule["body"]:
        if it[0] == "agg":
            return it[1]
    return None


def r_item(it, kind):
    if it[0] == "cl":
        return "%s(%s)" % (it[1], ", ".join(r_arg(a) for a in it[2]))
    if it[0] == "letagg":
        # the aggregator VALUE, evaluated once per binding that reaches the `let`
        _, var, k, p = it
        if k == "percentile":
            return "let %s = ascent::aggregators::percentile(%sf64)" % (var, repr(float(Fraction(p[0], p[1]))))
        return "let %s = ascent::aggregators::%s" % (var, k)
    if it[0] == "agg":
        _, k, p, rel, args = it[:5]
        at = "%s(%s)" % (rel, ", ".join(r_arg(a) for a in args))
        if len(it) > 5:
            # the aggregator expression is the variable bound by an earlier `let`
            if k == "not":
                return "agg () = (%s)() in %s" % (it[5], at)
            return "agg s = (%s)(%s) in %s" % (it[5], "" if k == "count" else "x", at)
        if k == "neg":
            return "!" + at
        if k == "not":
            return "agg () = not() in " + at
        if k == "count":
            return "agg s = count() in " + at
        if k == "percentile":
            return "agg s = (percentile(%sf64))(x) in %s" % (repr(float(Fraction(p[0], p[1]))), at)
        return "agg s = %s(x) in %s" % (k, at)
    if it[0] == "letmod":
        return "let %s = ((%s + (%s.clone() as i64)).rem_euclid(%d) as i32)" % (it[1], res_floor_i64(kind), it[2], it[3])
    raise ValueError(it)


def r_rule(rule):
    kind = rule_kind(rule)
    hargs = []
    for a in rule["hargs"]:
        hargs.append(res_i64(kind) if a[0] == "res" else r_arg(a))
    return "%s(%s) <-- %s;" % (rule["head"], ", ".join(hargs), ", ".join(r_item(it, kind) for it in rule["body"]))


def heads_of(p):
    out = []
    for r in p["rules"]:
        if (r["head"], r["arity"]) not in out:
            out.append((r["head"], r["arity"]))
    return out


def program_text(p):
    lines = []
    for rel, ar in IN_RELS:
        lines.append("relation %s(%s);" % (rel, ", ".join(["i32"] * ar)))
    for h, ar in heads_of(p):
        lines.append("relation %s(%s);" % (h, "i32, i32, i64" if ar == 3 else "i32"))
    for r in p["rules"]:
        lines.append(r_rule(r))
    return "\n".join(lines)


def job_of(p, inputs):
    scripts = [[("set", dict(inp)), ("run",), ("snap",)] for _, inp in inputs]
    return dict(id=p["id"], text=program_text(p), macro=p["macro"], rels=[(h, ar, "rel") for h, ar in heads_of(p)], scripts=scripts,
                pre="use ascent::aggregators::*;")


# ------------------------------------------------------------------ oracles

def group_class(nrows, vals, nmatch):
    if nrows == 0:
        return "relation-completely-empty"
    if nmatch == 0:
        return "empty-group-of-non-empty-relation"
    if nmatch == 1:
        return "singleton-group"
    if len(set(vals)) < len(vals):
        return "group-with-repeated-values"
    return "group-of-distinct-values"


def spec_agg(kind, p, pat, col, rows):
    """the mathematical definition on the rows that agree with the key; independent of model and code"""
    m = [t for t in rows if len(t) == len(pat) and all(q is None or q == v for q, v in zip(pat, t))]
    g = [t[col] for t in m]
    if kind == "min":
        return [min(g)] if g else []
    if kind == "max":
        return [max(g)] if g else []
    if kind == "sum":
        return [sum(g)]
    if kind == "count":
        return [len(m)]
    if kind in ("not", "neg"):
        return [] if m else [0]
    if kind == "mean":
        return [Fraction(sum(g), len(g))] if g else []
    if kind == "percentile":
        if not g:
            return []
        k = min(int(Fraction(len(g) * p[0], p[1] * 100)), len(g) - 1)
        return [sorted(g)[k]]
    raise ValueError(kind)


COQ_K = dict(min="AMin", max="AMax", sum="ASum", count="ACount", mean="AMean", neg="ANot")
COQ_K["not"] = "ANot"


def coq_agg_expr(key):
    kind, p, pat, col, rows = key
    k = "(APct %s %s)" % (lib.zz(p[0]), lib.zz(p[1])) if kind == "percentile" else COQ_K[kind]
    pt = "[" + "; ".join("None" if q is None else "Some %s" % lib.zz(q) for q in pat) + "]"
    rs = "[" + "; ".join(lib.zlist(t) for t in rows) + "]"
    return "agg_clause %s %s %d%%nat %s" % (k, pt, col, rs)


class Model:
    """table of Coq evaluations of agg_clause; unknown requests are recorded and answered by `None`"""

    def __init__(self):
        self.table, self.missing, self.collecting = {}, [], True

    def agg(self, kind, p, pat, col, rows):
        key = (kind, tuple(p), tuple(pat), col, tuple(rows))
        if key not in self.table:
            self.missing.append(key)
            # collecting pass: go on with the definition's answer so that one round gathers every request of the rule
            return spec_agg(kind, p, pat, col, rows) if self.collecting else None
        v = self.table[key]
        if v == "Panic":
            return "panic"
        assert v[0] == "Ok", v
        out = []
        for (n, d) in v[1]:
            out.append(Fraction(n, d) if kind == "mean" else (n if d == 1 else Fraction(n, d)))
        return out

    def fill(self, tag):
        keys = sorted(set(self.missing), key=repr)
        self.missing = []
        if keys:
            vals = lib.coq_eval(tag, PRELUDE, [coq_agg_expr(k) for k in keys])
            for k, v in zip(keys, vals):
                self.table[k] = v


class Incomplete(Exception):
    pass


def eval_rule_once(rule, db, aggfun, stats=None):
    """head tuples derived by one application of the rule to db"""
    envs = [{}]
    kind = rule_kind(rule)
    for it in rule["body"]:
        nxt = []
        if it[0] == "cl":
            rows = db.get(it[1], ())
            for env in envs:
                for t in rows:
                    e2 = dict(env)
                    ok = True
                    for a, v in zip(it[2], t):
                        if a[0] == "c":
                            ok = a[1] == v
                        elif a[0] == "v":
                            if a[1] in e2:
                                ok = e2[a[1]] == v
                            else:
                                e2[a[1]] = v
                        if not ok:
                            break
                    if ok:
                        nxt.append(e2)
        elif it[0] == "letagg":
            nxt = envs          # binds the aggregator value only: no effect on the bindings of the rule's variables
        elif it[0] == "agg":
            _, k, p, rel, args = it[:5]
            rows = tuple(sorted(db.get(rel, ())))
            for env in envs:
                pat, col = [], 0
                for i, a in enumerate(args):
                    if a[0] == "v":
                        pat.append(env[a[1]])
                    elif a[0] == "c":
                        pat.append(a[1])
                    elif a[0] == "e":
                        pat.append(env[a[1]] + a[2])
                    else:
                        pat.append(None)
                        if a[0] == "x":
                            col = i
                vals = aggfun(k, p, tuple(pat), col, rows)
                if stats is not None:
                    m = [t for t in rows if all(q is None or q == v for q, v in zip(pat, t))]
                    gc = group_class(len(rows), [t[col] for t in m] if k in WITH_X else list(range(len(m))), len(m))
                    stats[gc] = stats.get(gc, 0) + 1
                if vals is None:
                    raise Incomplete()
                if vals == "panic":
                    raise Panic()
                for v in vals:
                    e2 = dict(env)
                    e2["s"] = v
                    nxt.append(e2)
        elif it[0] == "letmod":
            for env in envs:
                e2 = dict(env)
                s = env.get("s", 0)
                e2[it[1]] = (math.floor(s) + env[it[2]]) % it[3]
                nxt.append(e2)
        envs = nxt
    out = set()
    for env in envs:
        t = []
        for a in rule["hargs"]:
            if a[0] == "res":
                s = env.get("s", 0)
                t.append(float(s) if kind == "mean" else int(s))
            elif a[0] == "c":
                t.append(a[1])
            else:
                t.append(env[a[1]])
        out.add(tuple(t))
    return out


def eval_program(rules, inp, aggfun, stats=None):
    """least fixed point (the aggregated relations are inputs, so every rule is monotone in the derived relations)"""
    db = {rel: set(map(tuple, ts)) for rel, ts in inp.items()}
    for r in rules:
        db.setdefault(r["head"], set())
    for _ in range(64):
        changed = False
        for r in rules:
            new = eval_rule_once(r, db, aggfun, stats) - db[r["head"]]
            if new:
                db[r["head"]] |= new
                changed = True
        if not changed:
            return db
    raise lib.Infra("C17 program oracle: no fixed point within 64 rounds")


def decode_impl(res, heads, kinds):
    """result of one script -> {head: set of tuples} | ('panic', msg) | ('error', msg)"""
    if res is None:
        return ("error", "no result")
    if "panic" in res:
        return ("panic", res["panic"])
    if "compile_error" in res:
        return ("compile_error", res["compile_error"])
    if "snaps" not in res:
        return ("error", str(res)[:300])
    snap = prog.canon_snap(res["snaps"][-1])
    out = {}
    for h, ar in heads:
        if h not in snap:
            return ("error", "relation %s missing from the snapshot" % h)
        ts = set()
        for t in snap[h][1]:
            if ar == 3 and kinds.get(h) == "mean":
                t = (t[0], t[1], struct.unpack("<d", struct.pack("<q", t[2]))[0])
            ts.add(tuple(t))
        out[h] = ts
    return out


def rules_for_head(p, h):
    return [r for r in p["rules"] if r["head"] == h]


def run(progs, inputs, tag="c17p"):
    """returns (mismatches, stats)"""
    jobs = [job_of(p, p.get("inputs") or inputs) for p in progs]
    impl = prog.build_and_run(tag, jobs, nbins=min(lib.NCPU, max(1, (len(jobs) + 1) // 2)))
    model = Model()
    mism = []
    stats = dict(evaluations=0, nontrivial=set(), by_aggregator={}, by_clauses={}, by_position={}, by_key={}, by_rel={}, by_macro={}, by_aggregator_expression={},
                 group_classes={}, nonempty_expected=0, samples=[])
    # pass 1: the python oracle, and the requests the model will be asked
    work = []
    for p in progs:
        heads = heads_of(p)
        for si, (iname, inp) in enumerate(p.get("inputs") or inputs):
            for h, ar in heads:
                rs = rules_for_head(p, h)
                gst = {}
                sp = eval_program(rs, inp, spec_agg, gst)[h]
                work.append((p, si, iname, inp, h, ar, rs, sp, gst))
    for _ in range(8):
        for (p, si, iname, inp, h, ar, rs, sp, gst) in work:
            try:
                eval_program(rs, inp, model.agg)
            except (Incomplete, Panic):
                pass
        if not model.missing:
            break
        model.fill(tag)
    model.collecting = False
    model.missing = []
    for (p, si, iname, inp, h, ar, rs, sp, gst) in work:
        try:
            mv = eval_program(rs, inp, model.agg)[h]
        except Panic:
            mv = ("panic", "Agg/AggModel.v agg_percentile = Panic")
        except Incomplete:
            mv = ("error", "model evaluation did not close")
        kinds = {r["head"]: rule_kind(r) for r in p["rules"] if rule_kind(r)}
        res = impl.get(p["id"])
        iv = decode_impl(res[si] if res else None, heads_of(p), kinds)
        if isinstance(iv, tuple) and iv[0] == "error":
            raise lib.Infra("C17 program %s input %s: %s" % (p["id"], iname, iv[1]))
        ivh = iv if isinstance(iv, tuple) else iv[h]
        shape = [r["shape"] for r in rs if r["shape"]][0]
        stats["evaluations"] += 1
        for key, val in (("by_aggregator", shape["kind"]), ("by_clauses", "%d%s" % (shape["nc"], "-recursive" if shape["rec"] else "")),
                         ("by_position", "first" if shape["pos"] == 0 else ("last" if shape["pos"] >= shape["nc"] else "middle")),
                         ("by_key", shape["key"]), ("by_rel", shape["rel"]), ("by_macro", p["macro"]),
                         ("by_aggregator_expression", shape.get("bound", "inline (evaluated per binding)"))):
            stats[key][val] = stats[key].get(val, 0) + 1
        for gc, n in gst.items():
            stats["group_classes"][gc] = stats["group_classes"].get(gc, 0) + n
        if gst:
            stats["nontrivial"].add((p["macro"], "\n".join(r_rule(r) for r in rs), repr(sorted(inp.items()))))
        if sp:
            stats["nonempty_expected"] += 1
        case = dict(family="prog", macro=p["macro"], rules=rs, input={k: [list(t) for t in v] for k, v in inp.items()}, input_name=iname,
                    head=h, text="\n".join(r_rule(r) for r in rs))
        if len(stats["samples"]) < 3 and sp and shape["kind"] in ("sum", "percentile", "mean"):
            stats["samples"].append(dict(case=dict(text=case["text"], input=case["input"]), impl=sorted(ivh) if not isinstance(ivh, tuple) else ivh, model=sorted(mv) if not isinstance(mv, tuple) else mv))
        spl, ivl = sorted(sp), (sorted(ivh) if not isinstance(ivh, tuple) else list(ivh))
        mvl = sorted(mv) if not isinstance(mv, tuple) else list(mv)
        if isinstance(ivh, tuple) or ivh != sp:
            mism.append(dict(case=case, impl=ivl, model=mvl, spec=spl, kind="impl_violates_spec", known=None,
                             what="%s! program `%s` on input %s (%s): relation %s is %s, the aggregators' definitions give %s" % (
                                 p["macro"], case["text"], iname, {k: v for k, v in case["input"].items() if any(k == it[1] or (it[0] == "agg" and k == it[3]) for r in rs for it in r["body"] if it[0] in ("cl", "agg"))},
                                 h, ivl, spl)))
        elif isinstance(mv, tuple) or mv != ivh:
            mism.append(dict(case=case, impl=ivl, model=mvl, spec=spl, kind="model_differs", known=None,
                             what="correspondence Agg/AggClauseModel.v agg_clause vs the generated code of `%s` on input %s" % (case["text"], iname)))
    stats["distinct_nontrivial"] = len(stats.pop("nontrivial"))
    stats["programs"] = len(progs)
    stats["inputs_per_program"] = len(inputs or [])
    return mism, stats


def tie(tier, seed):
    rng = lib.rng_for(seed, "C17", "proginputs")
    progs = gen_programs(tier, seed)
    inputs = base_inputs(rng, tier)
    return run(progs, inputs)


def replay(case):
    p = dict(id="replay", macro=case["macro"], rules=case["rules"])
    inp = {k: [tuple(t) for t in v] for k, v in case["input"].items()}
    return run([p], [(case.get("input_name", "replay"), inp)], tag="c17preplay")
