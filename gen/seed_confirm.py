"""python3 -m gen.seed_confirm <PROP> <name> — confirm a seeded change delivered by a mutation sub-agent in
/tmp/seed_<PROP> (worktree, change applied) + /tmp/seed_<PROP>_out (patch.diff, demo/, README.md):
 1. the existing test suite passes with the change;  2. the demo fails with it;  3. the demo passes without it.
Then store it under /verif/seeded/<name>/ and run the property's check against the changed worktree."""
import json
import os
import shutil
import subprocess
import sys
import time

from . import lib


def sh(cmd, cwd, timeout=3000):
    p = subprocess.run(cmd, cwd=cwd, shell=True, stdout=subprocess.PIPE, stderr=subprocess.STDOUT, text=True, timeout=timeout,
                       env=dict(os.environ, CARGO_NET_OFFLINE="true"))
    return p.returncode, p.stdout


def demo_cmd(demo):
    if os.path.exists(os.path.join(demo, "run.sh")):
        return "sh run.sh"
    if os.path.isdir(os.path.join(demo, "tests")):
        return "cargo test --offline 2>&1"
    return "cargo run --offline 2>&1"


def main():
    prop, name = sys.argv[1], sys.argv[2]
    wt, out = "/tmp/seed_%s" % prop, "/tmp/seed_%s_out" % prop
    if len(sys.argv) > 3:
        wt, out = sys.argv[3], sys.argv[4]
    demo = os.path.join(out, "demo")
    meta = dict(property=prop, name=name, confirmed_at=time.strftime("%Y-%m-%d %H:%M:%S"))
    rc, o = sh("git diff --stat", wt)
    meta["diffstat"] = o.strip()
    rc, o = sh("cargo test --workspace --no-fail-fast --offline 2>&1 | grep -E '^test result|FAILED|panicked' ", wt)
    meta["tests_with_change"] = o.strip().splitlines()
    tests_ok = all("0 failed" in l for l in meta["tests_with_change"] if l.startswith("test result")) and any(l.startswith("test result") for l in meta["tests_with_change"])
    cmd = demo_cmd(demo)
    rc1, o1 = sh(cmd, demo)
    meta["demo_with_change"] = dict(cmd=cmd, rc=rc1, tail=o1[-600:])
    sh("git diff > %s/confirm_patch.diff && git checkout -- ." % out, wt)
    rc2, o2 = sh(cmd, demo)
    meta["demo_without_change"] = dict(cmd=cmd, rc=rc2, tail=o2[-400:])
    sh("git apply %s/confirm_patch.diff" % out, wt)
    meta["confirmed"] = bool(tests_ok and rc1 != 0 and rc2 == 0)
    print(json.dumps(dict(tests_ok=tests_ok, demo_with=rc1, demo_without=rc2, confirmed=meta["confirmed"])))
    # run our check against the changed worktree
    t0 = time.time()
    p = subprocess.run(["./check", prop, "quick"], cwd=lib.VERIF, env=dict(os.environ, VERIF_REPO=wt), stdout=subprocess.PIPE, stderr=subprocess.STDOUT, text=True, timeout=3000)
    viol = [l for l in p.stdout.splitlines() if l.startswith("VIOLATION")]
    meta["check"] = dict(cmd="VERIF_REPO=%s ./check %s quick" % (wt, prop), rc=p.returncode, violation_lines=viol, wall_s=round(time.time() - t0, 1),
                         tail=p.stdout[-500:])
    meta["caught"] = bool(viol)
    meta["caught_with_failing_input"] = bool(viol and "no-failing-input-found" not in viol[0])
    print("check:", p.returncode, viol)
    dst = os.path.join(lib.VERIF, "seeded", name)
    if os.path.exists(dst):
        shutil.rmtree(dst)
    os.makedirs(dst)
    shutil.copy(os.path.join(out, "confirm_patch.diff"), os.path.join(dst, "patch.diff"))
    if os.path.isdir(demo):
        shutil.copytree(demo, os.path.join(dst, "demo"), ignore=shutil.ignore_patterns("target", "Cargo.lock"))
    if os.path.exists(os.path.join(out, "README.md")):
        shutil.copy(os.path.join(out, "README.md"), os.path.join(dst, "README.md"))
    meta["needs_to_manifest"] = "see README.md"
    json.dump(meta, open(os.path.join(dst, "meta.json"), "w"), indent=1)


if __name__ == "__main__":
    main()
