"""CONTENTION family: few BIG runs of `ascent_par!` programs, judged by the specification computed in python.

Blind spot this family covers: every other parallel run of the ties (gen/c03_par.py, gen/props/c02.py, c05.py) is tiny (a few dozen
rows), so no DashMap shard is ever contended, grown or rehashed while another worker reads it, and no worker is ever preempted while it
holds a shard lock.  Anything that is only wrong under real write contention (a lookup that gives up on a locked shard, a check-then-insert
that is not atomic, a lost update of a row that two workers improve at once, a row pushed twice) is invisible there.

Here: 10^4-10^5 keys / tuples, every one derived several times IN ONE ITERATION by different workers, in rayon pools of 4-16 threads
(#shards of the concurrent maps = 4 x pool size, a process constant: one process per case), the same input run a handful of rounds
(the schedule is not reproducible, so several rounds: 6 quick / 12 thorough per big input).  Per program also a SMALL input (a tenth of
the keys) that is run under the seeded perturbation hook of feature verif_hooks too (a perturbed round of a big input costs 10-30 x a
plain one - the hook's global event counter and sleeps - and contends less).  The real runs go one at a time, after all python work.
Measured on seed C03_par_key_index_try_get_spurious_miss (key-index lookup gives up on a write-locked shard): about 70 % of the rounds of
every lattice case fail, 20 of 20 quick runs caught on a machine with load average 35; 16 of 16 runs clean on the unchanged tree.
The real code is driven by harness/par_contention (fixed programs, a pure driver: reads the input rows from a binary file, writes the
rows of every relation after run() in storage order; nothing is checked or deduplicated there).

Programs (text in harness/par_contention/src/main.rs, PROGRAMS below repeats it for the reports):
  best   one rule, lattice of integers (join = max)
  two    two rules feeding ONE lattice with a two-column key (Dual: join = min) under #![inter_rule_parallelism], and a plain
         relation reading the result through an upward-closed test
  flow   recursion through the lattice (cheapest path over a layered graph: the keys of a layer are created in one iteration, each
         from several predecessors, and improved in the same and in later iterations) next to the same recursion on a plain relation
  part   partial orders: Set (join = union) and Product<(u32, Dual<u32>)>; an orphaned / lost row shows as a proper part of the join
  plain  plain relations: many distinct tuples each derived several times in one iteration (projections), and a join over them

Oracle = the specification: for a lattice relation exactly ONE row per key that has a derivable value, holding the least upper bound of
all values derivable for the key (least fixed point, computed by python from the explicit input rows); for a plain relation exactly one
row per derivable tuple.

    run(tier, seed) -> dict(mismatches, evaluations, distinct, distribution)         (mismatches in the format of gen/runner.py)
    replay(case)    -> the same dict for 8 (+ 4 perturbed) rounds of one case       (case = the `case` of such a mismatch)
"""
import array
import hashlib
import os
import shutil
import subprocess
import time
import concurrent.futures as cf

from . import lib

FAMILY = "par_contention"

PROGRAMS = {
    "best": "relation inp(u32, u32); lattice best(u32, u32); best(k, v) <-- inp(k, v);",
    "two": "#![inter_rule_parallelism] relation a(u32, u32, u32); relation b(u32, u32, u32); lattice l(u32, u32, Dual<u32>); "
           "l(x, y, Dual(*v)) <-- a(x, y, v); l(x, y, Dual(*v)) <-- b(x, y, v); relation low(u32, u32); low(x, y) <-- l(x, y, v), if v.0 < 500;",
    "flow": "#![inter_rule_parallelism] relation src(u32, u32); relation next(u32, u32, u32); lattice d(u32, Dual<u32>); d(k, Dual(*v)) <-- src(k, v); "
            "d(j, Dual(v.0 + *w)) <-- next(k, j, w), d(k, v); relation seen(u32); seen(k) <-- src(k, _); seen(j) <-- next(k, j, _), seen(k);",
    "part": "relation e(u32, u32, u32); lattice s(u32, Set<u32>); s(k, Set::singleton(*a % 32)) <-- e(k, a, _); lattice pr(u32, Product<(u32, Dual<u32>)>); "
            "pr(k, Product((*a, Dual(*b)))) <-- e(k, a, b); relation big(u32); big(k) <-- s(k, st), if st.len() >= 3;",
    "plain": "#![inter_rule_parallelism] relation e(u32, u32, u32); relation f(u32, u32); relation r(u32, u32); r(x, y) <-- e(x, y, _); relation q(u32); "
             "q(y) <-- e(_, y, _); q(y) <-- f(y, _); relation j(u32, u32); j(x, z) <-- r(x, y), f(y, z);",
}
# relation -> number of key columns (lattice relations) / None (plain relations), per program, in output order
OUTPUTS = {
    "best": [("best", 2, 1)],
    "two": [("l", 3, 2), ("low", 2, None)],
    "flow": [("d", 2, 1), ("seen", 1, None)],
    "part": [("s", 2, 1), ("pr", 3, 1), ("big", 1, None)],
    "plain": [("r", 2, None), ("q", 1, None), ("j", 2, None)],
}
LAYOUTS = ["block", "adjacent", "strided", "rotated"]


# ------------------------------------------------------------------ inputs (deterministic functions of the case parameters)

def _rand_words(rng, n, mod):
    a = array.array("I")
    a.frombytes(rng.getrandbits(32 * n).to_bytes(4 * n, "little") if n else b"")
    if a.itemsize != 4:
        raise lib.Infra("array('I') is not 32 bit on this platform")
    return [w % mod for w in a]


def _coprime(rng, n):
    import math
    while True:
        s = rng.randrange(n // 3 + 1, n) if n > 3 else 1
        if math.gcd(s, n) == 1:
            return s


def _key_order(rng, nkeys, per_key, layout):
    """the key of every row, nkeys * per_key rows: every key occurs per_key times.
    block: occurrence j of key k at row j * nkeys + k (workers scanning their own block reach one key at about the same time);
    adjacent: all rows of a key next to each other; strided: a fixed stride through the keys; rotated: block, each block rotated"""
    n = nkeys * per_key
    if layout == "block":
        return list(range(nkeys)) * per_key
    if layout == "adjacent":
        return [k for k in range(nkeys) for _ in range(per_key)]
    if layout == "strided":
        s = _coprime(rng, nkeys)
        return [(i * s) % nkeys for i in range(n)]
    if layout == "rotated":
        out = []
        base = list(range(nkeys))
        for j in range(per_key):
            sh = rng.randrange(0, max(1, nkeys // 50))
            out += base[sh:] + base[:sh]
        return out
    raise ValueError(layout)


def make_input(case):
    """{relation: (arity, [column lists])} from the case parameters"""
    import random
    rng = random.Random(case["gen_seed"])
    prog, nk, pk, layout = case["program"], case["keys"], case["per_key"], case["layout"]
    keys = _key_order(rng, nk, pk, layout)
    n = len(keys)
    if prog == "best":
        return {"inp": (2, [keys, _rand_words(rng, n, 1000003)])}
    if prog == "two":
        width = case["width"]
        # key (x, y) = (k // width, k % width); values mostly above the threshold of `low`
        xs = [k // width for k in keys]
        ys = [k % width for k in keys]
        vs = _rand_words(rng, n, 4000)
        half = n // 2
        if layout == "adjacent":
            # alternate rows between the two source relations so that both rules derive every key
            ia, ib = range(0, n, 2), range(1, n, 2)
            return {"a": (3, [[xs[i] for i in ia], [ys[i] for i in ia], [vs[i] for i in ia]]),
                    "b": (3, [[xs[i] for i in ib], [ys[i] for i in ib], [vs[i] for i in ib]])}
        return {"a": (3, [xs[:half], ys[:half], vs[:half]]), "b": (3, [xs[half:], ys[half:], vs[half:]])}
    if prog == "flow":
        # layered graph: `layers` layers of nk nodes; node k of layer i+1 has per_key predecessors in layer i
        layers = case["layers"]
        srck = list(range(nk))
        srcv = _rand_words(rng, nk, 1000)
        fr, to, w = [], [], []
        for i in range(layers - 1):
            preds = _rand_words(rng, n, nk)
            fr += [i * nk + p for p in preds]
            to += [(i + 1) * nk + k for k in keys]
            w += _rand_words(rng, n, 50)
        if case.get("back_edges"):
            # a few edges back to the first layer: improvements arrive for keys that are already in total
            m = case["back_edges"]
            fr += [(layers - 1) * nk + p for p in _rand_words(rng, m, nk)]
            to += _rand_words(rng, m, nk)
            w += _rand_words(rng, m, 5)
        return {"src": (2, [srck, srcv]), "next": (3, [fr, to, w])}
    if prog == "part":
        return {"e": (3, [keys, _rand_words(rng, n, 200), _rand_words(rng, n, 200)])}
    if prog == "plain":
        width = case["width"]
        xs = [k // width for k in keys]
        ys = [k % width for k in keys]
        zs = _rand_words(rng, n, 1 << 20)
        nf = case["f_rows"]
        fy = _rand_words(rng, nf, width + 5)
        fz = _rand_words(rng, nf, 7)
        # e and f are relations: no duplicate rows in the input (duplicates in an input relation are outside every quantifier)
        e = list(dict.fromkeys(zip(xs, ys, zs)))
        f = list(dict.fromkeys(zip(fy, fz)))
        return {"e": (3, [[t[0] for t in e], [t[1] for t in e], [t[2] for t in e]]), "f": (2, [[t[0] for t in f], [t[1] for t in f]])}
    raise ValueError(prog)


def _interleave(arity, cols):
    n = len(cols[0])
    a = array.array("I", bytes(4 * n * arity))
    for i, c in enumerate(cols):
        a[i::arity] = array.array("I", c)
    return a


def encode_input(inp):
    out = bytearray()
    for name in sorted(inp):
        arity, cols = inp[name]
        out += array.array("I", [len(name)]).tobytes() + name.encode() + array.array("I", [arity, len(cols[0])]).tobytes()
        out += _interleave(arity, cols).tobytes()
    return bytes(out)


def decode_output(blob):
    """{relation: (arity, [row tuples in storage order])}"""
    rels = {}
    i = 0
    while i < len(blob):
        nl = int.from_bytes(blob[i:i + 4], "little")
        name = blob[i + 4:i + 4 + nl].decode()
        i += 4 + nl
        arity = int.from_bytes(blob[i:i + 4], "little")
        n = int.from_bytes(blob[i + 4:i + 8], "little")
        i += 8
        a = array.array("I")
        a.frombytes(blob[i:i + 4 * n * arity])
        i += 4 * n * arity
        rels[name] = (arity, list(zip(*[a[c::arity] for c in range(arity)])) if n else [])
    return rels


# ------------------------------------------------------------------ the specification (python, from the explicit input rows)

def spec(prog, inp):
    """{relation: dict key tuple -> value tuple (lattice relation: the least upper bound of everything derivable for the key)
                  | set of tuples (plain relation)}"""
    rows = {name: list(zip(*cols)) if cols and cols[0] else [] for name, (_, cols) in inp.items()}
    if prog == "best":
        best = {}
        for k, v in rows["inp"]:
            if best.get(k, -1) < v:
                best[k] = v
        return {"best": {(k,): (v,) for k, v in best.items()}}
    if prog == "two":
        l = {}
        for x, y, v in rows["a"] + rows["b"]:
            if l.get((x, y), 1 << 40) > v:      # Dual: the join is the minimum
                l[(x, y)] = v
        return {"l": {k: (v,) for k, v in l.items()}, "low": {k for k, v in l.items() if v < 500}}
    if prog == "flow":
        # least fixed point of d(k) = min(src(k), min over next(k', k, w) of d(k') + w): worklist iteration to stability
        adj = {}
        for k, j, w in rows["next"]:
            adj.setdefault(k, []).append((j, w))
        d = {}
        for k, v in rows["src"]:
            if d.get(k, 1 << 40) > v:
                d[k] = v
        work = list(d)
        guard = 0
        while work:
            nxt = set()
            for k in work:
                dk = d[k]
                for j, w in adj.get(k, ()):
                    if d.get(j, 1 << 40) > dk + w:
                        d[j] = dk + w
                        nxt.add(j)
            work = list(nxt)
            guard += 1
            if guard > 10000:
                raise lib.Infra("par_contention: the cheapest-path oracle does not converge")
        return {"d": {(k,): (v,) for k, v in d.items()}, "seen": {(k,) for k in d}}
    if prog == "part":
        s, pa, pb = {}, {}, {}
        for k, a, b in rows["e"]:
            s[k] = s.get(k, 0) | (1 << (a % 32))
            if pa.get(k, -1) < a:
                pa[k] = a
            if pb.get(k, 1 << 40) > b:
                pb[k] = b
        return {"s": {(k,): (m,) for k, m in s.items()}, "pr": {(k,): (pa[k], pb[k]) for k in pa},
                "big": {(k,) for k, m in s.items() if bin(m).count("1") >= 3}}
    if prog == "plain":
        r = {(x, y) for x, y, _ in rows["e"]}
        q = {(y,) for _, y, _ in rows["e"]} | {(y,) for y, _ in rows["f"]}
        fz = {}
        for y, z in rows["f"]:
            fz.setdefault(y, set()).add(z)
        j = {(x, z) for x, y in r for z in fz.get(y, ())}
        return {"r": r, "q": q, "j": j}
    raise ValueError(prog)


def input_rows_of_key(prog, inp, rel, key):
    """the input rows that mention the key of a lattice relation (the part of the input a witness is about), at most 24"""
    out = {}
    for name, (arity, cols) in inp.items():
        if prog == "flow":
            if name == "src":
                sel = [t for t in zip(*cols) if t[0] == key[0]]
            else:
                sel = [t for t in zip(*cols) if t[1] == key[0]]
        else:
            ka = len(key)
            sel = [t for t in zip(*cols) if t[:ka] == key]
        if sel:
            out[name] = [list(t) for t in sel[:24]]
    return out


def compare(prog, inp, expected, got):
    """None, or (one line, witness dict) when the relations after run() are not the specification"""
    for rel, arity, ka in OUTPUTS[prog]:
        if rel not in got:
            return "relation %s is missing from the output of the run" % rel, {}
        rows = got[rel][1]
        exp = expected[rel]
        if ka is None:
            st = set(rows)
            if len(rows) != len(st) or st != exp:
                seen, dups = set(), []
                for t in rows:
                    if t in seen and len(dups) < 4:
                        dups.append(t)
                    seen.add(t)
                miss = sorted(exp - st)[:4]
                extra = sorted(st - exp)[:4]
                return ("relation %s: %d rows, %d distinct, specification has %d tuples; rows held twice %s; derivable but absent %s; present but not derivable %s"
                        % (rel, len(rows), len(st), len(exp), dups, miss, extra)), dict(relation=rel, rows=len(rows), distinct=len(st), expected=len(exp),
                                                                                       duplicated=[list(t) for t in dups], missing=[list(t) for t in miss], extra=[list(t) for t in extra])
            continue
        by = {}
        for t in rows:
            by.setdefault(t[:ka], []).append(t[ka:])
        bad = [k for k, vs in by.items() if len(vs) != 1 or exp.get(k) != vs[0]]
        bad += [k for k in exp if k not in by]
        if bad:
            bad.sort()
            wit = []
            for k in bad[:3]:
                wit.append(dict(key=list(k), input_rows=input_rows_of_key(prog, inp, rel, k), least_upper_bound=list(exp[k]) if k in exp else None,
                                rows_found=[list(v) for v in by.get(k, [])]))
            nmulti = sum(1 for k, vs in by.items() if len(vs) > 1)
            return ("lattice %s: %d rows for %d keys (%d keys hold several rows), %d of %d keys are not 'one row holding the least upper bound'; e.g. key %s: least upper bound %s, rows found %s"
                    % (rel, len(rows), len(by), nmulti, len(bad), len(exp), wit[0]["key"], wit[0]["least_upper_bound"], wit[0]["rows_found"])), dict(relation=rel, bad_keys=len(bad), keys=len(exp), witnesses=wit)
    return None


# ------------------------------------------------------------------ cases

def gen_cases(tier, seed):
    """per program one BIG case (rounds without perturbation: the perturbation hook serialises the workers on its global event counter and
    sleeps, a perturbed round of a big case costs 10-30 x a plain one and contends less) and one SMALL case (a tenth of the keys) that also
    runs under a seeded perturbation schedule (yields / short sleeps at the instrumented points of the parallel head update)"""
    rng = lib.rng_for(seed, "contention", "cases")
    quick = tier == "quick"
    cases = []

    def add(prog, small, **kw):
        c = dict(family=FAMILY, program=prog, program_text=PROGRAMS[prog], gen_seed=rng.randrange(1, 2 ** 31), layout=rng.choice(LAYOUTS),
                 threads=rng.choice([4, 8, 8, 16, 16]))
        c.update(kw)
        if small:
            c["keys"] = max(1000, c["keys"] // 10)
            c["rounds"] = 2 if quick else 4
            c["perturbed_rounds"] = 1 if quick else 3
            c["perturbation_seed"] = rng.randrange(1, 2 ** 31)
        else:
            c["rounds"] = 6 if quick else 12
            c["perturbed_rounds"] = 0
            c["perturbation_seed"] = 0
        c["id"] = "cont_%s_%d%s" % (prog, len(cases), "s" if small else "")
        cases.append(c)

    reps = 1 if quick else 3
    for _ in range(reps):
        for small in (False, True):
            add("best", small, keys=rng.choice([60000, 80000, 100000]), per_key=rng.choice([6, 8, 12, 16]))
            add("two", small, keys=rng.choice([40000, 60000]), per_key=rng.choice([4, 6, 8]), width=rng.choice([200, 256, 300]))
            add("flow", small, keys=rng.choice([8000, 12000, 16000]), per_key=rng.choice([3, 4, 5]), layers=rng.choice([3, 4, 5]), back_edges=rng.choice([0, 500]))
            add("part", small, keys=rng.choice([30000, 50000]), per_key=rng.choice([5, 6, 8]))
            add("plain", small, keys=rng.choice([50000, 80000]), per_key=rng.choice([3, 4, 6]), width=rng.choice([250, 400]), f_rows=rng.choice([300, 600]))
    return cases


# ------------------------------------------------------------------ running

def _binary():
    b, log = lib.harness_build("par_contention")
    if b is None:
        raise lib.Infra("harness/par_contention does not build:\n" + log[-3000:])
    return b


def _work(args):
    """one case, in a worker process: input + oracle, the real runs (at most `parallel` cases run at a time), comparison"""
    c, d, binary, slot, timeout, ncases = args
    t0 = time.time()
    inp = make_input(c)
    blob = encode_input(inp)
    digest = hashlib.sha1(blob).hexdigest()[:16]
    path = os.path.join(d, c["id"] + ".in")
    with open(path, "wb") as fh:
        fh.write(blob)
    nrows = sum(len(cols[0]) for _, cols in inp.values())
    expected = spec(c["program"], inp)
    t1 = time.time()
    # rounds without perturbation, then (small cases) rounds under a seeded perturbation schedule
    pre = os.path.join(d, c["id"] + ".out")
    plan = []
    if c["rounds"] > 0:
        plan.append((0, c["rounds"], pre + ".plain"))
    if c.get("perturbed_rounds") and c.get("perturbation_seed"):
        plan.append((c["perturbation_seed"], c["perturbed_rounds"], pre + ".pert"))
    lines = ["%s %d %d %d %s %s" % (c["program"], c["threads"], sd, n, path, f) for sd, n, f in plan]
    # barrier: the real runs start when every input and oracle is ready (python working next to a run takes its cores away)
    open(os.path.join(d, c["id"] + ".ready"), "w").close()
    while time.time() - t0 < 120 and sum(1 for f in os.listdir(d) if f.endswith(".ready")) < ncases:
        time.sleep(0.02)
    with lib.Lock("par_contention_slot_%d" % slot):
        t2 = time.time()
        try:
            p = subprocess.run([binary], input="\n".join(lines) + "\n", stdout=subprocess.PIPE, stderr=subprocess.PIPE, text=True, timeout=timeout)
            out, rc = p.stdout.splitlines(), p.returncode
        except subprocess.TimeoutExpired as e:
            so = e.stdout or ""
            out, rc = (so.decode() if isinstance(so, bytes) else so).splitlines(), "timeout"
        t3 = time.time()
    rounds = []
    for i, (sd, n, f) in enumerate(plan):
        o = out[i] if i < len(out) else None
        for r in range(n):
            fn = "%s.%d" % (f, r)
            st = o if o else ("hang / timeout after %d s" % timeout if rc == "timeout" else "crash rc=%s" % rc)
            rec = dict(round=len(rounds), perturbation_seed=(sd + r) if sd else 0, status=st, bad=None, completed=False)
            if o and o.startswith("ok") and os.path.exists(fn):
                rec["completed"] = True
                rec["bad"] = compare(c["program"], inp, expected, decode_output(open(fn, "rb").read()))
                os.remove(fn)
            rounds.append(rec)
    os.remove(path)
    return dict(digest=digest, nrows=nrows, rounds=rounds, oracle_s=t1 - t0, run_s=t3 - t2, check_s=time.time() - t3)


def _check_cases(cases, tag, timeout=240, parallel=1):
    binary = _binary()
    d = os.path.join(lib.BUILD, "cases", "%s_%s_%d" % (FAMILY, tag, os.getpid()))
    if os.path.exists(d):
        shutil.rmtree(d)
    os.makedirs(d)
    mism, evals, distinct, done = [], 0, set(), []
    dist = dict(cases=len(cases), by_program={}, by_pool_size={}, by_layout={}, sizes={}, rows_derived=0, rounds=0, rounds_perturbed=0, run_seconds=0.0, oracle_seconds=0.0, failing_rounds=0)
    try:
        # python (the slow half) in one process per case; the real runs one at a time (measured on a seeded spurious-miss lookup: with
        # several pools at once the workers of one run are rarely on a core at the same time and far fewer keys are hit)
        for i in range(0, len(cases), lib.NCPU):
            chunk = cases[i:i + lib.NCPU]
            for f in os.listdir(d):
                os.remove(os.path.join(d, f))
            with cf.ProcessPoolExecutor(len(chunk)) as ex:
                done += list(ex.map(_work, [(c, d, binary, k % parallel, timeout, len(chunk)) for k, c in enumerate(chunk)]))
    finally:
        shutil.rmtree(d, ignore_errors=True)
    for c, w in zip(cases, done):
        n = len(w["rounds"])
        dist["by_program"][c["program"]] = dist["by_program"].get(c["program"], 0) + n
        dist["by_pool_size"][c["threads"]] = dist["by_pool_size"].get(c["threads"], 0) + n
        dist["by_layout"][c["layout"]] = dist["by_layout"].get(c["layout"], 0) + n
        dist["sizes"][c["id"]] = dict(keys=c["keys"], derivations_per_key=c["per_key"], input_rows=w["nrows"], pool=c["threads"], layout=c["layout"], run_s=round(w["run_s"], 2))
        dist["run_seconds"] = round(dist["run_seconds"] + w["run_s"], 2)
        dist["oracle_seconds"] = round(dist["oracle_seconds"] + w["oracle_s"] + w["check_s"], 2)
        reported = False
        for r in w["rounds"]:
            cs = {k: v for k, v in c.items() if k not in ("rounds", "perturbed_rounds")}
            cs.update(perturbation_seed=r["perturbation_seed"], round=r["round"], input_sha1=w["digest"], input_rows=w["nrows"],
                      input="generated by gen.par_contention.make_input(case) (deterministic); the input rows about the failing keys are in `witness`",
                      note="a concurrent schedule is not reproducible: the replay repeats the run for 8 (+ 4 perturbed) rounds")
            if not r["completed"]:
                dist["failing_rounds"] += 1
                if not reported:
                    reported = True
                    mism.append(dict(case=cs, impl=r["status"], model=None, spec="run() returns", kind="impl_violates_spec", known=None,
                                     what="contention run of `%s` (pool of %d): did not complete: %s" % (c["program"], c["threads"], r["status"][:200])))
                continue
            evals += 1
            dist["rounds"] += 1
            dist["rounds_perturbed"] += 1 if r["perturbation_seed"] else 0
            dist["rows_derived"] += w["nrows"]
            distinct.add((c["id"], r["round"]))
            if r["bad"]:
                dist["failing_rounds"] += 1
                if reported:
                    continue    # one mismatch per case is enough for the report (the rounds of a case fail alike)
                reported = True
                cs["witness"] = r["bad"][1]
                mism.append(dict(case=cs, impl=r["bad"][1], model=None, spec="one row per key holding the least upper bound of the values derivable for it; one row per derivable tuple",
                                 kind="impl_violates_spec", known=None,
                                 what="ascent_par! under contention (`%s`, %d keys x %d derivations, layout %s, pool of %d, round %d%s): %s"
                                      % (c["program"], c["keys"], c["per_key"], c["layout"], c["threads"], r["round"], ", perturbed" if r["perturbation_seed"] else "", r["bad"][0])))
    return dict(mismatches=mism, evaluations=evals, distinct=len(distinct), distribution=dist)


def run(tier, seed, tag="c03", extra_cases=()):
    """the family for a check: `tag` keeps the scratch files of two properties apart; extra_cases = corpus entries
    (generator parameters as in gen_cases; rounds / perturbed_rounds / program_text are filled in)"""
    extra = []
    for c in extra_cases:
        c = dict(c)
        c.setdefault("family", FAMILY)
        c.setdefault("program_text", PROGRAMS[c["program"]])
        c.setdefault("rounds", 3 if tier == "quick" else 8)
        c.setdefault("perturbation_seed", 0)
        c.setdefault("perturbed_rounds", 0)
        extra.append(c)
    return _check_cases(extra + gen_cases(tier, seed), tag)


def replay(case, tag="replay"):
    """re-run the case of a mismatch: the same generated input, the same pool, 8 rounds (+ 4 perturbed ones when the failing round was perturbed)"""
    c = {k: v for k, v in case.items() if k not in ("witness", "input", "note", "input_sha1", "input_rows", "round")}
    c["rounds"] = 8
    c["perturbation_seed"] = case.get("perturbation_seed") or 0
    c["perturbed_rounds"] = 4 if c["perturbation_seed"] else 0
    c.setdefault("id", "replay")
    out = _check_cases([c], tag)
    if case.get("input_sha1"):
        blob = encode_input(make_input(c))
        if hashlib.sha1(blob).hexdigest()[:16] != case["input_sha1"]:
            raise lib.Infra("par_contention replay: the regenerated input differs from the recorded one (generator changed)")
    return out
