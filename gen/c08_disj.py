"""C08 — designed family: one spelling in BINDING positions with TWO origins inside the expansion of one invocation.

The renaming pass (body_items_rename_macro_originated_vars) collects the bound variables of the expanded items
(body_item_get_bound_vars: a flat list, one entry per OCCURRENCE, a disjunction contributing the occurrences of all its
disjuncts) and decides per occurrence, from its span, whether it was written in the macro body.  When the call site passes
an identifier spelled like a macro local for a parameter that stands in a binding position, that list holds the same
spelling with both origins; any treatment of the list by spelling alone (dedup, set, "first wins") loses one origin.

Every macro of the family has a local that is bound (mostly) ONLY inside a disjunction of the body, with a parameter in a
binding position of the same disjunction before / after it / in another disjunct; the binder of the local varies (clause
argument, let, if let, for, attached if let, the argument of a nested invocation).  Controls: no disjunction, local bound
in every disjunct and used after the disjunction.  Rule shapes: the actual spelled like the local (alone, bound before,
second of two invocations, inside a disjunction of the rule, used again after the invocation), a call-site variable of
that spelling that is not passed, and the control with another spelling.  Each program has a designed input (a chain) and
`leak` = the (macro, spelling) pairs whose capture the input must notice (the tie runs the leaking hand expansion too)."""
import copy

from . import c08_gen as G

par, lid, cid, tv = G.par, G.lid, G.cid, G.tv

KINDS = ["param_then_local", "local_then_param", "param_in_earlier_disjunct", "local_bound_by_let", "local_bound_by_for",
         "local_bound_by_if_let", "local_bound_by_attached_if_let", "nested_disjunction", "local_bound_through_nested_invocation",
         "disjunction_in_inner_macro", "enclosing_macro_passes_its_local", "no_disjunction", "local_in_every_disjunct_used_after",
         "two_parameters_local_between", "three_disjuncts", "parameter_twice_before_local", "local_used_in_expression_and_negation"]
SHAPES = ["actual_spelled_like_local", "actual_spelled_like_local_bound_before", "second_of_two_invocations_spelled_like_local",
          "inside_rule_disjunction", "actual_spelled_like_local_used_after", "call_site_variable_of_that_spelling_before",
          "call_site_variable_of_that_spelling_after", "other_spelling"]
CONTROL_SHAPES = {"other_spelling"}          # nothing at the call site is spelled like the local: no capture possible


def gen_disj_pattern(rng, kind, shape):
    A, Ao = rng.choice([("e0", "e1"), ("e1", "e0")])          # A: the chain; Ao: the alternative / shortcuts
    B, K = rng.choice([("u0", "u1"), ("u1", "u0")])           # B: filter on the local; K: every value
    v = rng.choice(G.POOL)                                    # the spelling of the local
    a, c = rng.sample([n for n in G.POOL if n != v], 2)
    P0, P1 = par(0), par(1)
    extra = rng.random() < 0.3
    macros = []

    def add(body, params=((0, True),)):
        macros.append(dict(name=len(macros), params=[list(x) for x in params], body=body))
        return len(macros) - 1

    def flt(L):
        return ["clause", B, [tv(L)], []]

    def bnd(x, y):
        """one step of the chain, binding the local next to the parameter; sometimes with an attached condition on both
        (never the LAST item of a disjunct: `.. if c | next` would parse `|` as an operator)"""
        return ["clause", A, [tv(x), tv(y)], [["if", "ne", [x, y]]] if extra else []]

    def alt(x=P0):
        return ["clause", Ao, [tv(x), tv(x)], []]
    nparams = 1
    if kind == "param_then_local":
        L = lid(v, 0)
        top = add([["disj", [[bnd(P0, L), flt(L)], [alt()]]]])
    elif kind == "local_then_param":
        L = lid(v, 0)
        top = add([["disj", [[bnd(L, P0), flt(L)], [alt()]]]])
    elif kind == "param_in_earlier_disjunct":
        L = lid(v, 0)
        top = add([["disj", [[alt()], [bnd(P0, L), flt(L)]]]])
    elif kind == "local_bound_by_let":
        L = lid(v, 0)
        top = add([["disj", [[["clause", K, [tv(P0)], []], ["cond", ["let", L, "incs", [P0]]], flt(L)], [alt()]]]])
    elif kind == "local_bound_by_for":
        L = lid(v, 0)
        top = add([["disj", [[["clause", K, [tv(P0)], []], ["gen", L, "upto", [P0]], ["clause", A, [tv(L), tv(P0)], []]], [alt()]]]])
    elif kind == "local_bound_by_if_let":
        L = lid(v, 0)
        top = add([["disj", [[["clause", K, [tv(P0)], []], ["cond", ["iflet", L, "half", [P0]]], flt(L)], [alt()]]]])
    elif kind == "local_bound_by_attached_if_let":
        L = lid(v, 0)
        top = add([["disj", [[["clause", K, [tv(P0)], [["iflet", L, "half", [P0]]]], flt(L)], [alt()]]]])
    elif kind == "nested_disjunction":
        L = lid(v, 0)
        top = add([["disj", [[["disj", [[bnd(P0, L), flt(L)], [alt()]]]], [alt()]]]])
    elif kind == "local_bound_through_nested_invocation":
        hop = add([["clause", A, [tv(P0), tv(P1)], []]], params=((0, True), (1, True)))
        L = lid(v, 1)
        top = add([["disj", [[["inv", hop, [tv(P0), tv(L)]], flt(L)], [alt()]]]])
    elif kind == "disjunction_in_inner_macro":
        L = lid(v, 0)
        inner = add([["disj", [[bnd(P0, L), flt(L)], [alt()]]]])
        top = add([["inv", inner, [tv(P0)]]])
    elif kind == "enclosing_macro_passes_its_local":
        # both macros have a local spelled v; the enclosing macro passes its own to the inner one, whose disjunction then
        # holds the spelling with the origins of the two macros
        L = lid(v, 0)
        inner = add([["disj", [[bnd(P0, L), flt(L)], [alt()]]]])
        W = lid(v, 1)
        top = add([["clause", A, [tv(P0), tv(W)], []], ["inv", inner, [tv(W)]]])
    elif kind == "no_disjunction":
        L = lid(v, 0)
        top = add([bnd(P0, L), flt(L)])
    elif kind == "local_in_every_disjunct_used_after":
        L = lid(v, 0)
        top = add([["disj", [[["clause", A, [tv(P0), tv(L)], []]], [["clause", Ao, [tv(P0), tv(L)], []]]]], flt(L)])
    elif kind == "two_parameters_local_between":
        L = lid(v, 0)
        nparams = 2
        top = add([["disj", [[["clause", A, [tv(P0), tv(L)], []], ["clause", A, [tv(L), tv(P1)], []]], [["clause", Ao, [tv(P0), tv(P1)], []]]]]],
                  params=((0, True), (1, True)))
    elif kind == "three_disjuncts":
        L = lid(v, 0)
        top = add([["disj", [[alt()], [bnd(P0, L), flt(L)], [bnd(L, P0), flt(L)]]]])
    elif kind == "parameter_twice_before_local":
        L = lid(v, 0)
        top = add([["disj", [[["clause", K, [tv(P0)], []], bnd(P0, L), flt(L)], [alt()]]]])
    elif kind == "local_used_in_expression_and_negation":
        L = lid(v, 0)
        top = add([["disj", [[["clause", A, [tv(P0), tv(L)], []], ["neg", B, [tv(L)]], ["clause", K, [["f", "incs", [L]]], []]], [alt()]]]])
    else:
        raise ValueError(kind)
    inner_leak = [[d["name"], v] for d in macros if any(x[1] == v for x in G._idents_items(d["body"]))]
    second_gets_it = nparams == 2 and rng.random() < 0.4      # the spelling goes to the parameter AFTER the local

    def inv(x):
        if nparams == 1:
            return ["inv", top, [tv(cid(x))]]
        other = c if x != c else a
        return ["inv", top, [tv(cid(other)), tv(cid(x))] if second_gets_it else [tv(cid(x)), tv(cid(other))]]
    if shape == "actual_spelled_like_local":
        heads, rb = [["h", "d1", [tv(cid(v))]]], [inv(v)]
    elif shape == "actual_spelled_like_local_bound_before":
        heads, rb = [["h", "d1", [tv(cid(v))]]], [["clause", K, [tv(cid(v))], []], inv(v)]
    elif shape == "second_of_two_invocations_spelled_like_local":
        heads, rb = [["h", "d0", [tv(cid(a)), tv(cid(v))]]], [inv(a), inv(v)]
    elif shape == "inside_rule_disjunction":
        heads, rb = [["h", "d1", [tv(cid(v))]]], [["clause", K, [tv(cid(v))], []], ["disj", [[inv(v)], [["clause", Ao, [tv(cid(v)), tv(cid(v))], []]]]]]
    elif shape == "actual_spelled_like_local_used_after":
        w = [n for n in G.POOL if n not in (v, a, c)][0]
        heads, rb = [["h", "d0", [tv(cid(v)), tv(cid(w))]]], [inv(v), ["clause", A, [tv(cid(v)), tv(cid(w))], []]]
    elif shape == "call_site_variable_of_that_spelling_before":
        heads, rb = [["h", "d0", [tv(cid(a)), tv(cid(v))]]], [["clause", B, [tv(cid(v))], []], inv(a)]
    elif shape == "call_site_variable_of_that_spelling_after":
        heads, rb = [["h", "d0", [tv(cid(a)), tv(cid(v))]]], [inv(a), ["clause", B, [tv(cid(v))], []]]
    elif shape == "other_spelling":
        heads, rb = [["h", "d1", [tv(cid(a))]]], [inv(a)]
    else:
        raise ValueError(shape)
    p = dict(rels=copy.deepcopy(G.RELS), macros=macros, rules=[dict(heads=heads, body=rb)], head_macros=[])
    # designed input: the chain 0 -> 1 -> .. -> 9 (a variable is never its own successor), the alternative holds for (5, 5)
    # and two shortcuts, B for the even values, K for every value
    designed = {A: [(k, k + 1) for k in range(9)], Ao: [(5, 5), (0, 4), (2, 6)], B: [(0,), (2,), (4,), (6,)], K: [(k,) for k in range(10)],
                "d0": [], "d1": [], "d2": []}
    if kind == "enclosing_macro_passes_its_local":
        inner_leak = [[0, v]]          # the inner macro's local is the one that a call-site / enclosing `v` may capture
    leak = None if shape in CONTROL_SHAPES else inner_leak
    return p, designed, leak


def plan(tier, rng):
    """(kind, shape) pairs of a run.  quick: every kind with the direct shape and with one more shape (rotating from a
    random offset); thorough: every pair, three draws each"""
    if tier != "quick":
        return [(k, s) for _ in range(3) for k in KINDS for s in SHAPES]
    off = rng.randrange(len(SHAPES) - 1)
    out = []
    for i, k in enumerate(KINDS):
        out.append((k, SHAPES[0]))
        out.append((k, SHAPES[1 + (off + i) % (len(SHAPES) - 1)]))
    return out


# ------------------------------------------------------------------ structural features (of ANY program of the C08 AST)

def _bound_occurrences(items, env, org):
    """binding occurrences of the items of a macro body instantiated with env, in textual order: (spelling, origin),
    origin = 'call' for an identifier that came in through a parameter, the macro for an identifier of the body;
    nested invocations contribute nothing (the feature is about the body's own items)"""
    out = []

    def var(x):
        if x[0] == "par":
            t = env.get(x[1])
            if t is not None and t[0] == "v" and t[1][0] == "id":
                out.append((t[1][1], "call"))
        else:
            out.append((x[1], org))
    for it in items:
        k = it[0]
        if k == "clause":
            for t in it[2]:
                if t[0] == "v":
                    var(t[1])
            for cnd in it[3]:
                if cnd[0] in ("let", "iflet"):
                    var(cnd[1])
        elif k == "cond" and it[1][0] in ("let", "iflet"):
            var(it[1][1])
        elif k == "gen":
            var(it[1])
        elif k == "disj":
            for alt_ in it[1]:
                out.extend(_bound_occurrences(alt_, env, org))
    return out


def mixed_origin_feats(p):
    """features of a program: in the instantiated body of some invocation written in a rule, one spelling stands in binding
    positions with two origins (the call site's, through a parameter, and the macro's) ..."""
    defs = {}
    for d in p["macros"]:
        defs[d["name"]] = d
    feats = set()
    for r in p["rules"]:
        for it in G._walk(r["body"]):
            if it[0] != "inv" or it[1] not in defs or it[1] in p.get("head_macros", []):
                continue
            d = defs[it[1]]
            if len(d["params"]) != len(it[2]):
                continue
            env = {q: t for (q, _), t in zip(d["params"], it[2])}
            whole = _bound_occurrences(d["body"], env, d["name"])
            both = {s for s, o in whole if o == "call"} & {s for s, o in whole if o != "call"}
            if not both:
                continue
            feats.add("one_spelling_bound_with_two_origins_in_an_instantiated_body")
            outside = [x for b in d["body"] if b[0] != "disj" for x in _bound_occurrences([b], env, d["name"])]
            for b in d["body"]:
                if b[0] != "disj":
                    continue
                occ = _bound_occurrences([b], env, d["name"])
                for s in both:
                    os_ = [o for s_, o in occ if s_ == s]
                    if "call" in os_ and any(o != "call" for o in os_):
                        feats.add("one_spelling_bound_with_two_origins_inside_one_disjunction")
                        if os_[0] == "call":
                            feats.add("two_origins_inside_one_disjunction:call_site_occurrence_first")
                            if not any(s_ == s and o != "call" for s_, o in outside):
                                feats.add("two_origins_inside_one_disjunction:call_site_occurrence_first_and_local_bound_only_there")
    return feats
