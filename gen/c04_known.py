"""C04 — two genuine defects of /repo recorded as known findings (known_findings.json), reproduced on every check through real compiled programs.

lattice_value_column_index_stale     an aggregate / negation over a LATTICE relation with the lattice VALUE column bound: the index on that column
                                     keeps the entry made under a value the row has since left (the head update re-inserts the row number under the
                                     new value and never removes the old entry), so `agg n = count() in d(_, v)` counts rows whose value is not v.
agg_repeated_aggregated_variable     `agg s = sum(y) in r(y, y)`: a repeated AGGREGATED variable is not an equality test between the two columns.

Specification: the stratified model (rows matching the clause: equal columns where a variable is repeated; the lattice's FINAL row per key)."""
from . import c04_lat, prog

K_STALE = "lattice_value_column_index_stale"
K_REP = "agg_repeated_aggregated_variable"

PROGRAMS = [
    dict(id="c04known_stale_max", known=K_STALE,
         text=("relation e(i32, i32);\nlattice d(i32, i32);\nrelation probe(i32);\nrelation cnt(i32, i32);\nrelation absent(i32);\n"
               "d(x, v) <-- e(x, v);\n"
               "cnt(v, n as i32) <-- probe(v), agg n = ascent::aggregators::count() in d(_, v);\n"
               "absent(v) <-- probe(v), !d(_, v);"),
         rels=[("e", 2, "rel"), ("d", 2, ("lat", "max")), ("probe", 1, "rel"), ("cnt", 2, "rel"), ("absent", 1, "rel")],
         # key 1 is raised 3 -> 5: the final lattice is {(1,5),(2,3)}
         input={"e": [(1, 3), (1, 5), (2, 3)], "probe": [(3,), (5,), (7,)]},
         expected={"cnt": [(3, 1), (5, 1), (7, 0)], "absent": [(7,)], "d": [(1, 5), (2, 3)]}),
    dict(id="c04known_repeated_agg_var", known=K_REP,
         text=("relation r(i32, i32);\nrelation s(i32);\n"
               "s(t) <-- agg t = ascent::aggregators::sum(y) in r(y, y);"),
         rels=[("r", 2, "rel"), ("s", 1, "rel")],
         input={"r": [(1, 1), (2, 3), (4, 4), (5, 6)]},
         expected={"s": [(5,)], "r": [(1, 1), (2, 3), (4, 4), (5, 6)]}),
]


def run(tag="c04known"):
    """-> dict(mismatches, evaluations): one mismatch (classified with its known key) per probe that reproduces; a probe that does NOT reproduce gives
    no mismatch (the runner then prints that the listed finding did not reproduce)"""
    jobs = [dict(id=p["id"], text=p["text"], macro="ascent", rels=p["rels"], scripts=[[("set", p["input"]), ("run",), ("snap",)]]) for p in PROGRAMS]
    res = prog.build_and_run(tag, jobs)
    mism = []
    for p in PROGRAMS:
        iv = (res.get(p["id"]) or [None])[0]
        case = dict(program=p["text"], input=p["input"], id=p["id"])
        if iv is None or "snaps" not in iv:
            mism.append(dict(case=case, impl=iv, model=None, spec=p["expected"], kind="impl_violates_spec", known=None,
                             what="known-finding probe did not run: %s" % str(iv)[:300]))
            continue
        rows = c04_lat.decode(iv["snaps"][-1])
        bad = [(name, sorted(rows[name]), exp) for name, exp in p["expected"].items() if sorted(rows[name]) != exp]
        if bad:
            name, got, exp = bad[0]
            mism.append(dict(case=case, impl={name: got}, model=None, spec={name: exp}, kind="impl_violates_spec", known=p["known"],
                             what="relation %s: got %s, the stratified model gives %s" % (name, got, exp)))
    return dict(mismatches=mism, evaluations=len(PROGRAMS))
