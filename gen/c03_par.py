"""C03 lattice programs for the parallel engine (used by C02: parallel = serial, "the same lattice value per key for
every interleaving").

    par_lattice_cases(tier, seed, rng=None) -> [case]
        case = dict(id, text (program text for gen.prog jobs, the same text serves ascent! and ascent_par!), rels, pre,
                    prog (AST of gen/c03_gen.py), inputs (list of {rel: rows} ready for a gen.prog ('set', ..) step,
                    lattice values rendered as Rust expressions), inputs_codes (the same rows with integer codes),
                    expected (per input: {rel: sorted list of tuples of codes} = least fixed point by the python Kleene
                    oracle; a lattice relation holds exactly one tuple per key), shape)
        decode a snapshot of a run with  gen.c03_gen.decode_snapshot(case['prog'], snap)  (rows in order, codes);
        load input k into an ascent_par! program with the script steps  par_set_steps(case, k)  (a plain ('set', ..) step
        does not compile for lattice relations there: they are boxcar::Vec<RwLock<row>>);
        compare_snapshot(case, k, snap) -> None | description  is the comparison with the oracle.

    run_parallel(tier, seed, pools=(1, 2, 3, 8, 16), tag='c03par') -> dict(mismatches, evaluations, distinct, distribution)
        builds the cases as ascent_par! (with and without #![inter_rule_parallelism]) with feature verif_hooks, runs every
        input in every pool under seeded perturbation schedules, and compares rows as a map key -> value, row count =
        key count, and the plain relations as sets, with the oracle.  Mismatches are in the format of gen/runner.py
        (kind='impl_violates_spec').

Besides the C03 shapes (shortest / widest path, reachability sets, constant propagation, random monotone programs over
all lattice types) there is a family aimed at PARTIAL orders: one key receives INCOMPARABLE values (Set / BoundedSet
singletons, different constants, Product components pulling in different directions) from different tuples and from
different rules, in the same iteration and across iterations, so that the result is a proper join no single derived
value equals."""
import json

from . import c03_gen as g
from . import c03_vocab as voc
from . import lib, prog

V, C, F = g.V, g.C, g.F

PARTIAL = {
    # type: (function making a value from plain columns, arity, identity function, an upward-closed test or None)
    "set": ("set_single", 1, "set_id", "set_big"),
    "bset": ("bset_single", 1, "bset_id", "bset_top"),
    "cp": ("cp_const", 1, "cp_id", "cp_top"),
    "prod": ("prod_of", 2, "prod_id", "prod_a_ge1"),
}


def incomparable_program(rng):
    """a(k, ..) and b(k, ..) both feed lattice l(k, L); values flow along next(k, k'); a second lattice m collects
    the join over all keys; a plain relation tests the result"""
    ty = rng.choice(sorted(PARTIAL))
    mk, ar, ident, test = PARTIAL[ty]
    rels = [("a", 1 + ar, "rel"), ("b", 1 + ar, "rel"), ("next", 2, "rel"), ("l", 2, ("lat", ty))]
    xs = ["x%d" % i for i in range(ar)]
    rules = [dict(heads=[("l", [V("k"), F(mk, *xs)])], body=[("clause", "a", [V("k")] + [V(x) for x in xs], [])]),
             dict(heads=[("l", [V("k"), F(mk, *xs)])], body=[("clause", "b", [V("k")] + [V(x) for x in xs], [])])]
    form = rng.choice(["flow", "flow", "both", "merge"])
    if form in ("flow", "both"):
        rules.append(dict(heads=[("l", [V("j"), F(ident, "v")])], body=[("clause", "next", [V("k"), V("j")], []), ("clause", "l", [V("k"), V("v")], [])]))
    if form in ("merge", "both"):
        rels.append(("m", 1, ("lat", ty)))
        rules.append(dict(heads=[("m", [F(ident, "v")])], body=[("clause", "l", [V("k"), V("v")], [])]))
    if ty in ("set", "cp") and rng.random() < 0.5:
        # a binary monotone operation on two lattice values of different keys
        op = "set_union" if ty == "set" else "cp_add"
        rules.append(dict(heads=[("l", [V("j"), F(op, "v", "w")])],
                          body=[("clause", "next", [V("k"), V("j")], []), ("clause", "l", [V("k"), V("v")], []), ("clause", "l", [V("j"), V("w")], [])]))
    if rng.random() < 0.7:
        rels.append(("hit", 1, "rel"))
        rules.append(dict(heads=[("hit", [V("k")])], body=[("clause", "l", [V("k"), V("v")], [("if", test, ["v"])])]))
    rng.shuffle(rules)
    return dict(rels=rels, rules=rules, shape="incomparable_" + ty + "_" + form)


def incomparable_input(rng, p):
    lats = g.lat_of(p)
    ty = lats["l"]
    ar = PARTIAL[ty][1]
    nk = rng.choice([2, 3, 4])
    inp = {"a": [], "b": [], "next": [], "l": []}

    def val():
        if ty == "prod":
            return (rng.choice([0, 1, 2, 3]), rng.choice([0, 1, 2, 5]))
        if ty == "cp":
            return (rng.choice([0, 1, 2, 3]),)
        return (rng.choice([0, 1, 2, 3, 4, 5]),)
    for k in range(nk):
        # several different values for one key in each of the two source relations
        for rel in ("a", "b"):
            for _ in range(rng.choice([0, 1, 2, 3])):
                inp[rel].append((k,) + val())
    style = rng.choice(["chain", "cycle", "sparse"])
    if style in ("chain", "cycle"):
        inp["next"] = [(k, k + 1) for k in range(nk - 1)] + ([(nk - 1, 0)] if style == "cycle" else [])
    else:
        inp["next"] = [(rng.randrange(nk), rng.randrange(nk)) for _ in range(rng.choice([1, 2]))]
    if rng.random() < 0.3:
        inp["l"] = [(rng.randrange(nk), g.const_code(rng, ty))]
    out = {}
    for name, arity, _ in p["rels"]:
        seen, rows = set(), []
        for t in inp.get(name, []):
            if t not in seen:
                seen.add(t)
                rows.append(t)
        out[name] = rows
    return out


def par_lattice_cases(tier, seed, rng=None):
    rng = rng or lib.rng_for(seed, "C03", "par")
    n = 14 if tier == "quick" else 120
    ninp = 2 if tier == "quick" else 3
    cases = []
    for i in range(n):
        u = i % 4
        if u in (0, 1):
            p = incomparable_program(rng)
            inputs = [incomparable_input(rng, p) for _ in range(ninp)]
        elif u == 2:
            p = g.gen_program(rng, ["set", "bset", "cp", "prod", "pair", "dual"])
            inputs = [g.gen_input(rng, p)[0] for _ in range(ninp)]
        else:
            p = g.gen_program(rng)
            inputs = [g.gen_input(rng, p)[0] for _ in range(ninp)]
        orc = g.Oracle(p)
        expected, keep = [], []
        for inp in inputs:
            st = orc.run(inp)
            if st is None:
                continue
            keep.append(inp)
            expected.append(g.canon_state(p, st))
        if not keep:
            continue
        cases.append(dict(id="c03par_%d" % i, text=g.rust_program_text(p), rels=p["rels"], pre="", prog=p,
                          inputs=[g.rust_input(p, inp) for inp in keep], inputs_codes=keep, expected=expected, shape=p.get("shape")))
    return cases


def par_set_steps(case, k):
    """script steps loading input k into an ascent_par! program: a lattice relation is a boxcar::Vec<RwLock<row>> there"""
    lats = g.lat_of(case["prog"])
    inp = case["inputs"][k]
    steps = [("set", {r: rows for r, rows in inp.items() if r not in lats})]
    for r, rows in inp.items():
        if r in lats:
            steps.append(("raw", "p.%s = vec![%s].into_iter().map(::std::sync::RwLock::new).collect();" % (r, ", ".join(prog.rust_tuple(t) for t in rows))))
    return steps


def compare_snapshot(case, k, snap):
    """None when the snapshot of input k is the least fixed point, else a one-line description"""
    p = case["prog"]
    lats = g.lat_of(p)
    rows = g.decode_snapshot(p, snap)
    exp = case["expected"][k]
    for name, _, _ in p["rels"]:
        got = rows[name]
        if name in lats:
            keys = [t[:-1] for t in got]
            if len(keys) != len(set(keys)):
                return "lattice %s holds %d rows for %d keys: %s" % (name, len(got), len(set(keys)), sorted(got)[:8])
            gm = {t[:-1]: t[-1] for t in got}
            em = {t[:-1]: t[-1] for t in exp[name]}
            if gm != em:
                diff = [(kk, gm.get(kk), em.get(kk)) for kk in sorted(set(gm) | set(em)) if gm.get(kk) != em.get(kk)]
                return "lattice %s (%s): (key, value in the result, least fixed point) differ at %s" % (name, lats[name], diff[:5])
        else:
            if sorted(set(got)) != exp[name] or len(got) != len(set(got)):
                return "relation %s: %d rows; missing %s; extra %s" % (name, len(got), [t for t in exp[name] if t not in got][:4], [t for t in got if t not in exp[name]][:4])
    return None


def run_parallel(tier, seed, pools=(1, 2, 3, 8, 16), tag="c03par", cases=None):
    rng = lib.rng_for(seed, "C03", "par_sched")
    cases = cases if cases is not None else par_lattice_cases(tier, seed)
    nsched = 2 if tier == "quick" else 4
    jobs, meta = [], {}
    for c in cases:
        for irp in (False, True):
            for pool in pools:
                jid = "%s_%s_t%d" % (c["id"], "irp" if irp else "seq", pool)
                seeds = [0] + [rng.randrange(1, 2 ** 31) for _ in range(nsched - 1)]
                scripts = []
                for sd in seeds:
                    for ii in range(len(c["inputs"])):
                        scripts.append([("raw", "ascent::verif_hooks::arm_perturb(%d);" % sd)] + par_set_steps(c, ii) + [("run",), ("snap",),
                                        ("raw", "ascent::verif_hooks::arm_perturb(0);")])
                jobs.append(dict(id=jid, text=c["text"], attrs=["#![inter_rule_parallelism]"] if irp else [], macro="ascent_par", rels=c["rels"],
                                 pre=c.get("pre", ""), scripts=scripts, threads=pool))
                meta[jid] = (c, irp, pool, seeds)
    impl = prog.build_and_run(tag, jobs, features=("verif_hooks",), run_timeout=300) if jobs else {}
    mism, distinct, by_pool, shapes, types = [], set(), {}, {}, {}
    for c in cases:
        shapes[c["shape"]] = shapes.get(c["shape"], 0) + 1
        for ty in g.lat_of(c["prog"]).values():
            types[ty] = types.get(ty, 0) + 1
    for jid, (c, irp, pool, seeds) in meta.items():
        res = impl.get(jid)
        k = 0
        for sd in seeds:
            for ii in range(len(c["inputs"])):
                iv = res[k] if res else None
                k += 1
                cs = dict(program=c["text"], input=c["inputs_codes"][ii], pool_threads=pool, inter_rule_parallelism=irp, perturbation_seed=sd, id=c["id"])
                if iv is None or "snaps" not in iv:
                    mism.append(dict(case=cs, impl=iv, model=None, spec=c["expected"][ii], kind="impl_violates_spec", known=None,
                                     what="parallel lattice run did not complete (compile error / panic / deadlock-timeout): %s" % json.dumps(iv)[:300]))
                    continue
                distinct.add((jid, sd, ii))
                by_pool[pool] = by_pool.get(pool, 0) + 1
                bad = compare_snapshot(c, ii, iv["snaps"][-1])
                if bad:
                    mism.append(dict(case=cs, impl={n: sorted(v) for n, v in g.decode_snapshot(c["prog"], iv["snaps"][-1]).items()}, model=None,
                                     spec=c["expected"][ii], kind="impl_violates_spec", known=None,
                                     what="ascent_par! (pool of %d, %s, perturbation seed %d): %s" % (pool, "inter-rule parallelism" if irp else "rules in sequence", sd, bad)))
    return dict(mismatches=mism, evaluations=len(distinct), distinct=len(distinct),
                distribution=dict(programs=len(cases), shapes=shapes, lattice_types=types, runs_by_pool_size=by_pool, schedules_per_configuration=nsched,
                                  pools=list(pools)))
