"""C08 — NESTED expression arguments of macro invocations (coq/Macros/MacroArgs.v).

An `expr` actual is a Rust expression; as a token stream (`invocation.mac.tokens`) its identifiers are either tokens of the
sequence itself (TOP LEVEL: `t.clone().min(6) + 1`, the receiver of a method chain, the operands of a binary operator / cast)
or sit inside a delimiter GROUP `( .. )`, `f( .. )`, `x.f( .. )`, `[ .. ]`, `{ .. }`, `( .. , 0)` at some depth.  The terms
of the model (`['f', fname, [var..]]`) were always rendered with the templates of gen/dl.py, one application deep; here

  * a term `['x', shape, [var..]]` is a nested expression over the fixed vocabulary: `shape` = ['h', k] (the k-th leaf) |
    ['k', int] | ['a', form, [shape..]] where a FORM is one Rust rendering of a vocabulary function and says which
    operands stand at the level of the operator ('T') and which inside a delimiter group ('G') — FORMS below; every
    function has forms of either kind, all with the meaning of Engine/Vocab.v std_fint on the values used here (>= 0);
  * render_shape / q_shape give the Rust text and the MacroArgs.ashape (SGrp = one group); the depth of every leaf is
    computed from the structure AND read off the rendered text by a tokenizer (they must agree: _check);
  * the designed family gen_arg_pattern: a macro with a local `v`, invoked with an argument in which the call-site
    variable spelled `v` stands ONLY inside a group (every delimiter, depth 1-3) / only at top level / both / inside a
    group here and at top level in another argument / bare / not at all; ident AND expr parameters; locals bound by a
    clause, let, for, if let, inside a disjunction, through a nested invocation; nested invocations passing the argument on
    (one and two levels), an enclosing macro passing its own local / its ident parameter inside a group; x 4 rule shapes;
    a designed chain input, and `capture` = the (macro, spelling) whose capture of the argument's identifiers the input must
    notice (the tie runs that deliberately unhygienic hand expansion too);
  * rand_xterm: nested expressions for the random generators of gen/c08_gen.py;
  * arg_scan_feats: for ANY program of the C08 AST, where the identifiers of the actuals of every invocation (at any
    nesting depth, parameters substituted) that are spelled like an identifier of the invoked macro's body stand."""
import copy
import re

from . import c08_gen as G
from . import dl

par, lid, cid, tv = G.par, G.lid, G.cid, G.tv

# form: (vocabulary function, Rust template, slots, kind of the result, delimiter of the 'G' slots)
#   slot 'T': the operand stands at the level of the operator (wrapped in parentheses — a group — only if it is not a
#             postfix expression);  slot 'G': the template puts the operand inside a delimiter group
#   kind 'post': the rendering is a primary / postfix expression;  'bin': it has an operator / cast / block at its top
FORMS = {
    "incs_paren": ("incs", "($0 + 1).min(7)", "G", "post", "paren"),
    "incs_call": ("incs", "std::cmp::min($0 + 1, 7)", "G", "post", "call"),
    "incs_top": ("incs", "$0.min(6) + 1", "T", "bin", None),
    "decs_paren": ("decs", "($0 - 1).max(0)", "G", "post", "paren"),
    "decs_call": ("decs", "std::cmp::max($0 - 1, 0)", "G", "post", "call"),
    "decs_top": ("decs", "$0.max(1) - 1", "T", "bin", None),
    "mod3_paren": ("mod3", "($0).rem_euclid(3)", "G", "post", "paren"),
    "mod3_ufcs": ("mod3", "i32::rem_euclid($0, 3)", "G", "post", "call"),
    "mod3_top": ("mod3", "$0.rem_euclid(3)", "T", "post", None),
    "addm_paren": ("addm", "($0 + $1).rem_euclid(7)", "GG", "post", "paren"),
    "addm_call": ("addm", "i32::rem_euclid($0 + $1, 7)", "GG", "post", "call"),
    "addm_mixed": ("addm", "$0.wrapping_add($1).rem_euclid(7)", "TG", "post", "method_arg"),
    "max2_paren": ("max2", "($0).max($1)", "GG", "post", "paren"),
    "max2_call": ("max2", "std::cmp::max($0, $1)", "GG", "post", "call"),
    "max2_mixed": ("max2", "$0.max($1)", "TG", "post", "method_arg"),
    "id_cast_paren": ("asi32", "($0 as i32)", "G", "post", "paren"),
    "id_brace": ("asi32", "{ $0 }", "G", "bin", "brace"),
    "id_index": ("asi32", "[$0][0]", "G", "post", "bracket"),
    "id_tuple": ("asi32", "($0, 0).0", "G", "post", "tuple"),
    "id_some": ("asi32", "Some($0).unwrap()", "G", "post", "call"),
    "id_cast": ("asi32", "$0 as i32", "T", "bin", None),
}
UNARY_G = {}          # delimiter -> unary forms whose operand is inside that delimiter
for _f, (_fn, _t, _s, _k, _d) in sorted(FORMS.items()):
    if _s == "G":
        UNARY_G.setdefault(_d, []).append(_f)
UNARY_T = sorted(f for f, x in FORMS.items() if x[2] == "T")
MIXED = sorted(f for f, x in FORMS.items() if x[2] == "TG")
BINARY_G = sorted(f for f, x in FORMS.items() if x[2] == "GG")
DELIMS = sorted(UNARY_G) + ["method_arg"]


def H(k):
    return ["h", k]


def app(form, *args):
    assert len(args) == len(FORMS[form][2]), form
    return ["a", form, list(args)]


# ------------------------------------------------------------------ rendering

def render_shape(sh, leaves):
    """(Rust text, kind) of the shape plugged with the rendered leaves"""
    if sh[0] == "h":
        return leaves[sh[1]], "post"
    if sh[0] == "k":
        return "%di32" % sh[1], "post"
    fn, tmpl, slots, kind, _ = FORMS[sh[1]]
    ops = []
    for s, child in zip(slots, sh[2]):
        txt, kd = render_shape(child, leaves)
        if s == "T" and kd != "post":
            txt = "(" + txt + ")"
        ops.append(txt)
    return dl._subst(tmpl, ops), kind


def _q(sh):
    if sh[0] == "h":
        return "SHole %d" % sh[1], "post"
    if sh[0] == "k":
        return "SConst (%d)%%Z" % sh[1], "post"
    fn, tmpl, slots, kind, _ = FORMS[sh[1]]
    ops = []
    for s, child in zip(slots, sh[2]):
        txt, kd = _q(child)
        ops.append("SGrp (%s)" % txt if (s == "G" or kd != "post") else txt)
    return "SApp %d [%s]" % (dl.FUNS[fn][0], "; ".join(ops)), kind


def q_shape(sh):
    """the MacroArgs.ashape of a shape"""
    return _q(sh)[0]


def leaf_depths(sh, d=0):
    """[(hole, number of delimiter groups around it)] in textual order, from the structure"""
    if sh[0] == "h":
        return [(sh[1], d)]
    if sh[0] == "k":
        return []
    slots = FORMS[sh[1]][2]
    out = []
    for s, child in zip(slots, sh[2]):
        grouped = s == "G" or (child[0] == "a" and FORMS[child[1]][3] != "post")
        out += leaf_depths(child, d + 1 if grouped else d)
    return out


def eval_shape(sh, vals):
    if sh[0] == "h":
        return vals[sh[1]]
    if sh[0] == "k":
        return sh[1]
    return dl.py_fun(FORMS[sh[1]][0], [eval_shape(c, vals) for c in sh[2]])


_TOK = re.compile(r"\s*(\$?[A-Za-z_][A-Za-z0-9_]*|[0-9][A-Za-z0-9_]*|.)")


def token_depths(text):
    """[(identifier, depth)] of a Rust expression text, read off its delimiters (what a scan of the token trees sees)"""
    out, d, i = [], 0, 0
    while i < len(text):
        m = _TOK.match(text, i)
        if not m:
            break
        t = m.group(1)
        i = m.end()
        if t in "([{":
            d += 1
        elif t in ")]}":
            d -= 1
        elif t[0] == "$" or t[0].isalpha() or t[0] == "_":
            out.append((t, d))
    assert d == 0, text
    return out


def _leaf_name(v):
    return v[1] if v[0] == "id" else "$p%d" % v[1]


def occurrences(t):
    """[(variable, depth)] of a term of the C08 AST, in textual order (parameters as '$p<k>')"""
    if t[0] == "v":
        return [(t[1], 0)]
    if t[0] == "c":
        return []
    if t[0] == "f":
        text = dl._subst(dl.FUNS[t[1]][2], ["\x00%d.clone()" % i for i in range(len(t[2]))])
        # the templates of gen/dl.py: read the depth of every operand off the text
        out, d = [], 0
        for ch_i, ch in enumerate(text):
            if ch in "([{":
                d += 1
            elif ch in ")]}":
                d -= 1
            elif ch == "\x00":
                out.append((t[2][int(text[ch_i + 1])], d))
        return out
    return [(t[2][k], d) for k, d in leaf_depths(t[1])]


def _check(t):
    """structure and rendered text agree on where every leaf stands"""
    from . import c08_macros as cm
    names = {_leaf_name(v) for v in t[2]}
    seen = [(n, d) for n, d in token_depths(cm.r_term(t)) if n in names]
    want = [(_leaf_name(v), d) for v, d in occurrences(t)]
    assert seen == want, (t, seen, want)
    return t


def xterm(sh, leaves):
    used = {k for k, _ in leaf_depths(sh)}
    assert used == set(range(len(leaves))), (sh, leaves)          # MacroArgs.term_covered
    return _check(["x", sh, list(leaves)])


# ------------------------------------------------------------------ building shapes

def wrap(rng, sh, delim, other=None):
    """sh inside one more group of the given delimiter (method_arg: as the argument of a method of `other`)"""
    if delim == "method_arg":
        return app(rng.choice(MIXED), other if other is not None else ["k", rng.choice([0, 1, 2])], sh)
    return app(rng.choice(UNARY_G[delim]), sh)


def rand_shape(rng, nleaves, depth):
    """a random shape using every hole 0..nleaves-1 (more than once sometimes), application depth <= depth"""
    pending = list(range(nleaves))
    rng.shuffle(pending)

    def leaf():
        if pending:
            return H(pending.pop())
        return H(rng.randrange(nleaves)) if (nleaves and rng.random() < 0.6) else ["k", rng.choice([0, 1, 2, 3])]

    def go(d):
        if d == 0 or (d < depth and rng.random() < 0.25 and len(pending) <= 1):
            return leaf()
        form = rng.choice(sorted(FORMS))
        n = len(FORMS[form][2])
        kids = [go(d - 1) for _ in range(n)]
        return app(form, *kids)
    sh = go(max(1, depth))
    while pending:                      # leaves not placed yet: join them in
        k = pending.pop()
        sh = app(rng.choice(BINARY_G + MIXED), sh, H(k)) if rng.random() < 0.5 else app(rng.choice(BINARY_G + MIXED), H(k), sh)
    return sh


def rand_xterm(rng, avail, maxdepth=3):
    """a nested expression over 1-2 of the available variables (for the random generators)"""
    n = 1 if (len(avail) < 2 or rng.random() < 0.6) else 2
    leaves = [rng.choice(avail) for _ in range(n)]
    sh = rand_shape(rng, n, rng.randint(1, maxdepth))
    used = sorted({k for k, _ in leaf_depths(sh)})
    if used != list(range(n)):          # a binary join above dropped a hole: fall back to a plain unary chain
        sh = H(0)
        for _ in range(rng.randint(1, maxdepth)):
            sh = app(rng.choice(UNARY_T + [f for fs in UNARY_G.values() for f in fs]), sh)
        leaves = leaves[:1]
    return xterm(sh, leaves)


def placed(rng, place, delim=None, depth=1, with_other=False):
    """a shape over hole 0 (the colliding variable) [and sometimes hole 1, another variable, if with_other] in which hole 0
    stands as `place` says: 'group' (only inside groups: `depth` of them, the innermost of kind `delim`), 'top' (only at top
    level), 'both'"""
    o = H(1) if with_other else None
    if place == "group":
        sh = wrap(rng, H(0), delim or rng.choice(DELIMS), other=o if (o is not None and rng.random() < 0.7) else None)
        for _ in range(depth - 1):
            if rng.random() < 0.3:
                sh = app(rng.choice(UNARY_T), sh)           # an operator in between: no further group if sh is postfix
            sh = wrap(rng, sh, rng.choice(DELIMS), other=o if (o is not None and rng.random() < 0.3) else None)
        if rng.random() < 0.4:
            sh = app(rng.choice(UNARY_T), sh)
    elif place == "top":
        u = rng.random()
        if u < 0.35:
            sh = app(rng.choice(MIXED), H(0), o if o is not None else ["k", rng.choice([0, 1, 2])])
        elif u < 0.7:
            sh = app(rng.choice(UNARY_T), H(0))
        else:
            sh = app("incs_top", app("mod3_top", H(0)))     # t.clone().rem_euclid(3).min(6) + 1
    elif place == "both":
        inner = wrap(rng, H(0), delim or rng.choice(DELIMS))
        for _ in range(depth - 1):
            inner = wrap(rng, inner, rng.choice(DELIMS))
        sh = app(rng.choice(MIXED), H(0), inner) if rng.random() < 0.6 else app(rng.choice(MIXED), app("mod3_top", H(0)), inner)
    else:
        raise ValueError(place)
    return sh


def where(t, name):
    """where the identifier `name` stands in a term: None | 'top' | 'group' | 'both' (+ the largest depth)"""
    ds = [d for v, d in occurrences(t) if v[0] == "id" and v[1] == name]
    if not ds:
        return None, 0
    if all(d == 0 for d in ds):
        return "top", 0
    if all(d > 0 for d in ds):
        return "group", max(ds)
    return "both", max(ds)


# ------------------------------------------------------------------ the designed family

KINDS = ["bound_before_use", "bound_in_same_clause", "used_before_binder", "ident_and_expr", "negated", "let_bound_local",
         "for_bound_local", "if_let_bound_local", "inside_body_disjunction", "two_expr_params", "expr_param_twice",
         "local_bound_through_nested", "passed_on_by_outer", "passed_on_two_levels", "passed_on_outer_has_same_local",
         "outer_local_in_group", "outer_ident_param_in_group"]
IN_BODY = {"outer_local_in_group", "outer_ident_param_in_group"}       # the argument expression is written in a macro body
TWO_PARAMS = {"ident_and_expr", "let_bound_local", "for_bound_local", "if_let_bound_local", "two_expr_params", "local_bound_through_nested"}
PLACES = ["group_only", "group_only_deep", "top_only", "both_in_one_argument", "group_here_top_level_in_another_argument",
          "bare_identifier", "other_spelling"]
GROUP_PLACES = ["group_only", "group_only_deep"]
RSHAPES = ["bound_before", "second_of_two_invocations", "inside_rule_disjunction", "used_after"]


def gen_arg_pattern(rng, kind, place, rshape, delim=None, outer_bin=None):
    A, Ao = rng.choice([("e0", "e1"), ("e1", "e0")])          # A: the chain; Ao: shortcuts / the alternative
    B, K = rng.choice([("u0", "u1"), ("u1", "u0")])           # B: the even values; K: every value
    v = rng.choice(G.POOL)                                    # the spelling of the local
    a, c, w = rng.sample([n for n in G.POOL if n != v], 3)
    P0, P1 = par(0), par(1)
    E, IE, EE, I = [[0, False]], [[0, True], [1, False]], [[0, False], [1, False]], [[0, True]]
    macros = []

    def add(body, params):
        macros.append(dict(name=len(macros), params=copy.deepcopy(params), body=body))
        return len(macros) - 1
    if place == "group_here_top_level_in_another_argument" and kind not in TWO_PARAMS:
        place = "both_in_one_argument"
    if outer_bin is None:
        outer_bin = rng.random() < 0.5
    depth = 1 if place != "group_only_deep" else rng.choice([2, 3])
    with_other = rng.random() < 0.25

    def arg_over(x, other):
        """the argument expression over the variable x (the colliding one) and possibly `other`"""
        if place == "bare_identifier":
            return tv(x)
        pl = {"group_only": "group", "group_only_deep": "group", "top_only": "top", "both_in_one_argument": "both",
              "group_here_top_level_in_another_argument": "group", "other_spelling": rng.choice(["group", "group", "top", "both"])}[place]
        sh = placed(rng, pl, delim=delim, depth=depth, with_other=with_other)
        if outer_bin and sh[0] == "a" and FORMS[sh[1]][3] == "post":
            # an operator / cast at the very top: the actual is not a postfix expression and is substituted in parentheses
            # (invoke_macro, expr_needs_parens_when_substituted); the operand is postfix, so no group is added around it here
            sh = app(rng.choice(["incs_top", "decs_top", "id_cast"]), sh)
        return xterm(sh, [x, other] if 1 in {k for k, _ in leaf_depths(sh)} else [x])
    L = lid(v, 0)
    base = [["clause", B, [tv(L)], []], ["clause", A, [tv(L), tv(P0)], []]]
    leak_macro = 0
    sig = "e"
    if kind == "bound_before_use":
        top = add(base, E)
    elif kind == "bound_in_same_clause":
        top = add([["clause", A, [tv(L), tv(P0)], []], ["clause", B, [tv(L)], []]], E)
    elif kind == "used_before_binder":
        top = add([["clause", K, [tv(P0)], []]] + base, E)
    elif kind == "ident_and_expr":
        top, sig = add([["clause", A, [tv(P0), tv(L)], []], ["clause", A, [tv(L), tv(P1)], []]], IE), "ie"
    elif kind == "negated":
        # the local is pinned to one value (the alternative relation holds (5, 5) only on its diagonal), the designed input
        # below gives that value several successors: whether the negation holds depends on the argument alone
        top = add([["clause", Ao, [tv(L), tv(L)], []], ["neg", A, [tv(L), tv(P0)]]], E)
    elif kind == "let_bound_local":
        top, sig = add([["clause", K, [tv(P0)], []], ["cond", ["let", L, "incs", [P0]]], ["clause", A, [tv(L), tv(P1)], []]], IE), "ie"
    elif kind == "for_bound_local":
        top, sig = add([["clause", K, [tv(P0)], []], ["gen", L, "upto", [P0]], ["clause", A, [tv(L), tv(P1)], []]], IE), "ie"
    elif kind == "if_let_bound_local":
        top, sig = add([["clause", K, [tv(P0)], []], ["cond", ["iflet", L, "half", [P0]]], ["clause", A, [tv(L), tv(P1)], []]], IE), "ie"
    elif kind == "inside_body_disjunction":
        top = add([["disj", [[["clause", B, [tv(L)], []], ["clause", A, [tv(L), tv(P0)], []]], [["clause", Ao, [tv(L), tv(P0)], []]]]]], E)
    elif kind == "two_expr_params":
        top, sig = add(base + [["clause", K, [tv(P1)], []]], EE), "ee"
    elif kind == "expr_param_twice":
        top = add(base + [["clause", K, [tv(P0)], []]], E)
    elif kind == "local_bound_through_nested":
        hop = add([["clause", A, [tv(P0), tv(P1)], []]], [[0, True], [1, True]])
        L1 = lid(v, 1)
        top, sig = add([["inv", hop, [tv(P0), tv(L1)]], ["clause", A, [tv(L1), tv(P1)], []]], IE), "ie"
        leak_macro = top
    elif kind == "passed_on_by_outer":
        m0 = add(base, E)
        top = add([["inv", m0, [tv(P0)]]], E)
    elif kind == "passed_on_two_levels":
        m0 = add(base, E)
        m1 = add([["inv", m0, [tv(P0)]]], E)
        top = add([["clause", K, [tv(P0)], []], ["inv", m1, [tv(P0)]]], E)
    elif kind == "passed_on_outer_has_same_local":
        m0 = add(base, E)
        W = lid(v, 1)
        top = add([["clause", B, [tv(W)], []], ["inv", m0, [tv(P0)]], ["clause", K, [tv(W)], []]], E)
    elif kind == "outer_local_in_group":
        m0 = add(base, E)
        W = lid(v if place != "other_spelling" else w, 1)
        top, sig = add([["clause", A, [tv(P0), tv(W)], []], ["inv", m0, [arg_over(W, P0)]]], I), "i"
    elif kind == "outer_ident_param_in_group":
        m0 = add(base, E)
        top, sig = add([["clause", K, [tv(P0)], []], ["inv", m0, [arg_over(P0, P0)]]], I), "i"
    else:
        raise ValueError(kind)
    spelled = v if place != "other_spelling" else w          # the call-site variable the argument is about

    def inv(x):
        """the invocation with the call-site variable x where the colliding one goes"""
        if sig == "i":
            return ["inv", top, [tv(cid(x))]]
        e = arg_over(cid(x), cid(a))
        if sig == "e":
            return ["inv", top, [e]]
        if sig == "ie":
            first = cid(x) if place == "group_here_top_level_in_another_argument" else cid(a)
            return ["inv", top, [tv(first), e]]
        if place == "group_here_top_level_in_another_argument":
            other = xterm(placed(rng, "top"), [cid(x)]) if rng.random() < 0.6 else tv(cid(x))
        else:
            other = xterm(placed(rng, rng.choice(["top", "group"])), [cid(a)]) if rng.random() < 0.7 else tv(cid(a))
        return ["inv", top, [e, other]]
    s = spelled
    ka = ["clause", K, [tv(cid(a))], []]
    if rshape == "bound_before":
        heads, rb = [["h", "d1", [tv(cid(s))]]], [["clause", K, [tv(cid(s))], []], ka, inv(s)]
    elif rshape == "second_of_two_invocations":
        heads, rb = [["h", "d0", [tv(cid(c)), tv(cid(s))]]], [["clause", K, [tv(cid(c))], []], ["clause", K, [tv(cid(s))], []], ka, inv(c), inv(s)]
    elif rshape == "inside_rule_disjunction":
        heads, rb = [["h", "d1", [tv(cid(s))]]], [["clause", K, [tv(cid(s))], []], ka, ["disj", [[inv(s)], [["clause", Ao, [tv(cid(s)), tv(cid(s))], []]]]]]
    elif rshape == "used_after":
        x2 = [n for n in G.POOL if n not in (v, a, c, w)][0]
        heads, rb = [["h", "d0", [tv(cid(s)), tv(cid(x2))]]], [["clause", K, [tv(cid(s))], []], ka, inv(s), ["clause", A, [tv(cid(s)), tv(cid(x2))], []]]
    else:
        raise ValueError(rshape)
    p = dict(rels=copy.deepcopy(G.RELS), macros=macros, rules=[dict(heads=heads, body=rb)], head_macros=[])
    designed = {A: [(k, k + 1) for k in range(9)], Ao: [(5, 5), (0, 4), (2, 6)], B: [(0,), (2,), (4,), (6,)], K: [(k,) for k in range(10)],
                "d0": [], "d1": [], "d2": []}
    if kind == "negated":
        designed[A] = designed[A] + [(5, 0), (5, 2), (5, 4), (5, 8)]
    capture = None if place == "other_spelling" else [[leak_macro, v]]
    return p, designed, capture


def plan(tier, rng):
    """(kind, place, rule shape, delimiter, operator at the top of the argument) of a run.  quick: every kind with a group-only
    argument (the delimiters rotating through all kinds; an argument written in a macro body always with an operator at its top,
    i.e. substituted in parentheses) and with one more placement (rotating); thorough: every kind x every placement, two rule shapes"""
    out = []
    if tier != "quick":
        for rep in range(2):
            for i, k in enumerate(KINDS):
                for j, pl in enumerate(PLACES):
                    out.append((k, pl, RSHAPES[(i + j + rep) % len(RSHAPES)], DELIMS[(i + j + 3 * rep) % len(DELIMS)], rep == 0))
        return out
    off, offd, offr = rng.randrange(len(PLACES)), rng.randrange(len(DELIMS)), rng.randrange(len(RSHAPES))
    rest = [pl for pl in PLACES if pl != "group_only"]
    for i, k in enumerate(KINDS):
        out.append((k, "group_only", RSHAPES[(offr + i) % len(RSHAPES)] if i % 3 else "bound_before", DELIMS[(offd + i) % len(DELIMS)], k in IN_BODY or i % 2 == 0))
        out.append((k, rest[(off + i) % len(rest)], RSHAPES[(offr + i + 1) % len(RSHAPES)], DELIMS[(offd + 2 * i + 1) % len(DELIMS)], None))
    return out


# ------------------------------------------------------------------ structural features (of ANY program of the C08 AST)

def _subst_var(x, env):
    if x[0] == "par":
        t = env.get(x[1])
        return t[1] if (t is not None and t[0] == "v") else x
    return x


def _subst_term(t, env):
    if t[0] == "v":
        if t[1][0] == "par" and t[1][1] in env:
            return env[t[1][1]]
        return t
    if t[0] == "c":
        return t
    return [t[0], t[1], [_subst_var(x, env) for x in t[2]]]


def invocation_events(p):
    """(nesting level, macro, actuals with the parameters of the enclosing macros substituted, spellings kept) of every
    body-position invocation reached from the rules"""
    defs = {}
    for d in p["macros"]:
        defs[d["name"]] = d
    out = []

    def walk(items, env, level):
        if level > 12:
            return
        for it in G._walk(items):
            if it[0] != "inv" or it[1] not in defs:
                continue
            d = defs[it[1]]
            acts = [_subst_term(t, env) for t in it[2]]
            if len(acts) != len(d["params"]):
                continue
            out.append((level, it[1], acts))
            walk(d["body"], {q: t for (q, _), t in zip(d["params"], acts)}, level + 1)
    for r in p["rules"]:
        walk(r["body"], {}, 0)
    return out


def arg_scan_feats(p):
    """where the identifiers of the actuals that are spelled like an identifier of the invoked macro's body stand"""
    defs = {}
    for d in p["macros"]:
        defs[d["name"]] = d
    feats = set()
    for level, m, acts in invocation_events(p):
        names = {x[1] for x in G._idents_items(defs[m]["body"])}
        if any(t[0] == "x" for t in acts):
            feats.add("nested_expression_argument")
        for t in acts:
            if t[0] == "x" and render_shape(t[1], ["_"] * len(t[2]))[1] != "post":
                # not a postfix expression: invoke_macro substitutes it in parentheses
                feats.add("argument_substituted_in_parentheses")
                if any(v[0] == "id" and v[2] is not None for v in t[2]):
                    feats.add("argument_substituted_in_parentheses:over_a_local_of_the_enclosing_macro")
        for s in names:
            ws = [where(t, s) for t in acts]
            here = [w_ for w_, _ in ws if w_ is not None]
            if not here:
                continue
            deep = max(d for _, d in ws)
            if all(w_ == "group" for w_ in here):
                f = "only_inside_delimiter_groups"
            elif all(w_ == "top" for w_ in here):
                f = "only_at_top_level"
            else:
                f = "inside_a_group_and_at_top_level"
            feats.add("argument_identifier_spelled_like_macro_identifier:" + f)
            if f == "only_inside_delimiter_groups":
                feats.add("argument_identifier_spelled_like_macro_identifier:only_inside_delimiter_groups:depth_%d" % min(deep, 3))
                if level > 0:
                    feats.add("argument_identifier_spelled_like_macro_identifier:only_inside_delimiter_groups:nested_invocation")
    return feats
