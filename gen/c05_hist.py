"""C05 over program values in ANY state — histories of run() / run_timeout() / caller mutations, ROW MULTIPLICITY after every call.

The statement of C05 quantifies over every program value a caller can hold, not only over fresh ones: a value left by
run_timeout(..) == false (the indices of the interrupted SCC were dropped with its locals) and then resumed; a value
that completed a run() and whose relation fields the caller then pushed to, REPLACED by another vector (shorter, of the
same length, longer), truncated or reordered.  gen/props/c05.py used to run fresh values through one run() only.

Histories (steps; a snapshot of every relation, rows in order, is taken after EVERY step):
  ("set", {rel: rows})   fresh program value with these rows          ("push", {rel: rows})    p.rel.push(..)
  ("run",)               p.run()                                       ("assign", rel, rows)   p.rel = vec![..] (replace)
  ("rt", k)              p.run_timeout(k virtual seconds): the clock   ("keep", rel, n)        keep the first n rows
                         hook of C14's tie (feature verif_hooks) makes ("rev", rel)            reverse the rows
                         it fire exactly at its k-th deadline check
Families per program: timeout sweeps / chains `set; rt k [; rt k2]; run [; run]`, `set; run; <mutation>; run [; run]` for
every mutation kind, and the mixed ones `set; rt k; <mutation>; run` and `set; run; <mutation>; rt k; run`.

Oracle = the statement of C05 applied to EVERY call (run / rt) of the history, from the rows the call found (snapshot
before) to the rows it left (snapshot after), serial ascent! and ascent_par!:
  plain relation    the rows found are an unmodified prefix; the appended rows are pairwise distinct and none of them was
                    already present                                              (Props/C05.v c05_any_state_rows_added_once)
  lattice relation  the rows found are in place, same key, value only raised; the appended rows have pairwise distinct
                    keys that no row found holds                                 (one row per lattice key)
  contents          a completed call leaves the stratified least model of the rows it found (Coq specification semantics
                    strat_fix / python Kleene oracle for lattices); an interrupted one a subset / values below it
  model             Engine/HistRows.v hist_script (Eval.run_plan / Timeout.run_timeout / caller mutations as functions on
                    the rows) on the plan dumped by the real front end: flag and (row count, set of tuples) per relation
                    after every call (plain programs)
The timeout mechanism (virtual clock, arm/disarm around one call, flag capture) is C14's, imported from gen/props/c14.py."""
import json
import os

from . import c03_gen as g
from . import c03_vocab as voc
from . import c13_lat, c14_lat, dl, engine_tie, gen_dl, lib, prog
from .props import c14 as c14tie

PROP = "C05"
FUEL = engine_tie.FUEL
PRELUDE = engine_tie.PRELUDE.replace("Engine.Strat.", "Engine.Strat Engine.Timeout Engine.HistRows.")
ATTR = "#![generate_run_timeout]"
RT = "ascent::verif_hooks::arm_clock(true); let __r = p.run_timeout(std::time::Duration::from_secs(%d)); ascent::verif_hooks::arm_clock(false); " + c14tie.RETFMT


def is_call(st):
    return st[0] in ("run", "rt")


# ------------------------------------------------------------------ program shapes of this module

def V(x):
    return ("v", x)


def gen_layered(rng):
    """2-3 strata stacked on one another: every level relation gets rows from the level below by a non-recursive rule (its
    first SCC), then grows by a recursive rule over an edge relation (a looping SCC entered with the relation NON-EMPTY), and
    is read by the next level; optionally a body-less fact rule, a second head, a condition, a rule that re-derives a lower
    level from a higher one's source.  Unary or binary levels."""
    binary = rng.random() < 0.4
    nl = rng.choice([2, 2, 3])
    ne = rng.choice([1, 2])
    rels = [("e%d" % i, 2, "rel") for i in range(ne)] + [("s", 2 if binary else 1, "rel")]
    rels += [("v%d" % i, 2 if binary else 1, "rel") for i in range(1, nl + 1)]
    rules = []
    for i in range(1, nl + 1):
        lo = "s" if i == 1 else "v%d" % (i - 1)
        me = "v%d" % i
        e = "e%d" % rng.randrange(ne)
        conds = [("if", rng.choice(["even", "lt", "ne", "le"]), None)] if rng.random() < 0.25 else []
        if binary:
            conds = [(c[0], c[1], ["x", "y"][:dl.PREDS[c[1]][1]]) for c in conds]
            rules.append(dict(heads=[(me, [V("x"), V("y")])], body=[("clause", lo, [V("x"), V("y")], conds)]))
            if rng.random() < 0.5:
                rules.append(dict(heads=[(me, [V("x"), V("z")])], body=[("clause", me, [V("x"), V("y")], []), ("clause", e, [V("y"), V("z")], [])]))
            else:
                rules.append(dict(heads=[(me, [V("x"), V("z")])], body=[("clause", e, [V("x"), V("y")], []), ("clause", me, [V("y"), V("z")], [])]))
            if rng.random() < 0.3:
                rules.append(dict(heads=[(me, [V("x"), V("z")])], body=[("clause", me, [V("x"), V("y")], []), ("clause", me, [V("y"), V("z")], [])]))
        else:
            conds = [(c[0], c[1], ["x", "x"][:dl.PREDS[c[1]][1]]) for c in conds if dl.PREDS[c[1]][1] == 1]
            rules.append(dict(heads=[(me, [V("x")])], body=[("clause", lo, [V("x")], conds)]))
            heads = [(me, [V("y")])]
            if rng.random() < 0.25 and i < nl:
                heads.append(("v%d" % nl, [("f", "incs", ["y"])]))
            rules.append(dict(heads=heads, body=[("clause", me, [V("x")], []), ("clause", e, [V("x"), V("y")], [])]))
            if rng.random() < 0.3:
                rules.append(dict(heads=[(me, [("f", rng.choice(["incs", "decs", "mod3"]), ["x"])])], body=[("clause", me, [V("x")], [("if", "even", ["x"])] if rng.random() < 0.3 else [])]))
        if rng.random() < 0.35:
            ar = 2 if binary else 1
            rules.append(dict(heads=[(me, [("c", rng.choice(gen_dl.DOM)) for _ in range(ar)])], body=[]))
    if rng.random() < 0.5:
        rng.shuffle(rules)
    return dict(rels=rels, rules=rules, shape="layered")


def layered_input(rng, p):
    inp = {}
    for name, arity, _ in p["rels"]:
        if name.startswith("e"):
            n = rng.choice([4, 6, 7])
            st = rng.choice([0, 1])
            rows = [(k % 8, (k + 1) % 8) for k in range(st, st + n)]
            if rng.random() < 0.4:
                rows.append((rng.choice(gen_dl.DOM), rng.choice(gen_dl.DOM)))
        elif name == "s":
            rows = [tuple(rng.choice([0, 1, 2]) for _ in range(arity)) for _ in range(rng.choice([1, 1, 2]))]
        else:
            rows = [tuple(rng.choice(gen_dl.DOM) for _ in range(arity)) for _ in range(rng.choice([0, 0, 1, 2]))]
        inp[name] = dedup(rows)
    return inp


def dedup(rows, key=None):
    seen, out = set(), []
    for t in rows:
        k = tuple(t) if key is None else key(t)
        if k not in seen:
            seen.add(k)
            out.append(tuple(t))
    return out


# ------------------------------------------------------------------ histories

def replacement(rng, old, fresh, flavor, key=None):
    """a vector to assign to a relation whose input rows were `old`; `fresh`: random rows of the right type"""
    if not old and flavor != "extend":
        flavor = "fresh"
    if flavor == "swap_some":          # same length as the input rows, about half of them different
        rows = [fresh[i % len(fresh)] if (fresh and rng.random() < 0.5) else t for i, t in enumerate(old)]
    elif flavor == "extend":           # the input rows and more
        rows = list(old) + list(fresh)
    elif flavor == "permute":
        rows = list(old)
        rng.shuffle(rows)
    else:                              # unrelated contents
        rows = list(fresh)
    return dedup(rows, key)


def gen_histories(rng, rels, inp, fresh_rows, kmax, dup_ok=False, keyf=None):
    """fresh_rows(rel) -> random rows for that relation (caller material).  Returns [(kind, steps)]."""
    names = [n for n, _, _ in rels]
    base = ("set", inp)
    hs = []
    for k in range(1, kmax + 1):
        hs.append(("timeout_resume", [base, ("rt", k), ("run",)]))
    hs.append(("timeout_chain", [base, ("rt", rng.randint(1, 3)), ("rt", rng.randint(1, 3)), ("run",), ("run",)]))

    def mutation():
        """-> (steps, kind)"""
        r = rng.choice(names)
        u = rng.random()
        if u < 0.20:
            # the caller re-uses the program value for another input: EVERY relation is assigned (same length with other rows / emptied / unrelated)
            steps = []
            for x in names:
                w = rng.random()
                if w < 0.15:
                    continue
                flavor = "swap_some" if w < 0.55 else ("empty" if w < 0.8 else "fresh")
                rows = [] if flavor == "empty" else replacement(rng, inp.get(x, []), fresh_rows(x), flavor, keyf(x) if keyf else None)
                steps.append(("assign", x, rows))
            return steps or [("rev", r)], "reinput"
        if u < 0.60:
            flavor = rng.choice(["swap_some", "swap_some", "extend", "permute", "fresh"])
            rows = replacement(rng, inp.get(r, []), fresh_rows(r), flavor, keyf(r) if keyf else None)
            if dup_ok and rows and rng.random() < 0.25:
                rows = rows + [rng.choice(rows)]
            return [("assign", r, rows)], "assign_" + flavor
        if u < 0.72:
            return [("keep", r, rng.choice([0, 1, 2, 3]))], "truncate"
        if u < 0.80:
            return [("rev", r)], "reverse"
        for _ in range(8):
            rs = rng.sample(names, min(len(names), rng.choice([1, 2])))
            rows = {x: dedup(fresh_rows(x)[:rng.choice([1, 2, 3])], keyf(x) if keyf else None) for x in rs}
            rows = {x: ts for x, ts in rows.items() if ts}
            if rows:
                return [("push", rows)], "push"
        return [("rev", r)], "reverse"
    for _ in range(3):
        m, kind = mutation()
        hs.append(("run_" + kind + "_run", [base, ("run",)] + m + [("run",), ("run",)]))
    m, kind = mutation()
    hs.append(("timeout_" + kind + "_run", [base, ("rt", rng.randint(1, kmax))] + m + [("run",)]))
    m, kind = mutation()
    hs.append(("run_" + kind + "_timeout_run", [base, ("run",)] + m + [("rt", rng.randint(1, kmax)), ("run",)]))
    m, kind = mutation()
    m2, kind2 = mutation()
    hs.append(("run_" + kind + "_run_" + kind2 + "_run", [base, ("run",)] + m + [("run",)] + m2 + [("run",)]))
    return hs


def render(steps, lat_par=(), rinput=None):
    """steps -> gen.prog script; a snapshot after every step (a call of run_timeout first records its flag).
    lat_par: names of lattice relations of an ascent_par! program (rows are RwLock<tuple>); rinput: row renderer."""
    rin = rinput or (lambda rel, rows: rows)
    out = []

    def assign(rel, rows, push=False):
        rows = rin(rel, rows)
        if rel in lat_par:
            vec = "vec![%s]" % ", ".join(prog.rust_tuple(t) for t in rows)
            if push:
                return [("raw", "for t in %s { p.%s.push(::std::sync::RwLock::new(t)); }" % (vec, rel))] if rows else []
            return [("raw", "p.%s = %s.into_iter().map(::std::sync::RwLock::new).collect();" % (rel, vec))]
        return [("push" if push else "set", {rel: rows})] if (rows or not push) else []
    for st in steps:
        if st[0] == "set":
            for rel, rows in st[1].items():
                out += assign(rel, rows)
        elif st[0] == "push":
            for rel, rows in st[1].items():
                out += assign(rel, rows, push=True)
        elif st[0] == "assign":
            out += assign(st[1], st[2])
        elif st[0] in ("keep", "rev"):
            rel = st[1]
            elem = "::std::sync::RwLock::new(t.read().unwrap().clone())" if rel in lat_par else "t.clone()"
            if st[0] == "keep":
                out.append(("raw", "{ let __v: Vec<_> = p.%s.iter().take(%d).map(|t| %s).collect(); p.%s = __v.into_iter().collect(); }" % (rel, st[2], elem, rel)))
            else:
                out.append(("raw", "{ let mut __v: Vec<_> = p.%s.iter().map(|t| %s).collect(); __v.reverse(); p.%s = __v.into_iter().collect(); }" % (rel, elem, rel)))
        elif st[0] == "run":
            out.append(("run",))
        elif st[0] == "rt":
            out.append(("raw", RT % st[1]))
        else:
            raise ValueError(st)
        out.append(("snap",))
    return out


def walk(steps, snaps, decode):
    """-> list of (step index, step, flag, rows found, rows left) for every call; rows = {rel: [tuple] in row order}"""
    calls, i, prev = [], 0, None
    for si, st in enumerate(steps):
        flag = True
        if st[0] == "rt":
            flag = snaps[i]["__ret"][0][0] == "true"
            i += 1
        rows = decode(snaps[i])
        i += 1
        if is_call(st):
            calls.append((si, st, flag, prev, rows))
        prev = rows
    assert i == len(snaps), (i, len(snaps))
    return calls


def show_steps(steps):
    return [list(st) for st in steps]


# ------------------------------------------------------------------ the statement of C05 on one call

def c05_plain(name, pre, post):
    if post[:len(pre)] != pre:
        return "relation %s: the rows the call found are not an unmodified prefix of the rows it left (found %s, left %s)" % (name, pre[:6], post[:6])
    added = post[len(pre):]
    if len(set(added)) != len(added):
        return "relation %s: a tuple was appended twice by one call: %s" % (name, sorted({t for t in added if added.count(t) > 1})[:4])
    again = sorted(set(added) & set(pre))
    if again:
        return "relation %s: a tuple the relation already contained was appended again: %s (%d rows, %d distinct)" % (name, again[:4], len(post), len(set(post)))
    return None


def c05_lattice(name, ty, pre, post):
    if len(post) < len(pre) or any(post[i][:-1] != pre[i][:-1] or not voc.leq(ty, pre[i][-1], post[i][-1]) for i in range(len(pre))):
        return "lattice %s: the rows the call found are not in place with values that only went up (found %s, left %s)" % (name, pre[:6], post[:6])
    added = [t[:-1] for t in post[len(pre):]]
    if len(set(added)) != len(added):
        return "lattice %s: one call appended two rows for one key: %s" % (name, sorted({k for k in added if added.count(k) > 1})[:4])
    again = sorted(set(added) & {t[:-1] for t in pre})
    if again:
        keys = [t[:-1] for t in post]
        return "lattice %s: a second row was created for a key that already had one: %s (%d rows, %d keys)" % (name, again[:4], len(keys), len(set(keys)))
    return None


# ================================================================== plain programs

def gen_plain_cases(tier, seed):
    rng = lib.rng_for(seed, PROP, "hist")
    n = 20 if tier == "quick" else 160
    cases = []
    for i in range(n):
        m = i % 5
        if m in (0, 2):
            p = gen_layered(rng)
            inp = layered_input(rng, p)
            kmax = 5
        else:
            p = gen_dl.gen_strat_program(rng) if m == 4 else gen_dl.gen_program(rng)
            inp = gen_dl.gen_input(rng, p["rels"], style=rng.choice(["sparse_chain", "mixed", "small"]))[0]
            kmax = 3
        agg = (m == 4)
        p["attrs"] = [ATTR]

        def fresh_rows(rel, p=p):
            one = [r for r in p["rels"] if r[0] == rel]
            return gen_dl.gen_input(rng, one, style=rng.choice(["small", "mixed", "dense", "sparse_chain"]))[0][rel]
        hs = gen_histories(rng, p["rels"], inp, fresh_rows, kmax, dup_ok=not agg)
        cases.append(dict(id="c05h_%d" % i, prog=p, input=inp, agg=agg, hists=[h for _, h in hs], kinds=[k for k, _ in hs]))
    return cases


def _plain_case_from_json(o, k):
    def term(t):
        return (t[0], t[1], list(t[2])) if t[0] == "f" else tuple(t)

    def cond(c):
        return tuple(list(c[:-1]) + [list(c[-1]) if isinstance(c[-1], list) else c[-1]])

    def item(it):
        if it[0] == "clause":
            return ("clause", it[1], [term(t) for t in it[2]], [cond(c) for c in it[3]])
        if it[0] == "cond":
            return ("cond", cond(it[1]))
        return tuple(it)
    p = dict(rels=[(r[0], r[1], "rel") for r in o["prog"]["rels"]],
             rules=[dict(heads=[(h[0], [term(t) for t in h[1]]) for h in r["heads"]], body=[item(it) for it in r["body"]]) for r in o["prog"]["rules"]],
             shape="corpus", attrs=[ATTR])

    def step(st):
        if st[0] in ("set", "push"):
            return (st[0], {r: [tuple(t) for t in rows] for r, rows in st[1].items()})
        if st[0] == "assign":
            return ("assign", st[1], [tuple(t) for t in st[2]])
        return tuple(st)
    hists = [[step(st) for st in h] for h in o["hists"]]
    return dict(id="c05h_corpus_%d" % k, prog=p, input=hists[0][0][1], agg=False, hists=hists, kinds=["corpus:" + o.get("name", "")] * len(hists))


def load_corpus():
    path = os.path.join(lib.VERIF, "corpus", "C05.jsonl")
    out = []
    if os.path.exists(path):
        for k, l in enumerate(open(path)):
            if l.strip():
                out.append(_plain_case_from_json(json.loads(l), k))
    return out


def coq_steps(steps, rels, R):
    out = []
    for st in steps:
        if st[0] == "set":
            out.append("HMut (m_set %s)" % dl.coq_facts(engine_tie.facts_of_input(st[1], rels), R))
        elif st[0] == "push":
            out.append("HMut (m_push %s)" % dl.coq_facts(engine_tie.facts_of_input(st[1], rels), R))
        elif st[0] == "assign":
            out.append("HMut (m_assign %s %s)" % (dl.cnat(R(st[1])), dl.coq_list("[%s]" % "; ".join("(%d)" % v for v in t) for t in st[2])))
        elif st[0] == "keep":
            out.append("HMut (m_keep %s %s)" % (dl.cnat(R(st[1])), dl.cnat(st[2])))
        elif st[0] == "rev":
            out.append("HMut (m_rev %s)" % dl.cnat(R(st[1])))
        elif st[0] == "run":
            out.append("HRun")
        elif st[0] == "rt":
            out.append("HTimeout (fire_at %s)" % dl.cnat(st[1]))
    return dl.coq_list(out)


def plain_part(tier, seed):
    cases = load_corpus() + gen_plain_cases(tier, seed)
    texts = {c["id"]: dl.rust_program_text(c["prog"]) for c in cases}
    dumps = prog.front_run([(c["id"], "ascent", texts[c["id"]]) for c in cases])
    jobs, pjobs = [], []
    for n, c in enumerate(cases):
        j = dict(id=c["id"], text=dl.rust_program_text(dict(c["prog"], attrs=[])), attrs=c["prog"]["attrs"], macro="ascent", rels=c["prog"]["rels"],
                 scripts=[render(h) for h in c["hists"]])
        jobs.append(j)
        if n % 2 == 0 or c["id"].startswith("c05h_corpus"):
            pjobs.append(dict(j, id=c["id"] + "_par", macro="ascent_par", threads=3))
    impl = prog.build_and_run("c05h", jobs, features=("verif_hooks",))
    pimpl = prog.build_and_run("c05hp", pjobs, features=("verif_hooks",), run_timeout=300) if pjobs else {}
    modes = [("ascent", impl, ""), ("ascent_par (pool of 3)", pimpl, "_par")]
    # ---- decode the calls of every history; collect the states the calls found (the specification is evaluated on them)
    calls, pres = {}, {}
    for c in cases:
        for mode, res, suf in modes:
            r = res.get(c["id"] + suf)
            if r is None:
                continue
            for h, steps in enumerate(c["hists"]):
                iv = r[h]
                if iv is None or "snaps" not in iv:
                    calls[(c["id"], mode, h)] = iv
                    continue
                cl = walk(steps, iv["snaps"], prog.rows_snap)
                calls[(c["id"], mode, h)] = cl
                for (_, _, _, pre, _) in cl:
                    key = tuple((n, tuple(sorted(set(pre[n])))) for n, _, _ in c["prog"]["rels"])
                    pres.setdefault(c["id"], {}).setdefault(key, len(pres[c["id"]]))
    groups, gids, invs = [], [], {}
    for c in cases:
        d = dumps.get(c["id"])
        if d is None or d.get("status") != "ok" or "sccs" not in d:
            continue
        p = c["prog"]
        R = dl.Names()
        for name, _, _ in p["rels"]:
            R(name)
        plan, hir_rules = dl.coq_plan(d, R)
        hir_prog = dl.coq_list(dl.coq_rule(dict(heads=r["heads"], body=r["body"]), R) for r in hir_rules)
        arities = dl.coq_list("(%s, %s)" % (dl.cnat(R(n)), dl.cnat(a)) for n, a, _ in p["rels"])
        strata = dl.coq_list(dl.coq_list(dl.coq_rule(p["rules"][j], R) for j in comp) for comp in engine_tie.stratify(p["rules"]))
        ex = ["(validate %s %s %s && stratified %s)" % (arities, hir_prog, plan, strata)]
        for steps in c["hists"]:
            ex.append("hist_script std_interp std_swap %d%%nat %s %s" % (FUEL, plan, coq_steps(steps, p["rels"], R)))
        for key, _ in sorted(pres.get(c["id"], {}).items(), key=lambda kv: kv[1]):
            f0 = dl.coq_facts([(n, t) for n, ts in key for t in ts], R)
            ex.append("strat_fix std_interp %d%%nat %s %s" % (FUEL, strata, f0))
        groups.append(ex)
        gids.append(c["id"])
        invs[c["id"]] = {v: k for k, v in R.d.items()}
    vals = dict(zip(gids, lib.coq_eval_groups("c05h", PRELUDE, groups, timeout=90 if tier == "quick" else 150)))
    mism, distinct = [], set()
    stats = dict(histories=0, calls=0, interrupted_calls=0, calls_on_a_resumed_value=0, calls_after_a_caller_mutation=0, model_states_compared=0,
                 calls_on_caller_duplicates_in_an_aggregate_program=0)
    kinds, nskip = {}, 0
    for c in cases:
        p = c["prog"]
        rels = p["rels"]
        d = dumps.get(c["id"], {})
        base = dict(program=texts[c["id"]], id=c["id"])
        if d.get("status") != "ok":
            mism.append(dict(case=base, impl=d.get("status"), model=None, spec=None, kind="impl_violates_spec", known=None,
                             what="front end rejects a well-formed program with #![generate_run_timeout]: %s" % d.get("errors")))
            continue
        v = vals.get(c["id"])
        if v is None:
            nskip += 1
        elif v[0] is not True:
            mism.append(dict(case=base, impl="plan computed by the macro", model="validate && stratified = %s" % v[0], spec=None, kind="model_differs", known=None,
                             what="the plan dumped from the macro is rejected by Engine/Validate.v validate: the c05_any_state theorems do not apply to this program"))
        inv = invs.get(c["id"])
        nh = len(c["hists"])
        specs = {}
        if v is not None:
            for key, idx in pres.get(c["id"], {}).items():
                s = engine_tie.decode_facts(v[1 + nh + idx], inv)
                if s is None:
                    raise lib.Infra("specification oracle out of fuel on %s" % c["id"])
                specs[key] = engine_tie.group_facts(s, rels)
        for h, steps in enumerate(c["hists"]):
            kinds[c["kinds"][h].split(":")[0]] = kinds.get(c["kinds"][h].split(":")[0], 0) + 1
            for mode, res, suf in modes:
                if (c["id"], mode, h) not in calls:
                    continue
                cs = dict(base, macro=mode, history=show_steps(steps), kind_of_history=c["kinds"][h])
                cl = calls[(c["id"], mode, h)]
                stats["histories"] += 1
                if not isinstance(cl, list):
                    mism.append(dict(case=cs, impl=cl, model=None, spec=None, kind="impl_violates_spec", known=None,
                                     what="%s: history did not complete (compile error / panic / timeout): %s" % (mode, json.dumps(cl)[:300])))
                    continue
                distinct.add((c["id"], mode, h))
                model = None
                if v is not None:
                    mv = v[1 + h]
                    model = None if mv == "None" else mv[1]
                why = diff = None
                interrupted = mutated = no_model = False
                for q, (si, st, flag, pre, post) in enumerate(cl):
                    stats["calls"] += 1
                    stats["interrupted_calls"] += (not flag)
                    stats["calls_on_a_resumed_value"] += interrupted
                    stats["calls_after_a_caller_mutation"] += mutated
                    what = "%s, call #%d of the history (step %d: %s%s)" % (mode, q + 1, si + 1, "run()" if st[0] == "run" else "run_timeout(%d) = %s" % (st[1], str(flag).lower()),
                                                                          ", on a value left by an interrupted run_timeout" if interrupted else "")
                    for name, _, _ in rels:
                        w = c05_plain(name, pre[name], post[name])
                        if w:
                            why = "%s: %s" % (what, w)
                            break
                    if why:
                        break
                    if c["agg"] and any(len(set(pre[n])) != len(pre[n]) for n, _, _ in rels):
                        # the caller itself put a duplicate row into a program with aggregates: an aggregate sees it twice (outside C04's statement);
                        # only the multiplicity statement above applies to this call and the rest of the history
                        stats["calls_on_caller_duplicates_in_an_aggregate_program"] += 1
                        model = None
                        no_model = True
                        interrupted = not flag
                        continue
                    key = tuple((n, tuple(sorted(set(pre[n])))) for n, _, _ in rels)
                    sg = specs.get(key)
                    if sg is not None:
                        for name, _, _ in rels:
                            got = sorted(set(post[name]), key=repr)
                            if flag and got != sg[name][1]:
                                why = "%s: relation %s is not the least model of the rows the call found (missing %s, extra %s)" % (
                                    what, name, [t for t in sg[name][1] if t not in got][:4], [t for t in got if t not in sg[name][1]][:4])
                            elif not flag and not set(got) <= set(sg[name][1]):
                                why = "%s: relation %s holds tuples that are not derivable: %s" % (what, name, sorted(set(got) - set(sg[name][1]))[:4])
                            if why:
                                break
                    if why:
                        break
                    if model is not None and not diff:
                        mb, mrows = model[q]
                        mg = engine_tie.group_facts([(inv[a], tuple(t)) for a, t in mrows], rels)
                        ig = {n: (len(post[n]), sorted(set(post[n]), key=repr)) for n, _, _ in rels}
                        if mb != flag or any(ig[n] != mg[n] for n, _, _ in rels):
                            bad = [n for n, _, _ in rels if ig[n] != mg[n]]
                            diff = ("correspondence Engine/HistRows.v hist_script vs generated code: %s (model flag %s; relation %s: implementation %s rows / model %s rows)"
                                    % (what, mb, bad[0] if bad else "-", ig[bad[0]][0] if bad else "-", mg[bad[0]][0] if bad else "-"))
                        else:
                            stats["model_states_compared"] += 1
                    interrupted = not flag
                    mutated = False
                    # a mutation between this call and the next one?
                    nxt = cl[q + 1][0] if q + 1 < len(cl) else len(steps)
                    mutated = any(not is_call(s2) for s2 in steps[si + 1:nxt])
                snaps_view = [dict(step=si + 1, flag=flag, found={n: pre[n] for n in pre}, left={n: post[n] for n in post}) for (si, _, flag, pre, post) in cl]
                if why:
                    mism.append(dict(case=cs, impl=snaps_view, model=None, spec="C05 on every call: rows found stay in place, appended rows are new and pairwise distinct; a completed call leaves the least model of the rows it found",
                                     kind="impl_violates_spec", known=None, what=why))
                elif diff or (v is not None and model is None and not no_model):
                    mism.append(dict(case=cs, impl=snaps_view, model=str(model)[:2000], spec="implementation meets C05 on this history", kind="model_differs", known=None,
                                     what=diff or "correspondence Engine/HistRows.v hist_script vs generated code: model out of fuel"))
    return dict(mismatches=mism, evaluations=stats["histories"], distinct=len(distinct), stats=stats, kinds=kinds, nskip=nskip, programs=len(cases),
                samples=[dict(program=texts[c["id"]], history=show_steps(c["hists"][-1])) for c in cases[:2]])


# ================================================================== lattice programs

def gen_lat_cases(tier, seed):
    rng = lib.rng_for(seed, PROP, "hist_lat")
    n = 12 if tier == "quick" else 90
    cases = []
    for i in range(n):
        p = g.gen_program(rng, ["max", "dual"] if i % 4 == 0 else None)
        inp = g.gen_input(rng, p, style=rng.choice(["improving", "chain", "mixed", "small"]))[0]
        lats = g.lat_of(p)
        orc = g.Oracle(p)
        if orc.run(inp) is None:
            continue
        ar = {n_: a for n_, a, _ in p["rels"]}

        def fresh_rows(rel, p=p, lats=lats, ar=ar):
            if rel in lats:
                rows = [tuple(rng.choice(c13_lat.KEY_DOM) for _ in range(ar[rel] - 1)) + (g.const_code(rng, lats[rel]),) for _ in range(rng.choice([1, 2, 4]))]
                return dedup(rows, key=lambda t: t[:-1])
            return g.gen_input(rng, dict(p, rels=[r for r in p["rels"] if r[0] == rel]), style=rng.choice(["small", "mixed", "chain"]))[0][rel]

        def keyf(rel, lats=lats):
            return (lambda t: t[:-1]) if rel in lats else None
        hs = gen_histories(rng, p["rels"], inp, fresh_rows, 4, dup_ok=False, keyf=keyf)
        # pushes must not give a lattice key a second row (caller duplicates are outside the statement; C13 finding lattice_pushed_duplicate_key_not_merged):
        # rows pushed into a lattice relation are only a guess here, the check below skips contents when the caller created a duplicate key
        cases.append(dict(id="c05hl_%d" % i, prog=p, input=inp, hists=[h for _, h in hs], kinds=[k for k, _ in hs]))
    return cases


def lat_part(tier, seed):
    cases = gen_lat_cases(tier, seed)
    texts = {c["id"]: g.rust_program_text(c["prog"]) for c in cases}
    jobs, pjobs = [], []
    for n, c in enumerate(cases):
        p = c["prog"]
        lats = g.lat_of(p)

        def rin(rel, rows, p=p):
            return g.rust_input(p, {rel: rows})[rel]
        jobs.append(dict(id=c["id"], text=texts[c["id"]], attrs=[ATTR], macro="ascent", rels=p["rels"], scripts=[render(h, rinput=rin) for h in c["hists"]]))
        if n % 2 == 0:
            pjobs.append(dict(id=c["id"] + "_par", text=texts[c["id"]], attrs=[ATTR], macro="ascent_par", threads=3, rels=p["rels"],
                              scripts=[render(h, lat_par=set(lats), rinput=rin) for h in c["hists"]]))
    impl = prog.build_and_run("c05hl", jobs, features=("verif_hooks",))
    pimpl = prog.build_and_run("c05hlp", pjobs, features=("verif_hooks",), run_timeout=300) if pjobs else {}
    mism, distinct = [], set()
    stats = dict(lattice_histories=0, lattice_calls=0, lattice_interrupted_calls=0, lattice_calls_on_a_resumed_value=0, lattice_calls_after_a_caller_mutation=0,
                 lattice_calls_on_caller_duplicate_keys=0)
    for c in cases:
        p = c["prog"]
        lats = g.lat_of(p)
        orc = g.Oracle(p)
        cache = {}
        base = dict(program=texts[c["id"]], id=c["id"], attrs=[ATTR])
        for h, steps in enumerate(c["hists"]):
            for mode, res, suf in (("ascent", impl, ""), ("ascent_par (pool of 3)", pimpl, "_par")):
                r = res.get(c["id"] + suf)
                if r is None:
                    continue
                iv = r[h]
                cs = dict(base, macro=mode, history=show_steps(steps), kind_of_history=c["kinds"][h])
                stats["lattice_histories"] += 1
                if iv is None or "snaps" not in iv:
                    mism.append(dict(case=cs, impl=iv, model=None, spec=None, kind="impl_violates_spec", known=None,
                                     what="%s: history did not complete (compile error / panic / timeout): %s" % (mode, json.dumps(iv)[:300])))
                    continue
                distinct.add((c["id"], mode, h))
                cl = walk(steps, iv["snaps"], lambda s, p=p: g.decode_snapshot(p, s))
                why = None
                interrupted = mutated = False
                for q, (si, st, flag, pre, post) in enumerate(cl):
                    stats["lattice_calls"] += 1
                    stats["lattice_interrupted_calls"] += (not flag)
                    stats["lattice_calls_on_a_resumed_value"] += interrupted
                    stats["lattice_calls_after_a_caller_mutation"] += mutated
                    what = "%s, call #%d of the history (step %d: %s%s)" % (mode, q + 1, si + 1, "run()" if st[0] == "run" else "run_timeout(%d) = %s" % (st[1], str(flag).lower()),
                                                                          ", on a value left by an interrupted run_timeout" if interrupted else "")
                    for name, _, _ in p["rels"]:
                        w = c05_lattice(name, lats[name], pre[name], post[name]) if name in lats else c05_plain(name, pre[name], post[name])
                        if w:
                            why = "%s: %s" % (what, w)
                            break
                    if why:
                        break
                    # contents: only when the rows the call found hold one row per key and no duplicate tuple (otherwise the caller put duplicates in)
                    clean = all(len({t[:-1] for t in pre[n]}) == len(pre[n]) if n in lats else len(set(pre[n])) == len(pre[n]) for n, _, _ in p["rels"])
                    if not clean:
                        stats["lattice_calls_on_caller_duplicate_keys"] += 1
                    else:
                        key = json.dumps({n: sorted(pre[n]) for n in pre}, sort_keys=True, default=str)
                        if key not in cache:
                            s = orc.run(pre)
                            cache[key] = None if s is None else g.canon_state(p, s)
                        final = cache[key]
                        if final is not None:
                            w = c14_lat.check_call(p, pre, post, final, flag, what)
                            if w:
                                why = w
                                break
                    interrupted = not flag
                    nxt = cl[q + 1][0] if q + 1 < len(cl) else len(steps)
                    mutated = any(not is_call(s2) for s2 in steps[si + 1:nxt])
                if why:
                    mism.append(dict(case=cs, impl=[dict(step=si + 1, flag=flag, found=pre, left=post) for (si, _, flag, pre, post) in cl], model=None,
                                     spec="C05 on every call: one row per lattice key, rows found stay in place and are only raised, appended rows are new; a completed call leaves the least fixed point of the rows it found",
                                     kind="impl_violates_spec", known=None, what=why))
    return dict(mismatches=mism, evaluations=stats["lattice_histories"], distinct=len(distinct), stats=stats, programs=len(cases))


# ================================================================== entry point used by gen/props/c05.py

def tie_part(tier, seed):
    pl = plain_part(tier, seed)
    lt = lat_part(tier, seed)
    return dict(mismatches=pl["mismatches"] + lt["mismatches"], evaluations=pl["evaluations"] + lt["evaluations"], distinct=pl["distinct"] + lt["distinct"],
                samples=pl["samples"],
                rule="ANY-STATE HISTORIES: plain programs (layered strata of this module: every level relation is filled by a non-recursive SCC and then grown by a looping SCC it enters non-empty; random positive programs; "
                     "random stratified programs with aggregates) and lattice programs (C03 generators), all compiled with #![generate_run_timeout], x histories `set; rt k; run` for every k up to 3-5, `set; rt k1; rt k2; run; run`, "
                     "`set; run; M; run; run`, `set; rt k; M; run`, `set; run; M; rt k; run`, `set; run; M; run; M'; run` with M a caller mutation: replace one relation's vector (half of the input rows swapped / input rows and more / "
                     "permuted / unrelated; same length, longer, shorter), re-use the value for another input (EVERY relation assigned: same length with other rows / emptied / unrelated), truncate, reverse, push; serial ascent! and (every second program) ascent_par! in a pool of 3; rt k = run_timeout under C14's virtual clock (fires at its k-th "
                     "deadline check).  After EVERY call, from the rows it found to the rows it left: rows found stay an unmodified prefix (lattice: in place, same key, value only raised), appended rows pairwise distinct (keys) and "
                     "none of them already present (one row per key); a completed call leaves the least model of the rows it found (Coq strat_fix / python Kleene oracle), an interrupted one a subset (values below); plain programs: "
                     "flag and (row count, tuple set) of every relation after every call equal Engine/HistRows.v hist_script on the dumped plan; distinct = (program, macro, history)",
                distribution=dict(history_programs_plain=pl["programs"], history_programs_lattice=lt["programs"], history_kinds=pl["kinds"], **pl["stats"], **lt["stats"]),
                trusted_base=["virtual clock hook (ascent/src/verif_hooks.rs, feature verif_hooks; shared with C14's tie); Engine/HistRows.v hist_script drives Eval.run_plan / Timeout.run_timeout through the history, caller mutations as functions on the rows"],
                assumptions=["lattice histories are checked against the statement and the python Kleene oracle only (their model correspondence is C13's / C14's tie); contents of a lattice call are not checked when the caller itself gave a key two rows"],
                extra=dict(history_cases_skipped_model_too_slow=pl["nskip"]))
