"""C12, DS half: histories of provider operations on the real trrel_uf provider (harness/ds_trufprov),
the Coq model (Byods/TrUfProvModel.v) and a python specification oracle (explicit reflexive
transitive closure + the provider laws P1-P5 of DESIGN section 5/C10).

case = dict(suite='bin'|'ter'|'ter0', D=int, K=int, ops=[op])     op = ['s'] | ['e'] | ['m'] | ['i',k,x,y] | ['h',k,x,y]
(the key k is ignored by the binary suite)."""
import json
import os
import shutil

from . import lib

PRELUDE = ("From Coq Require Import List Arith Bool ZArith.\n"
           "From AV Require Import UF.UfBase.\nFrom AV Require Import UF.TrUfModel.\n"
           "From AV Require Import Byods.TrUfProvModel.\nImport ListNotations.\n")

BIN_VIEWS = ["none_get", "none_all", "i0_get", "i0_all", "i1_get", "i1_all", "full_get", "contains", "full_all"]
TER_REV = ["i1_get", "i1_all", "i2_get", "i2_all", "i12_get", "i12_all"]
TER0_VIEWS = ["none_get", "none_all", "i0_get", "i0_all", "i01_get", "i01_all", "i02_get", "i02_all", "full_get", "contains", "full_all"]
TER_VIEWS = TER0_VIEWS[:8] + TER_REV + TER0_VIEWS[8:]


def views_of(suite):
    return {"bin": BIN_VIEWS, "ter": TER_VIEWS, "ter0": TER0_VIEWS}[suite]


# ------------------------------------------------------------------ rendering

def case_line(c):
    toks = [str(c["D"]), str(c["K"])]
    for o in c["ops"]:
        if o[0] in ("i", "h"):
            toks += [o[0]] + ([str(o[2]), str(o[3])] if c["suite"] == "bin" else [str(o[1]), str(o[2]), str(o[3])])
        else:
            toks.append(o[0])
    return " ".join(toks)


def coq_ops(c):
    out = []
    for o in c["ops"]:
        if o[0] == "s":
            out.append("OStart")
        elif o[0] == "e":
            out.append("OEnd")
        elif o[0] == "m":
            out.append("OMerge")
        elif o[0] == "i":
            out.append("OIns %d %d %d" % (o[1], o[2], o[3]))
        elif o[0] == "h":
            out.append("OHead %d %d %d" % (o[1], o[2], o[3]))
        else:
            raise ValueError(o)
    return "[" + "; ".join(out) + "]"


def coq_expr(c):
    if c["suite"] == "bin":
        return "run_bin %d %s" % (c["D"], coq_ops(c))
    rev = "true" if c["suite"] == "ter" else "false"
    return "run_ter %s %s %d %d %s" % (rev, rev, c["D"], c["K"], coq_ops(c))


# ------------------------------------------------------------------ harness build (honours VERIF_REPO for mutation experiments)

def harness_build():
    if lib.REPO == "/repo":
        return lib.harness_build("ds_trufprov")
    import hashlib
    tag = hashlib.sha1(lib.REPO.encode()).hexdigest()[:8]
    src = os.path.join(lib.VERIF, "harness", "ds_trufprov")
    d = os.path.join(lib.BUILD, "harness_alt", "ds_trufprov_" + tag)
    if os.path.exists(d):
        shutil.rmtree(d)
    shutil.copytree(src, d)
    t = open(os.path.join(d, "Cargo.toml")).read().replace('"/repo/', '"%s/' % lib.REPO)
    open(os.path.join(d, "Cargo.toml"), "w").write(t)
    tdir = os.path.join(lib.BUILD, "target_alt_" + tag)
    open(os.path.join(d, ".cargo", "config.toml"), "w").write('[net]\noffline = true\n[build]\ntarget-dir = "%s"\n' % tdir)
    lk = os.path.join(d, "Cargo.lock")
    if os.path.exists(lk):
        os.remove(lk)
    rc, out = lib.cargo_build(d)
    if rc:
        return None, out
    return os.path.join(tdir, "debug", "ds_trufprov"), out


# ------------------------------------------------------------------ canonical observations
# an observation = list per op of
#   ('read', {'d': [(tuples, keys, flag)], 't': [...]})  | ('ins', bool) | ('hT',) | ('hD',) | ('e',) | ('panic', opindex)

def _flag(v, name):
    if name == "i12_get":
        return 1 if v.get("lp") else 0
    e = v.get("e")
    return 2 if e is None else (1 if e else 0)


def parse_impl(c, line):
    names = views_of(c["suite"])
    out = []
    for it in json.loads(line):
        if isinstance(it, dict):
            rd = {}
            for ver in ("d", "t"):
                got = list(it[ver].keys())
                assert got == names, (got, names)
                rd[ver] = [(sorted(tuple(t) for t in it[ver][n]["t"]), sorted(tuple(k) for k in it[ver][n]["k"]), _flag(it[ver][n], n)) for n in names]
            out.append(("read", rd))
        elif it.startswith("panic@"):
            out.append(("panic", int(it[6:].split(":")[0])))
        elif it in ("i0", "i1", "h0", "h1"):
            out.append(("ins", it[1] == "1"))
        elif it in ("hT", "hD", "e"):
            out.append((it,))
        else:
            raise ValueError(it)
    return out


def parse_model(c, val):
    names = views_of(c["suite"])
    out = []
    for it in val:
        if it == "REnd":
            out.append(("e",))
        elif it == "RHeadT":
            out.append(("hT",))
        elif it == "RHeadD":
            out.append(("hD",))
        elif isinstance(it, list) and it[0] == "RIns":
            out.append(("ins", bool(it[1])))
        elif isinstance(it, list) and it[0] == "RPanic":
            out.append(("panic", it[1], it[2]))
        elif isinstance(it, list) and it[0] == "RRead":
            rd = {}
            for ver, vs in (("d", it[1]), ("t", it[2])):
                assert len(vs) == len(names), (len(vs), names)
                rd[ver] = [(sorted(tuple(t) for t in v[0]), sorted(tuple(k) for k in v[1]), v[2]) for v in vs]
            out.append(("read", rd))
        else:
            raise ValueError(it)
    return out


def run_impl(binary, cases):
    res = [None] * len(cases)
    for suite in ("bin", "ter", "ter0"):
        idx = [i for i, c in enumerate(cases) if c["suite"] == suite]
        lines = lib.ds_run(binary, suite, [case_line(cases[i]) for i in idx])
        for i, l in zip(idx, lines):
            res[i] = parse_impl(cases[i], l)
    return res


def run_model(cases, tag="C12", mode="full"):
    """mode 'full': complete observations (parse_model); mode 'fp': the list of per-operation fingerprints (fp_run)"""
    exprs = [coq_expr(c) if mode == "full" else "fp_run (%s)" % coq_expr(c) for c in cases]
    vals = lib.coq_eval(tag, PRELUDE, exprs, per_shard=max(20, (len(exprs) + lib.NCPU - 1) // lib.NCPU), timeout=1500)
    if mode == "full":
        return [parse_model(c, v) for c, v in zip(cases, vals)]
    return [[list(x) for x in v] for v in vals]


M63 = (1 << 63) - 1


def _fp(nums):
    h = 7
    for v in nums:
        h = (h * 131105 + v + 1) & M63
    return h


def _tfp(t):
    h = _fp(t)
    return ((h ^ (h >> 31)) * 2654435761) & M63


def _msfp(ts):
    a = 0
    for t in ts:
        a = (a + _tfp(t)) & M63
    return a


def impl_fp(c, obs):
    """the fingerprints fp_run computes, from the implementation's observations"""
    out = []
    for r in obs:
        if r[0] == "read":
            nums = []
            for dv, tv in zip(r[1]["d"], r[1]["t"]):
                tt = set(tv[0])
                nums += [_msfp([t for t in dv[0] if t not in tt]), dv[2], _msfp(tv[0]), _msfp(tv[1]), tv[2]]
            out.append([0, _fp(nums)])
        elif r[0] == "e":
            out.append([1])
        elif r[0] == "ins":
            out.append([2, 1 if r[1] else 0])
        elif r[0] == "hT":
            out.append([3])
        elif r[0] == "hD":
            out.append([4])
        elif r[0] == "panic":
            out.append([5, r[1], None])
    return out


def fp_agree(ifp, mfp):
    if len(ifp) != len(mfp):
        return False
    for a, b in zip(ifp, mfp):
        if a[0] == 5 and b[0] == 5:
            if a[1] != b[1]:
                return False
        elif a != b:
            return False
    return True


def model_diff(c, iobs, mobs):
    """first difference between implementation and model, or None"""
    for n in range(max(len(iobs), len(mobs))):
        if n >= len(iobs) or n >= len(mobs):
            return n, "traces have different lengths (%d vs %d)" % (len(iobs), len(mobs))
        a, b = iobs[n], mobs[n]
        if a[0] == "panic" or b[0] == "panic":
            if a[0] == b[0] and a[1] == b[1]:
                return None
            return n, "operation %d (%s): implementation %s, model %s" % (
                n, c["ops"][n][0], "panics" if a[0] == "panic" else "runs on",
                ("fails with %s" % b[2]) if b[0] == "panic" else "runs on")
        if a[0] != b[0]:
            return n, "operation %d (%s): implementation answers %s, model %s" % (n, c["ops"][n][0], a[0], b[0])
        if a[0] == "ins" and a[1] != b[1]:
            return n, "operation %d: insert_if_not_present returns %s, model %s" % (n, a[1], b[1])
        if a[0] == "read":
            names = views_of(c["suite"])
            for ver in ("d", "t"):
                for vi, (name, va, vb) in enumerate(zip(names, a[1][ver], b[1][ver])):
                    if ver == "d":
                        # class-level self connections of a Delta depend on the hash order in which the pairs of `new`
                        # were added (TrRelUnionFind::add(x, x) of a new x records (s, s), add(x, y) does not), and they
                        # surface in ind_0_get / ind_1_get as same-class tuples.  All of them are served by total too,
                        # so delta views are compared modulo the tuples of the same view of total (keys likewise).
                        ta, tb = set(a[1]["t"][vi][0]), set(b[1]["t"][vi][0])
                        va = ([t for t in va[0] if t not in ta], None, va[2])
                        vb = ([t for t in vb[0] if t not in tb], None, vb[2])
                    if va != vb:
                        part = "tuples" if va[0] != vb[0] else ("keys" if va[1] != vb[1] else "flag")
                        k = 0 if part == "tuples" else (1 if part == "keys" else 2)
                        return n, "after operation %d (%s) view %s of %s: %s differ: implementation %s, model %s" % (
                            n, c["ops"][n][0], name, "delta" if ver == "d" else "total", part, va[k], vb[k])
    return None


# ------------------------------------------------------------------ specification oracle

def rtc(pairs):
    """reflexive (on mentioned elements) transitive closure of a set of pairs"""
    els = sorted({x for p in pairs for x in p})
    reach = {x: {x} for x in els}
    for x, y in pairs:
        reach[x].add(y)
    changed = True
    while changed:
        changed = False
        for x in els:
            new = set()
            for y in reach[x]:
                new |= reach[y]
            if not new <= reach[x]:
                reach[x] |= new
                changed = True
    return {(x, y) for x in els for y in reach[x]}


def closure(c, ins):
    """ins: {key: set of pairs} -> set of tuples in column order"""
    if c["suite"] == "bin":
        return set(rtc(ins.get(0, set())))
    return {(k, x, y) for k, ps in ins.items() for (x, y) in rtc(ps)}


def tup(c, o):
    return (o[2], o[3]) if c["suite"] == "bin" else (o[1], o[2], o[3])


class Violation(dict):
    pass


def spec_check(c, obs):
    """checks the implementation's observations against the specification; returns a list of
    dict(op=index, law=..., view=..., version=..., tuples=[...], known=key or None, what=str)"""
    names = views_of(c["suite"])
    binary = c["suite"] == "bin"
    out = []
    ins = {}                   # key -> set of pairs handed to insert_if_not_present so far (all strata)
    ins_merged = {}            # the same, up to the last merge
    new_round = {}             # key -> set of pairs inserted since the last merge
    round_keys = set()         # keys for which insert was called since the last merge
    prev = None                # previous read (same stratum)
    prev_ment = {}             # elements mentioned per key before the current round
    # reverse maps of the ternary adaptor, recomputed from the history (for the matcher of the known class only)
    rm = {"new": ({}, {}), "d": ({}, {}), "t": ({}, {}), "stored": ({}, {})}

    def rm_add(m, x, k):
        m.setdefault(x, set()).add(k)

    def rm_union(a, b):
        r = {x: set(s) for x, s in b.items()}
        for x, s in a.items():
            r.setdefault(x, set()).update(s)
        return r

    def add(n, law, view, ver, tuples, known, what):
        out.append(dict(op=n, law=law, view=view, version=ver, tuples=sorted(tuples)[:12], known=known, what=what))

    for n, (o, r) in enumerate(zip(c["ops"], obs)):
        if r[0] == "panic":
            known = None
            if o[0] == "m" and not binary and prev is not None:
                dkeys = {k[0] for k in prev["d"][names.index("i0_get")][1]}
                tkeys = {k[0] for k in prev["t"][names.index("i0_get")][1]}
                if any(k in tkeys and k not in dkeys for k in round_keys):
                    # second loop of BinRelToTernary::merge: fresh Total-shaped delta against a non-empty total[k]
                    known = "ternary_resume_assert"
                elif c["suite"] == "ter":
                    # first loop: the key was in delta.map, every pair inserted for it in this round joins two elements of
                    # one class (x == y, or x and y already equivalent) -> the new Delta has only (s, s) connections, the
                    # trait's is_empty (iter_all().next().is_none()) drops it from delta.map while delta.reverse_map1/2
                    # list the key -> unwrap() on None in the views [1], [2], [1,2] of delta
                    old = closure(c, ins_merged)
                    for k in round_keys:
                        ps = new_round.get(k, set())
                        if k in dkeys and ps and all(x == y or ((k, x, y) in old and (k, y, x) in old) for (x, y) in ps):
                            known = "ternary_dropped_delta_unwrap"
            add(n, "no_panic", None, None, [], known, "panic at operation %d (%s)" % (n, o[0]))
            break
        if o[0] in ("i", "h"):
            k = 0 if binary else o[1]
            p = (o[2], o[3])
            if r[0] == "ins":
                want = p not in new_round.get(k, set())
                if r[1] != want:
                    add(n, "P1", None, "new", [tup(c, o)], None, "insert_if_not_present(%s) returned %s but the tuple was %s in new" % (tup(c, o), r[1], "not yet" if want else "already"))
                round_keys.add(k)
                if r[1]:
                    new_round.setdefault(k, set()).add(p)
                    ins.setdefault(k, set()).add(p)
                    rm_add(rm["new"][0], p[0], k)
                    rm_add(rm["new"][1], p[1], k)
            else:
                # hT / hD: the head update found the tuple in total / delta: it must be in the closure of what was inserted
                if tup(c, o) not in closure(c, ins_merged):
                    add(n, "P5", "contains", "t" if r[0] == "hT" else "d", [tup(c, o)], None, "contains_key answered true for %s which is outside the closure" % (tup(c, o),))
            continue
        if o[0] == "e":
            rm["stored"] = rm["t"]
            continue
        if o[0] == "s":
            rm["d"], rm["t"], rm["new"] = rm["stored"], ({}, {}), ({}, {})
            new_round, round_keys = {}, set()
            merged = False
        else:   # m
            rm["t"] = (rm_union(rm["d"][0], rm["t"][0]), rm_union(rm["d"][1], rm["t"][1]))
            rm["d"], rm["new"] = rm["new"], ({}, {})
            merged = True
        rd = r[1]
        want = closure(c, ins)
        ment_now = {k: {x for p in ps for x in p} for k, ps in ins.items()}
        for vi, name in enumerate(names):
            D = set(rd["d"][vi][0])
            T = set(rd["t"][vi][0])
            fam = name.split("_")[0]

            def known_rev(tuples, vers):
                """ternary reverse-map class: the view is exactly the per-key view filtered through the reverse maps"""
                if binary or fam not in ("i1", "i2", "i12"):
                    return None
                base = {"i1": "i01_get", "i2": "i02_get", "i12": "contains"}[fam]
                for ver in ("d", "t"):
                    basev = set(rd[ver][names.index(base)][0])
                    m1, m2 = rm[ver]
                    if fam == "i1":
                        exp = {t for t in basev if t[0] in m1.get(t[1], set())}
                    elif fam == "i2":
                        exp = {t for t in basev if t[0] in m2.get(t[2], set())}
                    else:
                        exp = {t for t in basev if t[0] in m1.get(t[1], set()) and t[0] in m2.get(t[2], set())}
                    if set(rd[ver][vi][0]) != exp:
                        return None
                return "ternary_reverse_map_views"
            extra = (D | T) - want
            if extra:
                add(n, "sound", name, "d+t", extra, None, "view %s serves tuples outside the closure: %s" % (name, sorted(extra)[:6]))
            missing = want - (D | T)
            if missing:
                add(n, "complete", name, "d+t", missing, known_rev(missing, "dt"),
                    "view %s of delta and total together misses closure tuples %s" % (name, sorted(missing)[:6]))
            if merged and prev is not None:
                pD = set(prev["d"][vi][0])
                pT = set(prev["t"][vi][0])
                # law P3 in the form the semi-naive argument needs: a tuple readable from total after the merge was readable
                # from total or delta before it, or is served by delta NOW (then the delta variants of this iteration cover it)
                fresh = T - (pT | pD | D)
                if fresh:
                    known = None
                    refl = all(t[-1] == t[-2] for t in fresh)
                    if refl and all(t[-1] not in prev_ment.get(0 if binary else t[0], set()) for t in fresh):
                        known = "new_reflexive_not_in_delta"
                    elif known_rev(fresh, "t") and fam in ("i1", "i2", "i12"):
                        known = "ternary_reverse_map_views"
                    add(n, "P3", name, "t", fresh, known,
                        "view %s: tuples %s became readable from total without having been served as delta" % (name, sorted(fresh)[:6]))
                lost = (pT | pD) - T
                if lost:
                    add(n, "fold", name, "t", lost, known_rev(lost, "t"),
                        "view %s: tuples %s served before the merge are not in total after it" % (name, sorted(lost)[:6]))
            if name == "i12_get":
                for ver in ("d", "t"):
                    if rd[ver][vi][2] == 1:
                        empty_map = not rd[ver][names.index("i0_get")][1]
                        add(n, "no_panic", name, ver, [], "ternary_len_estimate_div_by_zero" if empty_map else None,
                            "len_estimate of index [1,2] panics on the %s version" % ("delta" if ver == "d" else "total"))
        # contains_key and index_get of the full index agree
        for ver in ("d", "t"):
            a = rd[ver][names.index("full_get")][0]
            b = rd[ver][names.index("contains")][0]
            if a != b:
                add(n, "P5", "contains", ver, set(a) ^ set(b), None, "contains_key and index_get of the full index disagree")
        prev = rd
        prev_ment = ment_now
        ins_merged = {k: set(ps) for k, ps in ins.items()}
        new_round, round_keys = {}, set()
    return out


# ------------------------------------------------------------------ generator

def gen_history(rng, suite, style=None):
    D = rng.choice([3, 4, 4, 5, 5, 6])
    K = 1 if suite == "bin" else rng.choice([1, 2, 2, 3])
    style = style or rng.choice(["chain", "cycle", "random", "random", "pause", "strata", "dense"])
    ops = []
    nstrata = rng.choice([1, 1, 2, 3]) if style != "strata" else rng.choice([2, 3])
    raw = rng.random() < 0.3
    elems = list(range(D))
    rng.shuffle(elems)
    pos = {k: 0 for k in range(K)}

    def pick_pair(k):
        r = rng.random()
        if style in ("chain", "pause") and r < 0.7:
            i = pos[k] % (D - 1)
            pos[k] += 1
            return elems[i], elems[i + 1]
        if style == "cycle" and r < 0.8:
            i = pos[k] % D
            pos[k] += 1
            return elems[i], elems[(i + 1) % D]
        if r < 0.1:
            x = rng.randrange(D)
            return x, x
        return rng.randrange(D), rng.randrange(D)
    for s in range(nstrata):
        ops.append(["s"])
        rounds = rng.choice([1, 2, 3, 4, 5]) if style != "pause" else rng.choice([3, 4, 5, 6])
        active = None
        for rd in range(rounds):
            if style == "pause" and K > 1:
                # one key at a time, coming back to an earlier key after a gap
                active = [rd % K] if rng.random() < 0.7 else [rng.randrange(K)]
            elif style == "pause":
                active = [0] if rd % 2 == 0 else []
            else:
                active = [k for k in range(K) if rng.random() < 0.75]
            nins = rng.choice([0, 1, 1, 2, 2, 3, 4]) if style != "dense" else rng.choice([3, 4, 6])
            for _ in range(nins):
                if not active:
                    break
                k = rng.choice(active)
                x, y = pick_pair(k)
                ops.append(["i" if (raw or rng.random() < 0.1) else "h", k, x, y])
            ops.append(["m"])
        # the generated code leaves a stratum only after a merge that moved an empty new (delta is empty then)
        ops.append(["m"])
        if rng.random() < 0.3:
            ops.append(["m"])
        ops.append(["e"])
    return dict(suite=suite, D=D, K=K, ops=ops, style=style)


def exhaustive_small(suite, npairs, nrounds):
    """all histories over 2 elements (and 1 key / 2 keys for the ternary suites): each round inserts one pair (head update) or nothing"""
    import itertools
    D = 2
    K = 1 if suite == "bin" else 2
    choices = [None] + [(k, x, y) for k in range(K) for x in range(D) for y in range(D)]
    out = []
    for seq in itertools.product(choices, repeat=nrounds):
        ops = [["s"]]
        for ch in seq:
            if ch is not None:
                ops.append(["h", ch[0], ch[1], ch[2]])
            ops.append(["m"])
        ops += [["m"], ["e"]]
        out.append(dict(suite=suite, D=D, K=K, ops=ops, style="exhaustive"))
    return out
